//! Per-driver construction helpers shared by the driver-level properties (C08, C09):
//!  * `Drv`: the eleven constructors, their device types, plausible config spaces;
//!  * `ApHal`: LedgerHal plus a record of the `access_platform` argument of every platform call;
//!  * the `VirtQueue::new` argument observer (hook `verif::set_queue_new_observer`);
//!  * `HookT<T>`: a transparent `Transport` wrapper that scripts per-queue answers
//!    (queue_used / max_queue_size), config-generation answers, lets the "device" write its
//!    notification-suppression words when a queue is registered, and services notified queues with a
//!    minimal reference device (zero-fills writable buffers, records INDIRECT descriptors);
//!  * `FuncDev`: a functional virtio-mmio register file (legacy + modern) for the real MmioTransport;
//!  * `Built<T>` / `build`: construct any driver over any transport with the instrumented platform;
//!  * `enc_events`: the ordered event log (transport calls or register accesses, hook reports,
//!    platform calls) in the flat encoding of coq/theories/Extract/InitIO.v.
use crate::hal::{self, Ev, LedgerHal};
use crate::mmio::{self, MmioDev};
use crate::rng::Rng;
use std::cell::RefCell;
use std::collections::{HashMap, VecDeque};
use std::ptr::NonNull;
use std::rc::Rc;
use virtio_drivers::device::blk::VirtIOBlk;
use virtio_drivers::device::console::VirtIOConsole;
use virtio_drivers::device::gpu::VirtIOGpu;
use virtio_drivers::device::input::VirtIOInput;
use virtio_drivers::device::net::{VirtIONet, VirtIONetRaw};
use virtio_drivers::device::rng::VirtIORng;
use virtio_drivers::device::rtc::VirtIORtc;
use virtio_drivers::device::socket::VirtIOSocket;
use virtio_drivers::device::sound::VirtIOSound;
use virtio_drivers::device::virtio_9p::VirtIO9p;
use virtio_drivers::transport::mmio::{MmioTransport, VirtIOHeader};
use virtio_drivers::transport::{DeviceStatus, DeviceType, InterruptStatus, Transport};
use virtio_drivers::{BufferDirection, Error, Hal, PhysAddr};
use zerocopy::{FromBytes, Immutable, IntoBytes};

// ------------------------------------------------------------------------------------------------
// the drivers
#[derive(Clone, Copy, Debug, PartialEq, Eq)]
pub enum Drv { Blk, Console, Gpu, Input, NetRaw, Net, Rng, Rtc, Socket, Sound, P9 }
pub const ALL: [Drv; 11] = [Drv::Blk, Drv::Console, Drv::Gpu, Drv::Input, Drv::NetRaw, Drv::Net, Drv::Rng, Drv::Rtc, Drv::Socket, Drv::Sound, Drv::P9];

pub const RING_BITS: [u32; 4] = [28, 29, 32, 33];

impl Drv {
    /// the numbering of Extract/InitIO.v dec_driver
    pub fn code(self) -> u128 { ALL.iter().position(|d| *d == self).unwrap() as u128 }
    pub fn name(self) -> &'static str {
        match self { Drv::Blk => "blk", Drv::Console => "console", Drv::Gpu => "gpu", Drv::Input => "input", Drv::NetRaw => "netraw",
            Drv::Net => "net", Drv::Rng => "rng", Drv::Rtc => "rtc", Drv::Socket => "socket", Drv::Sound => "sound", Drv::P9 => "9p" }
    }
    pub fn device_type(self) -> DeviceType {
        match self { Drv::Blk => DeviceType::Block, Drv::Console => DeviceType::Console, Drv::Gpu => DeviceType::GPU, Drv::Input => DeviceType::Input,
            Drv::NetRaw | Drv::Net => DeviceType::Network, Drv::Rng => DeviceType::EntropySource, Drv::Rtc => DeviceType::Timer,
            Drv::Socket => DeviceType::Socket, Drv::Sound => DeviceType::Sound, Drv::P9 => DeviceType::_9P }
    }
    /// virtio device ID (MMIO DeviceID register)
    pub fn device_id(self) -> u32 { self.device_type() as u8 as u32 }
    /// device-specific feature bits the driver looks at, besides the four ring bits
    pub fn device_bits(self) -> &'static [u32] {
        match self { Drv::Blk => &[5, 9], Drv::Console => &[0, 2], Drv::Gpu => &[1], Drv::NetRaw | Drv::Net => &[5, 16], _ => &[] }
    }
    /// bits worth enumerating exhaustively: the ones the driver understands
    pub fn relevant_bits(self) -> Vec<u32> { let mut v: Vec<u32> = self.device_bits().to_vec(); v.extend(RING_BITS); v }
    pub fn nqueues(self) -> usize {
        match self { Drv::Blk | Drv::Rng | Drv::Rtc | Drv::P9 => 1, Drv::Console | Drv::Gpu | Drv::Input | Drv::NetRaw | Drv::Net => 2, Drv::Socket => 3, Drv::Sound => 4 }
    }
    /// a plausible device configuration space (what a well-behaved device of this type exposes)
    pub fn config(self, rng: &mut Rng) -> Vec<u8> {
        match self {
            Drv::Blk => { let mut c = vec![0u8; 60]; c[..8].copy_from_slice(&(rng.boundary(40)).to_le_bytes()); c[20..24].copy_from_slice(&512u32.to_le_bytes()); c }
            Drv::Console => { let mut c = vec![0u8; 12]; c[0..2].copy_from_slice(&(rng.range(1, 300) as u16).to_le_bytes());
                c[2..4].copy_from_slice(&(rng.range(1, 100) as u16).to_le_bytes()); c[4..8].copy_from_slice(&1u32.to_le_bytes()); c }
            Drv::Gpu => { let mut c = vec![0u8; 16]; c[8..12].copy_from_slice(&(rng.range(1, 16) as u32).to_le_bytes()); c }
            Drv::Input => vec![0u8; 136],
            Drv::NetRaw | Drv::Net => { let mut c = rng.bytes(6); c.extend(1u16.to_le_bytes()); c.extend(1u16.to_le_bytes()); c.extend(1500u16.to_le_bytes()); c }
            Drv::Rng | Drv::Rtc => vec![],
            Drv::Socket => { let mut c = (rng.range(3, 1 << 20)).to_le_bytes().to_vec(); c[4..8].fill(0); c }
            // the driver allocates one PcmParameters per stream: keep the stream count small
            Drv::Sound => { let mut c = vec![]; for v in [rng.range(0, 4) as u32, rng.range(0, 4) as u32, rng.range(0, 4) as u32] { c.extend(v.to_le_bytes()); } c }
            Drv::P9 => { let tag = b"hostshare"; let n = rng.range(1, tag.len() as u64) as usize; let mut c = (n as u16).to_le_bytes().to_vec(); c.extend(&tag[..n]); c }
        }
    }
}

/// generic parameters of the constructors that have some
#[derive(Clone, Copy, Debug)]
pub struct Params { pub net_queue: usize, pub net_buf_len: usize, pub sock_rx: usize }
impl Default for Params { fn default() -> Self { Params { net_queue: 8, net_buf_len: 2048, sock_rx: 512 } } }
pub const NET_QUEUES: [usize; 3] = [2, 8, 32];
pub const SOCK_RX: [usize; 4] = [44, 45, 64, 512];
impl Params {
    pub fn p1(&self, d: Drv) -> u128 { match d { Drv::NetRaw | Drv::Net => self.net_queue as u128, Drv::Socket => self.sock_rx as u128, _ => 0 } }
    pub fn p2(&self, d: Drv) -> u128 { match d { Drv::Net => self.net_buf_len as u128, _ => 0 } }
}

// ------------------------------------------------------------------------------------------------
// instrumented platform: LedgerHal + the access_platform argument of each call
thread_local! {
    pub static AP_ALLOC: RefCell<Vec<bool>> = RefCell::new(vec![]);
    pub static AP_SHARE: RefCell<Vec<bool>> = RefCell::new(vec![]);
    pub static AP_RELEASE: RefCell<Vec<bool>> = RefCell::new(vec![]);
    /// (position in the event log, idx, indirect, event_idx, access_platform) of every VirtQueue::new
    pub static QNEW: RefCell<Vec<(usize, u16, bool, bool, bool)>> = RefCell::new(vec![]);
    static SPINS: RefCell<u64> = RefCell::new(0);
}
pub struct ApHal;
unsafe impl Hal for ApHal {
    fn dma_alloc(pages: usize, direction: BufferDirection, ap: bool) -> (PhysAddr, NonNull<u8>) {
        AP_ALLOC.with(|a| a.borrow_mut().push(ap));
        LedgerHal::dma_alloc(pages, direction, ap)
    }
    unsafe fn dma_dealloc(paddr: PhysAddr, vaddr: NonNull<u8>, pages: usize, ap: bool) -> i32 {
        AP_RELEASE.with(|a| a.borrow_mut().push(ap));
        unsafe { LedgerHal::dma_dealloc(paddr, vaddr, pages, ap) }
    }
    unsafe fn mmio_phys_to_virt(paddr: PhysAddr, size: usize) -> NonNull<u8> { unsafe { LedgerHal::mmio_phys_to_virt(paddr, size) } }
    unsafe fn share(buffer: NonNull<[u8]>, direction: BufferDirection, ap: bool) -> PhysAddr {
        AP_SHARE.with(|a| a.borrow_mut().push(ap));
        unsafe { LedgerHal::share(buffer, direction, ap) }
    }
    unsafe fn unshare(paddr: PhysAddr, buffer: NonNull<[u8]>, direction: BufferDirection, ap: bool) {
        AP_RELEASE.with(|a| a.borrow_mut().push(ap));
        unsafe { LedgerHal::unshare(paddr, buffer, direction, ap) }
    }
}
fn qnew_observer(idx: u16, indirect: bool, event_idx: bool, ap: bool) {
    let pos = hal::log_len();
    QNEW.with(|q| q.borrow_mut().push((pos, idx, indirect, event_idx, ap)));
}
fn spin_observer(e: virtio_drivers::verif::Event) {
    if let virtio_drivers::verif::Event::Spin(_) = e {
        let n = SPINS.with(|s| { let mut s = s.borrow_mut(); *s += 1; *s });
        if n > 5000 { panic!("busy-wait does not end: the device was never told about the request"); }
    }
}
/// fresh ledger, observers installed, records cleared; DMA addresses start at `dma_base`
pub fn reset_platform(dma_base: u64) {
    hal::reset();
    mmio::clear();
    hal::LEDGER.with(|l| l.borrow_mut().next_dma = dma_base);
    clear_records();
    virtio_drivers::verif::set_queue_new_observer(Some(qnew_observer));
    virtio_drivers::verif::set_observer(Some(spin_observer));
}
pub fn clear_records() {
    AP_ALLOC.with(|a| a.borrow_mut().clear()); AP_SHARE.with(|a| a.borrow_mut().clear()); AP_RELEASE.with(|a| a.borrow_mut().clear());
    QNEW.with(|q| q.borrow_mut().clear()); SPINS.with(|s| *s.borrow_mut() = 0);
}
pub fn release_observers() {
    virtio_drivers::verif::set_queue_new_observer(None);
    virtio_drivers::verif::set_observer(None);
}
/// everything recorded since the last clear: (event log, VirtQueue::new reports, ap of allocs, ap of shares)
pub struct Records { pub log: Vec<Ev>, pub qnew: Vec<(usize, u16, bool, bool, bool)>, pub ap_alloc: Vec<bool>, pub ap_share: Vec<bool> }
pub fn take_records() -> Records {
    let r = Records { log: hal::take_log(), qnew: QNEW.with(|q| q.borrow().clone()), ap_alloc: AP_ALLOC.with(|a| a.borrow().clone()),
        ap_share: AP_SHARE.with(|a| a.borrow().clone()) };
    clear_records();
    r
}

pub const MMIO_REGION: u32 = 8;
/// Flat encoding of the ordered events (Extract/InitIO.v). Releases (dealloc, unshare, queue_unset, the
/// drop of the transport) belong to property C09 and are left out.
pub fn enc_events(r: &Records) -> Vec<u128> {
    enc_events_with(r, &|region, write, off, width, val| {
        let off = if region == MMIO_REGION { off as u128 } else { (1u128 << 64) + off as u128 };
        vec![20, write as u128, off, width as u128, val as u128]
    })
}
/// the same with the register accesses rendered by `acc(region, write, off, width, val)`
pub fn enc_events_with(r: &Records, acc: &dyn Fn(u32, bool, u64, u8, u64) -> Vec<u128>) -> Vec<u128> {
    let mut o: Vec<u128> = vec![];
    let (mut ia, mut is, mut iq) = (0usize, 0usize, 0usize);
    for (pos, e) in r.log.iter().enumerate() {
        while iq < r.qnew.len() && r.qnew[iq].0 <= pos { let q = r.qnew[iq]; o.extend([5, q.1 as u128, q.2 as u128, q.3 as u128, q.4 as u128]); iq += 1; }
        match e {
            Ev::SetStatus(s) => o.extend([1, *s as u128]),
            Ev::ReadFeatures => o.push(2),
            Ev::WriteFeatures(f) => o.extend([3, *f as u128]),
            Ev::GuestPageSize(p) => o.extend([4, *p as u128]),
            Ev::QueueUsed(q) => o.extend([6, *q as u128]),
            Ev::MaxQueueSize(q) => o.extend([7, *q as u128]),
            Ev::Alloc { pages, dir, paddr } => { let ap = r.ap_alloc.get(ia).copied().unwrap_or(false); ia += 1; o.extend([8, *pages as u128, *dir as u128, *paddr as u128, ap as u128]); }
            Ev::QueueSet { q, size, desc, drv, dev, .. } => o.extend([9, *q as u128, *size as u128, *desc as u128, *drv as u128, *dev as u128]),
            Ev::ReadGen => o.push(10),
            Ev::ReadConfig { off, len } => o.extend([11, *off as u128, *len as u128]),
            Ev::WriteConfig { off, len } => o.extend([12, *off as u128, *len as u128]),
            Ev::Share { len, dir, .. } => { let ap = r.ap_share.get(is).copied().unwrap_or(false); is += 1; o.extend([13, *len as u128, *dir as u128, ap as u128]); }
            Ev::Notify(q) => o.extend([14, *q as u128]),
            Ev::AckInterrupt => o.push(15),
            Ev::Mmio { region, write, off, width, val } => o.extend(acc(*region, *write, *off, *width, *val)),
            Ev::Dealloc { .. } | Ev::Unshare { .. } | Ev::QueueUnset(_) | Ev::TransportDrop | Ev::MmioMap { .. }
            | Ev::Store { .. } | Ev::StoreDesc { .. } | Ev::Fence | Ev::Spin(_) => {}
        }
    }
    while iq < r.qnew.len() { let q = r.qnew[iq]; o.extend([5, q.1 as u128, q.2 as u128, q.3 as u128, q.4 as u128]); iq += 1; }
    o
}
/// only the register accesses, as (write, offset, width, value)
pub fn enc_accesses(r: &Records) -> Vec<u128> {
    let mut o = vec![];
    for e in &r.log { if let Ev::Mmio { region, write, off, width, val } = e {
        let off = if *region == MMIO_REGION { *off as u128 } else { (1u128 << 64) + *off as u128 };
        o.extend([*write as u128, off, *width as u128, *val as u128]); } }
    o
}


/// split the flat encoding into its items
pub fn items(ev: &[u128]) -> Vec<Vec<u128>> {
    let mut v = vec![]; let mut i = 0usize;
    while i < ev.len() {
        let n = match ev[i] { 2 | 10 | 15 => 1, 1 | 3 | 4 | 6 | 7 | 14 => 2, 11 | 12 => 3, 13 => 4, 5 | 8 | 20 => 5, 9 => 6, _ => ev.len() - i };
        let n = n.min(ev.len() - i);
        v.push(ev[i..i + n].to_vec()); i += n;
    }
    v
}
/// the same for the PCI rendering (21 win w off width val)
pub fn items21(ev: &[u128]) -> Vec<Vec<u128>> {
    let mut v = vec![]; let mut i = 0usize;
    while i < ev.len() {
        let n = match ev[i] { 2 | 10 | 15 => 1, 1 | 3 | 4 | 6 | 7 | 14 => 2, 11 | 12 => 3, 13 => 4, 5 | 8 | 20 => 5, 9 | 21 => 6, _ => ev.len() - i };
        let n = n.min(ev.len() - i);
        v.push(ev[i..i + n].to_vec()); i += n;
    }
    v
}
/// A constructor that fails (or panics) drops what it has built: `Drop` of an inner driver unsets its queues
/// and the drop of the transport resets the device. Those register accesses are releases (property C09);
/// they form the tail of the log and are removed here, so that what is left is the forward part.
pub fn strip_release_tail(ev: &mut Vec<u128>) {
    let mut it = items(ev);
    let w = |x: &Vec<u128>, off: u128| x.len() == 5 && x[0] == 20 && x[1] == 1 && x[2] == off;
    let w0 = |x: &Vec<u128>, off: u128| x.len() == 5 && x[0] == 20 && x[1] == 1 && x[2] == off && x[4] == 0;
    loop {
        let n = it.len();
        if n >= 1 && w0(&it[n - 1], 0x70) { it.pop(); continue; }
        // legacy queue_unset: QueueSel, QueueNum := 0, QueueAlign := 0, QueuePFN := 0
        if n >= 4 && w(&it[n - 4], 0x30) && w0(&it[n - 3], 0x38) && w0(&it[n - 2], 0x3c) && w0(&it[n - 1], 0x40) { it.truncate(n - 4); continue; }
        // modern queue_unset: QueueSel, QueueReady := 0, reads of QueueReady, QueueNum := 0, six address words := 0
        if n >= 9 && w0(&it[n - 7], 0x38) && w0(&it[n - 6], 0x80) && w0(&it[n - 5], 0x84) && w0(&it[n - 4], 0x90) && w0(&it[n - 3], 0x94)
            && w0(&it[n - 2], 0xa0) && w0(&it[n - 1], 0xa4) {
            let mut k = n - 7;
            while k > 0 && it[k - 1].len() == 5 && it[k - 1][0] == 20 && it[k - 1][1] == 0 && it[k - 1][2] == 0x44 { k -= 1; }
            if k >= 2 && w0(&it[k - 1], 0x44) && w(&it[k - 2], 0x30) { it.truncate(k - 2); continue; }
        }
        break;
    }
    *ev = it.concat();
}

// ------------------------------------------------------------------------------------------------
// what the "device" answers / does per queue, and a minimal reference device
#[derive(Clone, Copy, Debug, Default)]
pub struct QScript {
    /// answer of queue_used (None: the transport's own state)
    pub used: Option<bool>,
    /// answer of max_queue_size (None: the transport's own value)
    pub max: Option<u32>,
    /// notification-suppression words the device writes as soon as the queue is registered
    pub uflags: u16,
    pub aevent: u16,
}
#[derive(Clone, Copy, Debug, Default)]
pub struct QMem { pub desc: u64, pub drv: u64, pub dev: u64, pub size: u32, pub seen: u16, pub used_idx: u16 }

#[derive(Default)]
pub struct DevScript {
    pub q: HashMap<u16, QScript>,
    /// answers of read_config_generation in order; afterwards the last one repeats
    pub gens: VecDeque<u32>,
    pub last_gen: Option<u32>,
    /// service a queue when it is notified
    pub serve: bool,
    pub mem: HashMap<u16, QMem>,
    pub saw_indirect: bool,
    pub served: u64,
}
impl DevScript {
    pub fn script(&self, q: u16) -> QScript { self.q.get(&q).copied().unwrap_or_default() }
    pub fn next_gen(&mut self, own: u32) -> u32 {
        match self.gens.pop_front() { Some(g) => { self.last_gen = Some(g); g } None => self.last_gen.unwrap_or(own) }
    }
    /// the queue has just been registered at these addresses: the device writes its suppression words
    pub fn registered(&mut self, q: u16, size: u32, desc: u64, drv: u64, dev: u64) {
        let s = self.script(q);
        self.mem.insert(q, QMem { desc, drv, dev, size, seen: 0, used_idx: 0 });
        if s.uflags != 0 { let _ = hal::dev_write_u16(dev, s.uflags); }
        if s.aevent != 0 { let _ = hal::dev_write_u16(dev + 4 + 8 * size as u64, s.aevent); }
    }
    /// used_event as the device reads it
    pub fn used_event(&self, q: u16) -> u16 {
        match self.mem.get(&q) { Some(m) => hal::dev_read_u16(m.drv + 4 + 2 * m.size as u64).unwrap_or(0xffff), None => 0xffff }
    }
    /// complete every available chain of queue `q`: writable parts zero-filled, used length = their total
    pub fn service(&mut self, q: u16) {
        let Some(mut m) = self.mem.get(&q).copied() else { return };
        let n = m.size as usize;
        if n == 0 { return; }
        let aidx = hal::dev_read_u16(m.drv + 2).unwrap_or(m.seen);
        while m.seen != aidx {
            let slot = (m.seen as usize) & (n - 1);
            let head = hal::dev_read_u16(m.drv + 4 + 2 * slot as u64).unwrap_or(0);
            let mut elems: Vec<(u64, u32, u16)> = vec![];
            let rd = |i: usize, base: u64| -> Option<(u64, u32, u16, u16)> {
                let b = hal::dev_read(base + 16 * i as u64, 16).ok()?;
                Some((u64::from_le_bytes(b[0..8].try_into().unwrap()), u32::from_le_bytes(b[8..12].try_into().unwrap()),
                      u16::from_le_bytes([b[12], b[13]]), u16::from_le_bytes([b[14], b[15]])))
            };
            if let Some((addr, len, flags, _)) = rd(head as usize % n, m.desc) {
                if flags & 4 != 0 {
                    self.saw_indirect = true;
                    let cnt = (len / 16) as usize; let mut i = 0usize; let mut steps = 0;
                    while i < cnt && steps <= cnt { if let Some((a, l, f, nx)) = rd(i, addr) { elems.push((a, l, f)); if f & 1 == 0 { break; } i = nx as usize; } else { break; } steps += 1; }
                } else {
                    let mut cur = head as usize; let mut steps = 0;
                    while cur < n && steps <= n { if let Some((a, l, f, nx)) = rd(cur, m.desc) { if f & 4 != 0 { self.saw_indirect = true; } elems.push((a, l, f)); if f & 1 == 0 { break; } cur = nx as usize; } else { break; } steps += 1; }
                }
            }
            let mut total = 0u32;
            for (a, l, f) in &elems { if f & 2 != 0 { let _ = hal::dev_write(*a, &vec![0u8; *l as usize]); total = total.wrapping_add(*l); } }
            let uslot = (m.used_idx as usize) & (n - 1);
            let _ = hal::dev_write_u32(m.dev + 4 + 8 * uslot as u64, head as u32);
            let _ = hal::dev_write_u32(m.dev + 8 + 8 * uslot as u64, total);
            m.used_idx = m.used_idx.wrapping_add(1);
            let _ = hal::dev_write_u16(m.dev + 2, m.used_idx);
            m.seen = m.seen.wrapping_add(1);
            self.served += 1;
        }
        self.mem.insert(q, m);
    }
}

/// Transparent wrapper: every call reaches the inner transport (which logs / performs it); answers are
/// overridden as scripted and the device acts when a queue is registered or notified.
pub struct HookT<T: Transport> { pub inner: T, pub dev: Rc<RefCell<DevScript>> }
impl<T: Transport> HookT<T> {
    pub fn new(inner: T) -> (Self, Rc<RefCell<DevScript>>) { let d = Rc::new(RefCell::new(DevScript::default())); (HookT { inner, dev: d.clone() }, d) }
}
impl<T: Transport> Transport for HookT<T> {
    fn device_type(&self) -> DeviceType { self.inner.device_type() }
    fn read_device_features(&mut self) -> u64 { self.inner.read_device_features() }
    fn write_driver_features(&mut self, f: u64) { self.inner.write_driver_features(f) }
    fn max_queue_size(&mut self, q: u16) -> u32 { let v = self.inner.max_queue_size(q); self.dev.borrow().script(q).max.unwrap_or(v) }
    fn notify(&mut self, q: u16) {
        self.inner.notify(q);
        let mut d = self.dev.borrow_mut();
        if d.serve { d.service(q); }
    }
    fn get_status(&self) -> DeviceStatus { self.inner.get_status() }
    fn set_status(&mut self, s: DeviceStatus) { self.inner.set_status(s) }
    fn set_guest_page_size(&mut self, g: u32) { self.inner.set_guest_page_size(g) }
    fn requires_legacy_layout(&self) -> bool { self.inner.requires_legacy_layout() }
    fn queue_set(&mut self, q: u16, size: u32, desc: PhysAddr, drv: PhysAddr, dev: PhysAddr) {
        self.inner.queue_set(q, size, desc, drv, dev);
        self.dev.borrow_mut().registered(q, size, desc, drv, dev);
    }
    fn queue_unset(&mut self, q: u16) { self.inner.queue_unset(q) }
    fn queue_used(&mut self, q: u16) -> bool { let v = self.inner.queue_used(q); self.dev.borrow().script(q).used.unwrap_or(v) }
    fn ack_interrupt(&mut self) -> InterruptStatus { self.inner.ack_interrupt() }
    fn read_config_generation(&self) -> u32 { let v = self.inner.read_config_generation(); self.dev.borrow_mut().next_gen(v) }
    fn read_config_space<V: FromBytes + IntoBytes>(&self, offset: usize) -> Result<V, Error> { self.inner.read_config_space(offset) }
    fn write_config_space<V: IntoBytes + Immutable>(&mut self, offset: usize, value: V) -> Result<(), Error> { self.inner.write_config_space(offset, value) }
}

// ------------------------------------------------------------------------------------------------
// a functional virtio-mmio register file (VirtIO 1.2, 4.2.2 and 4.2.4) for the real MmioTransport
pub const MMIO_VBASE: usize = 0x6100_0000_0000;
#[derive(Clone, Copy, Default)]
pub struct MQueue { pub num: u32, pub align: u32, pub pfn: u32, pub ready: u32, pub desc: u64, pub drv: u64, pub dev: u64 }
pub struct FuncState {
    pub version: u32, pub device_id: u32, pub features: u64, pub driver_features: u64, pub dsel: u32, pub fsel: u32,
    pub status: u32, pub qsel: u32, pub guest_page_size: u32, pub default_max: u32, pub queues: HashMap<u32, MQueue>,
    pub config: Vec<u8>, pub isr: u32, pub script: DevScript,
}
pub struct FuncDev(pub Rc<RefCell<FuncState>>);
fn set_half(v: &mut u64, high: bool, x: u32) { if high { *v = (*v & 0xffff_ffff) | ((x as u64) << 32); } else { *v = (*v & !0xffff_ffff) | x as u64; } }
impl MmioDev for FuncDev {
    fn read(&mut self, off: u64, width: u8) -> u64 {
        let mut s = self.0.borrow_mut();
        let qsel = s.qsel;
        if off >= 0x100 {
            let o = (off - 0x100) as usize; let mut v = 0u64;
            for i in 0..width as usize { v |= (*s.config.get(o + i).unwrap_or(&0) as u64) << (8 * i); }
            return v;
        }
        (match off {
            0x000 => 0x7472_6976, 0x004 => s.version, 0x008 => s.device_id, 0x00c => 0x554d_4551,
            0x010 => if s.dsel == 0 { s.features as u32 } else if s.dsel == 1 { (s.features >> 32) as u32 } else { 0 },
            0x034 => { let m = s.script.script(qsel as u16).max; m.unwrap_or(s.default_max) }
            0x040 => match s.script.script(qsel as u16).used { Some(u) => u as u32, None => s.queues.get(&qsel).map(|q| q.pfn).unwrap_or(0) },
            0x044 => match s.script.script(qsel as u16).used { Some(u) => u as u32, None => s.queues.get(&qsel).map(|q| q.ready).unwrap_or(0) },
            0x060 => s.isr, 0x070 => s.status,
            0x0fc => s.script.next_gen(0),
            _ => 0,
        }) as u64
    }
    fn write(&mut self, off: u64, _width: u8, val: u64) {
        let mut s = self.0.borrow_mut();
        let v = val as u32; let qsel = s.qsel; let (dsel_hi, fsel_hi) = (s.dsel == 1, s.fsel == 1); let _ = dsel_hi;
        match off {
            0x014 => s.dsel = v, 0x024 => s.fsel = v,
            0x020 => { let mut f = s.driver_features; set_half(&mut f, fsel_hi, v); s.driver_features = f; }
            0x028 => s.guest_page_size = v, 0x030 => s.qsel = v,
            0x038 => s.queues.entry(qsel).or_default().num = v,
            0x03c => s.queues.entry(qsel).or_default().align = v,
            0x040 => {
                let q = s.queues.entry(qsel).or_default(); q.pfn = v;
                if v != 0 {
                    // legacy layout (2.7.2): descriptor table, available ring, padding to QueueAlign, used ring
                    let n = q.num as u64; let al = q.align.max(1) as u64; let desc = v as u64 * s.guest_page_size.max(1) as u64;
                    let q = s.queues.entry(qsel).or_default();
                    q.desc = desc; q.drv = desc + 16 * n; q.dev = (desc + 16 * n + 6 + 2 * n + al - 1) / al * al;
                    let (d, a, u, nn) = (q.desc, q.drv, q.dev, q.num);
                    s.script.registered(qsel as u16, nn, d, a, u);
                }
            }
            0x044 => {
                let q = s.queues.entry(qsel).or_default(); q.ready = v;
                if v != 0 { let (d, a, u, nn) = (q.desc, q.drv, q.dev, q.num); s.script.registered(qsel as u16, nn, d, a, u); }
            }
            0x050 => { if s.script.serve { s.script.service(v as u16); } }
            0x064 => s.isr &= !v,
            0x070 => { s.status = v; if v == 0 { s.queues.clear(); } }
            0x080 => set_half(&mut s.queues.entry(qsel).or_default().desc, false, v), 0x084 => set_half(&mut s.queues.entry(qsel).or_default().desc, true, v),
            0x090 => set_half(&mut s.queues.entry(qsel).or_default().drv, false, v), 0x094 => set_half(&mut s.queues.entry(qsel).or_default().drv, true, v),
            0x0a0 => set_half(&mut s.queues.entry(qsel).or_default().dev, false, v), 0x0a4 => set_half(&mut s.queues.entry(qsel).or_default().dev, true, v),
            _ => {}
        }
    }
}
/// register the emulated device and probe it with the real `MmioTransport::new`
pub fn mmio_transport(version: u32, d: Drv, features: u64, default_max: u32, config: Vec<u8>) -> Option<(MmioTransport<'static>, Rc<RefCell<FuncState>>)> {
    let size = 0x100 + config.len();
    let st = Rc::new(RefCell::new(FuncState { version, device_id: d.device_id(), features, driver_features: 0, dsel: 0, fsel: 0, status: 0, qsel: 0,
        guest_page_size: 0, default_max, queues: HashMap::new(), config, isr: 0, script: DevScript::default() }));
    mmio::register(MMIO_REGION, MMIO_VBASE, size.max(0x100), Box::new(FuncDev(st.clone())));
    let header = NonNull::new(MMIO_VBASE as *mut VirtIOHeader).unwrap();
    let t = unsafe { MmioTransport::new(header, size) }.ok()?;
    Some((t, st))
}

// ------------------------------------------------------------------------------------------------
// a functional virtio-pci function (VirtIO 1.2, 4.1.4) for the real PciTransport: configuration space and
// capabilities from scen/c11.rs (`build_dev`), one 64 KiB memory BAR holding the four structures, whose
// registers behave (feature words behind the selectors, status, per-queue registers behind queue_select,
// queue_notify_off per queue, config_generation, device configuration bytes, ISR)
pub const PCI_REGION: u32 = 9;
pub const PCI_BAR_PADDR: u32 = 0xfe00_0000;
pub const PCI_BAR_VBASE: usize = 0x2000_0000_0000;
pub const PCI_BAR_BITS: u32 = 16;
pub const PCI_COMMON_LEN: u32 = 56;
/// where the capabilities put the structures inside the BAR, and what the device answers about notifications
#[derive(Clone, Debug)]
pub struct PciGeo {
    pub common_off: u32, pub isr_off: u32, pub cfg_off: u32, pub notify_off: u32,
    /// length in bytes of the notification capability, notify_off_multiplier
    pub notify_len: u32, pub mult: u32,
    /// queue_notify_off per queue (queues beyond the list answer 0)
    pub noffs: Vec<u16>,
    /// device_status before the driver touches the device (what a previous driver left behind)
    pub init_status: u8,
    /// false: the status register reads back what was written; true: FEATURES_OK is kept only if the accepted
    /// features are a subset of the offered ones (3.1.1 step 6)
    pub checking_status: bool,
}
impl PciGeo {
    pub fn plain(nq: usize) -> PciGeo {
        PciGeo { common_off: 0, isr_off: 0x1000, cfg_off: 0x2000, notify_off: 0x3000, notify_len: 0x100, mult: 4, noffs: (0..nq as u16).collect(), init_status: 0, checking_status: false }
    }
    /// (window, offset inside it) of a BAR offset: 0 common, 1 notify, 2 ISR, 3 device configuration, 9 none
    pub fn classify(&self, cfg_len: usize, off: u64, width: u8) -> (u128, u128) {
        let inside = |base: u32, len: u64| off >= base as u64 && off + width as u64 <= base as u64 + len;
        if inside(self.common_off, PCI_COMMON_LEN as u64) { (0, (off - self.common_off as u64) as u128) }
        else if inside(self.notify_off, self.notify_len as u64) { (1, (off - self.notify_off as u64) as u128) }
        else if inside(self.isr_off, 1) { (2, (off - self.isr_off as u64) as u128) }
        else if inside(self.cfg_off, cfg_len as u64) { (3, (off - self.cfg_off as u64) as u128) }
        else { (9, off as u128) }
    }
}
#[derive(Clone, Copy, Default)]
pub struct PQueue { pub size: Option<u16>, pub desc: u64, pub drv: u64, pub dev: u64, pub enable: u16 }
/// consecutive reads of device_status (no write in between) after which the device answers 0 whatever was written:
/// a wait of the transport that would never end (`Drop` polls for the reset) terminates, and `runaway` says so
pub const POLL_LIMIT: u32 = 10_000;
pub struct PciFuncState {
    pub polls: u32, pub runaway: bool,
    pub geo: PciGeo, pub features: u64, pub driver_features: u64, pub dsel: u32, pub fsel: u32, pub status: u8, pub qsel: u16,
    pub nqueues: u16, pub default_max: u32, pub queues: HashMap<u16, PQueue>, pub config: Vec<u8>, pub isr: u8, pub script: DevScript,
}
pub struct PciFuncDev(pub Rc<RefCell<PciFuncState>>);
fn part(v: u64, byte: u64, width: u8) -> u64 { let x = v >> (8 * byte); if width >= 8 { x } else { x & ((1u64 << (8 * width as u32)) - 1) } }
fn put_part(v: &mut u64, byte: u64, width: u8, x: u64) {
    let mask = if width >= 8 { u64::MAX } else { ((1u64 << (8 * width as u32)) - 1) << (8 * byte) };
    *v = (*v & !mask) | ((x << (8 * byte)) & mask);
}
impl MmioDev for PciFuncDev {
    fn read(&mut self, off: u64, width: u8) -> u64 {
        let mut s = self.0.borrow_mut();
        let (win, o) = { let n = s.config.len(); s.geo.classify(n, off, width) };
        let o = o as u64;
        let qsel = s.qsel;
        match win {
            0 => {
                let q = s.queues.get(&qsel).copied().unwrap_or_default();
                match o {
                    0 => s.dsel as u64,
                    4 => (if s.dsel == 0 { s.features as u32 } else if s.dsel == 1 { (s.features >> 32) as u32 } else { 0 }) as u64,
                    8 => s.fsel as u64,
                    12 => (if s.fsel == 0 { s.driver_features as u32 } else if s.fsel == 1 { (s.driver_features >> 32) as u32 } else { 0 }) as u64,
                    16 => 0xffff, 18 => s.nqueues as u64,
                    20 => {
                        s.polls += 1;
                        if s.polls > POLL_LIMIT { s.runaway = true; s.status = 0; }
                        let mut st = s.status;
                        if s.geo.checking_status && s.driver_features & !s.features != 0 { st &= !8; }
                        st as u64
                    }
                    21 => s.script.next_gen(0) as u8 as u64,
                    22 => qsel as u64,
                    24 => { let m = s.script.script(qsel).max; (match m { Some(m) => m as u16, None => q.size.unwrap_or(s.default_max as u16) }) as u64 }
                    26 => 0xffff,
                    28 => match s.script.script(qsel).used { Some(u) => u as u64, None => q.enable as u64 },
                    30 => s.geo.noffs.get(qsel as usize).copied().unwrap_or(0) as u64,
                    32..=39 => part(q.desc, o - 32, width), 40..=47 => part(q.drv, o - 40, width), 48..=55 => part(q.dev, o - 48, width),
                    _ => 0,
                }
            }
            2 => { let v = s.isr; s.isr = 0; v as u64 }
            3 => { let mut v = 0u64; for i in 0..width as usize { v |= (*s.config.get(o as usize + i).unwrap_or(&0) as u64) << (8 * i); } v }
            _ => 0,
        }
    }
    fn write(&mut self, off: u64, width: u8, val: u64) {
        let mut s = self.0.borrow_mut();
        let (win, o) = { let n = s.config.len(); s.geo.classify(n, off, width) };
        let o = o as u64;
        let qsel = s.qsel;
        s.polls = 0;
        match win {
            0 => match o {
                0 => s.dsel = val as u32, 8 => s.fsel = val as u32,
                12 => { let hi = s.fsel == 1; if s.fsel <= 1 { let mut f = s.driver_features; set_half(&mut f, hi, val as u32); s.driver_features = f; } }
                20 => { s.status = val as u8; if val as u8 == 0 { s.queues.clear(); s.driver_features = 0; s.dsel = 0; s.fsel = 0; s.qsel = 0; } }
                22 => s.qsel = val as u16,
                24 => s.queues.entry(qsel).or_default().size = Some(val as u16),
                28 => {
                    let dm = s.default_max as u16;
                    let q = s.queues.entry(qsel).or_default(); q.enable = val as u16;
                    if val as u16 == 1 { let (d, a, u, n) = (q.desc, q.drv, q.dev, q.size.unwrap_or(dm)); s.script.registered(qsel, n as u32, d, a, u); }
                }
                32..=39 => put_part(&mut s.queues.entry(qsel).or_default().desc, o - 32, width, val),
                40..=47 => put_part(&mut s.queues.entry(qsel).or_default().drv, o - 40, width, val),
                48..=55 => put_part(&mut s.queues.entry(qsel).or_default().dev, o - 48, width, val),
                _ => {}
            },
            1 => { if s.script.serve { s.script.service(val as u16); } }
            _ => {}
        }
    }
}
/// build the PCI function, map its BAR and probe it with the real `PciTransport::new`
pub fn pci_transport(d: Drv, features: u64, default_max: u32, config: Vec<u8>, cfg_present: bool, geo: PciGeo)
    -> Option<(virtio_drivers::transport::pci::PciTransport, Rc<RefCell<PciFuncState>>)> {
    use crate::scen::c11::{build_dev, cap, layout};
    use crate::scen::c12::{Spec, Twin};
    use virtio_drivers::transport::pci::bus::{DeviceFunction, PciRoot};
    let config = if cfg_present { config } else { vec![] };
    let specs = [Spec::Mem { ty: 0, pf: false, k: PCI_BAR_BITS, m: 32, addr: PCI_BAR_PADDR }];
    let (bars, starts) = layout(&specs);
    let mut caps = vec![cap(0x40, 1, 0, geo.common_off, PCI_COMMON_LEN), cap(0x58, 3, 0, geo.isr_off, 1)];
    if cfg_present { caps.push(cap(0x70, 4, 0, geo.cfg_off, config.len() as u32)); }
    let mut n = cap(0x88, 2, 0, geo.notify_off, geo.notify_len); n.mult = geo.mult; caps.push(n);
    let dev = build_dev((0x1040 + d.device_id()) << 16 | 0x1af4, 0x0006, 0, bars, &starts, &[0; 6], &caps, 0, 0);
    let st = Rc::new(RefCell::new(PciFuncState { polls: 0, runaway: false, status: geo.init_status, geo, features, driver_features: 0, dsel: 0, fsel: 0, qsel: 0,
        nqueues: d.nqueues() as u16, default_max, queues: HashMap::new(), config, isr: 0, script: DevScript::default() }));
    for w in &dev.maps {
        hal::add_mmio_window(w.paddr, w.size, PCI_BAR_VBASE);
        mmio::register(PCI_REGION, PCI_BAR_VBASE, w.size as usize, Box::new(PciFuncDev(st.clone())));
    }
    let df = DeviceFunction { bus: 0, device: 1, function: 0 };
    let mut root = PciRoot::new(Twin::single(df, dev.f.clone()));
    let t = virtio_drivers::transport::pci::PciTransport::new::<ApHal, _>(&mut root, df).ok()?;
    Some((t, st))
}

// ------------------------------------------------------------------------------------------------
// constructing any driver over any transport
pub enum Built<T: Transport> {
    Blk(VirtIOBlk<ApHal, T>), Console(VirtIOConsole<ApHal, T>), Gpu(VirtIOGpu<ApHal, T>), Input(VirtIOInput<ApHal, T>),
    NetRaw2(VirtIONetRaw<ApHal, T, 2>), NetRaw8(VirtIONetRaw<ApHal, T, 8>), NetRaw32(VirtIONetRaw<ApHal, T, 32>),
    Net2(VirtIONet<ApHal, T, 2>), Net8(VirtIONet<ApHal, T, 8>), Net32(VirtIONet<ApHal, T, 32>),
    Rng(VirtIORng<ApHal, T>), Rtc(VirtIORtc<ApHal, T>),
    Socket44(VirtIOSocket<ApHal, T, 44>), Socket45(VirtIOSocket<ApHal, T, 45>), Socket64(VirtIOSocket<ApHal, T, 64>), Socket512(VirtIOSocket<ApHal, T, 512>),
    Sound(VirtIOSound<ApHal, T>), P9(VirtIO9p<ApHal, T>),
}
/// `Driver::new(transport)` for driver `d` (boxed: some drivers are large)
pub fn build<T: Transport>(d: Drv, t: T, p: Params) -> Result<Box<Built<T>>, Error> {
    Ok(Box::new(match d {
        Drv::Blk => Built::Blk(VirtIOBlk::new(t)?),
        Drv::Console => Built::Console(VirtIOConsole::new(t)?),
        Drv::Gpu => Built::Gpu(VirtIOGpu::new(t)?),
        Drv::Input => Built::Input(VirtIOInput::new(t)?),
        Drv::NetRaw => match p.net_queue { 2 => Built::NetRaw2(VirtIONetRaw::new(t)?), 8 => Built::NetRaw8(VirtIONetRaw::new(t)?), _ => Built::NetRaw32(VirtIONetRaw::new(t)?) },
        Drv::Net => match p.net_queue { 2 => Built::Net2(VirtIONet::new(t, p.net_buf_len)?), 8 => Built::Net8(VirtIONet::new(t, p.net_buf_len)?), _ => Built::Net32(VirtIONet::new(t, p.net_buf_len)?) },
        Drv::Rng => Built::Rng(VirtIORng::new(t)?),
        Drv::Rtc => Built::Rtc(VirtIORtc::new(t)?),
        Drv::Socket => match p.sock_rx { 44 => Built::Socket44(VirtIOSocket::new(t)?), 45 => Built::Socket45(VirtIOSocket::new(t)?), 64 => Built::Socket64(VirtIOSocket::new(t)?), _ => Built::Socket512(VirtIOSocket::new(t)?) },
        Drv::Sound => Built::Sound(VirtIOSound::new(t)?),
        Drv::P9 => Built::P9(VirtIO9p::new(t)?),
    }))
}
/// normalise Params to the instantiations `build` has
pub fn norm_params(p: Params) -> Params {
    Params { net_queue: if NET_QUEUES.contains(&p.net_queue) { p.net_queue } else { 32 }, net_buf_len: p.net_buf_len,
        sock_rx: if SOCK_RX.contains(&p.sock_rx) { p.sock_rx } else { 512 } }
}
