//! C16: the network drivers (VirtIONetRaw and VirtIONet) in lock-step with Model/Net.v, against a
//! reference NIC that touches memory only through device addresses: it walks and validates every
//! transmit chain byte for byte and injects frames of every length 0..buffer into posted receive
//! buffers in PRNG order and bursts.  Monitors (kinds 1650..1655) evaluate Model/NetSpec.v on what
//! the implementation was observed to do.
use crate::hal::{self, Ev, LedgerHal};
use crate::scen::common::*;
use crate::scen::qrig::{read_desc, QAddr, BUFIDS, CURQ};
use crate::tport::{ModelTransport, TState};
use crate::Ctx;
use std::cell::RefCell;
use std::collections::VecDeque;
use std::panic::{catch_unwind, AssertUnwindSafe};
use std::rc::Rc;
use virtio_drivers::device::net::VirtIONetRaw;
#[cfg(feature = "alloc")]
use virtio_drivers::device::net::{RxBuffer, TxBuffer, VirtIONet};
use virtio_drivers::transport::DeviceType;
use virtio_drivers::verif::Event;
use virtio_drivers::Error;

const F_V1: u64 = 1 << 32;
const F_IND: u64 = 1 << 28;
const F_EVT: u64 = 1 << 29;
const SUPPORTED: u64 = (1 << 5) | (1 << 16) | (1 << 29) | (1 << 28) | (1 << 32) | (1 << 33);

// ------------------------------------------------------------------------------------------------
// reference NIC
#[derive(Clone)]
pub struct TxObs { pub head: u16, pub lens: Vec<u32>, pub anyw: bool, pub wire: Vec<u8>, pub bad: bool }
#[derive(Clone)]
pub struct RxDone { pub token: u16, pub id: u128, pub written: Vec<u8>, pub used_len: u32 }
#[derive(Clone)]
pub struct RxInject { pub which: usize, pub hdr: Vec<u8>, pub frame: Vec<u8>, pub used_override: Option<u32>, pub id_override: Option<u32> }

pub struct Nic {
    pub rx: QAddr, pub tx: QAddr, pub n: usize, pub event_idx: bool,
    pub rx_seen: u16, pub rx_used: u16, pub tx_seen: u16, pub tx_used: u16,
    pub rx_posted: Vec<u16>,
    pub rx_done: Vec<RxDone>, pub tx_done: Vec<TxObs>,
    // co-simulation plan for the blocking calls
    pub tx_on_notify: bool, pub tx_at_spin: u32,
    pub rx_plan: Vec<RxInject>, pub rx_on_notify: bool, pub rx_at_spin: u32,
    pub spins: u32, pub hopeless: bool, pub poisoned: bool,
}
thread_local! { pub static NIC: RefCell<Option<Nic>> = RefCell::new(None); }

/// the chain a device reaches from `head`: elements (addr, len, writable); bad = malformed
fn walk_chain(q: &QAddr, head: u16) -> (Vec<(u64, u32, bool)>, bool) {
    let n = q.size;
    let mut out = vec![];
    if (head as usize) >= n { return (out, true); }
    let (addr, len, flags, _) = match read_desc(q, head as usize) { Some(d) => d, None => return (out, true) };
    if flags & 4 != 0 {
        if flags & 3 != 0 || len == 0 || len % 16 != 0 { return (out, true); }
        let b = match hal::dev_read(addr, len as usize) { Ok(b) => b, Err(_) => return (out, true) };
        let m = len as usize / 16;
        let mut i = 0usize; let mut steps = 0;
        loop {
            if i >= m || steps > m { return (out, true); }
            let d = &b[16 * i..16 * i + 16];
            let a = u64::from_le_bytes(d[0..8].try_into().unwrap());
            let l = u32::from_le_bytes(d[8..12].try_into().unwrap());
            let f = u16::from_le_bytes([d[12], d[13]]);
            let nx = u16::from_le_bytes([d[14], d[15]]);
            if f & 4 != 0 { return (out, true); }
            out.push((a, l, f & 2 != 0));
            steps += 1;
            if f & 1 == 0 { break; }
            i = nx as usize;
        }
        (out, false)
    } else {
        let mut cur = head as usize; let mut steps = 0;
        loop {
            if cur >= n || steps > n { return (out, true); }
            let (a, l, f, nx) = read_desc(q, cur).unwrap();
            if f & 4 != 0 { return (out, true); }
            out.push((a, l, f & 2 != 0));
            steps += 1;
            if f & 1 == 0 { break; }
            cur = nx as usize;
        }
        (out, false)
    }
}

fn buf_id_at(addr: u64) -> u128 {
    match hal::share_at(addr) {
        Some((vaddr, _, _)) => BUFIDS.with(|b| b.borrow().get(&vaddr).copied()).map(|x| x as u128).unwrap_or(99999),
        None => 99998,
    }
}

impl Nic {
    pub fn new(rx: QAddr, tx: QAddr, n: usize, event_idx: bool) -> Self {
        Nic { rx, tx, n, event_idx, rx_seen: 0, rx_used: 0, tx_seen: 0, tx_used: 0, rx_posted: vec![], rx_done: vec![], tx_done: vec![],
            tx_on_notify: false, tx_at_spin: 1, rx_plan: vec![], rx_on_notify: false, rx_at_spin: 1, spins: 0, hopeless: false, poisoned: false }
    }
    /// transmit: take every new available chain, read it through device addresses, complete it
    pub fn tx_service(&mut self) {
        let n = self.n;
        let aidx = hal::dev_read_u16(self.tx.drv + 2).unwrap();
        while self.tx_seen != aidx {
            let slot = (self.tx_seen as usize) & (n - 1);
            let head = hal::dev_read_u16(self.tx.drv + 4 + 2 * slot as u64).unwrap();
            let (elems, mut bad) = walk_chain(&self.tx, head);
            let mut wire = vec![]; let mut lens = vec![]; let mut anyw = false;
            for (a, l, w) in &elems {
                lens.push(*l);
                if *w { anyw = true; continue; }
                match hal::dev_read(*a, *l as usize) { Ok(b) => wire.extend(b), Err(_) => { bad = true; } }
            }
            self.tx_done.push(TxObs { head, lens, anyw, wire, bad });
            let uslot = (self.tx_used as usize) & (n - 1);
            hal::dev_write_u32(self.tx.dev + 4 + 8 * uslot as u64, head as u32).unwrap();
            hal::dev_write_u32(self.tx.dev + 8 + 8 * uslot as u64, 0).unwrap();
            self.tx_used = self.tx_used.wrapping_add(1);
            hal::dev_write_u16(self.tx.dev + 2, self.tx_used).unwrap();
            self.tx_seen = self.tx_seen.wrapping_add(1);
        }
    }
    pub fn rx_fetch(&mut self) {
        let n = self.n;
        let aidx = hal::dev_read_u16(self.rx.drv + 2).unwrap();
        while self.rx_seen != aidx {
            let slot = (self.rx_seen as usize) & (n - 1);
            self.rx_posted.push(hal::dev_read_u16(self.rx.drv + 4 + 2 * slot as u64).unwrap());
            self.rx_seen = self.rx_seen.wrapping_add(1);
        }
    }
    /// identities of the posted buffers as the device sees them (one writable descriptor each)
    pub fn posted_ids(&mut self) -> Vec<u128> {
        self.rx_fetch();
        self.rx_posted.iter().map(|h| {
            let (el, bad) = walk_chain(&self.rx, *h);
            if bad || el.len() != 1 || !el[0].2 { return 88888; }
            match hal::share_at(el[0].0) { Some((_, len, _)) if len as u32 == el[0].1 => buf_id_at(el[0].0), _ => 88887 }
        }).collect()
    }
    /// complete posted entry `k` with hdr ++ frame (truncated to the buffer), used length = bytes written
    pub fn rx_inject(&mut self, inj: &RxInject) -> bool {
        self.rx_fetch();
        if self.rx_posted.is_empty() { return false; }
        let k = inj.which % self.rx_posted.len();
        let head = self.rx_posted.remove(k);
        let (el, bad) = walk_chain(&self.rx, head);
        let mut data = inj.hdr.clone(); data.extend(&inj.frame);
        let mut id = 99997u128;
        if !bad && el.len() == 1 && el[0].2 {
            let m = data.len().min(el[0].1 as usize);
            data.truncate(m);
            if hal::dev_write(el[0].0, &data).is_err() && !self.poisoned { hal::violate(format!("posted rx buffer of token {} not writable at {:#x}", head, el[0].0)); }
            id = buf_id_at(el[0].0);
        } else if !self.poisoned { hal::violate(format!("posted rx chain of token {} is not one writable descriptor", head)); }
        if inj.id_override.is_some() || inj.used_override.is_some() { self.poisoned = true; }
        let n = self.n;
        let used_len = inj.used_override.unwrap_or(data.len() as u32);
        let uslot = (self.rx_used as usize) & (n - 1);
        hal::dev_write_u32(self.rx.dev + 4 + 8 * uslot as u64, inj.id_override.unwrap_or(head as u32)).unwrap();
        hal::dev_write_u32(self.rx.dev + 8 + 8 * uslot as u64, used_len).unwrap();
        self.rx_used = self.rx_used.wrapping_add(1);
        hal::dev_write_u16(self.rx.dev + 2, self.rx_used).unwrap();
        self.rx_done.push(RxDone { token: head, id, written: data, used_len });
        true
    }
    fn run_rx_plan(&mut self) { let plan = std::mem::take(&mut self.rx_plan); for p in &plan { self.rx_inject(p); } }
}

fn nic_notify(q: u16) {
    NIC.with(|c| { if let Some(nic) = c.borrow_mut().as_mut() {
        if q == 1 && nic.tx_on_notify { nic.tx_service(); }
        if q == 0 && nic.rx_on_notify { nic.run_rx_plan(); }
    } });
}
fn nic_spin(site: u8) {
    let mut hopeless = false;
    NIC.with(|c| { if let Some(nic) = c.borrow_mut().as_mut() {
        nic.spins += 1;
        if site == 0 && nic.spins >= nic.tx_at_spin { nic.tx_service(); }
        if site == 1 && nic.spins >= nic.rx_at_spin { nic.run_rx_plan(); }
        if nic.spins > 3000 { nic.hopeless = true; hopeless = true; }
    } });
    if hopeless { panic!("busy-wait can never end"); }
}

/// observer installed into virtio_drivers::verif (queue stores are read back from device memory of CURQ)
fn observer(e: Event) {
    // while VirtIONet::new runs, the receive queue's address is learnt from the transport as soon as it is registered
    let late = LATE.with(|l| l.borrow().as_ref().map(|(st, n)| { let s = st.borrow();
        if s.queues[0].set { QAddr { desc: s.queues[0].desc, drv: s.queues[0].drv, dev: s.queues[0].dev, size: *n } } else { QAddr::default() } }));
    let q = late.unwrap_or_else(|| CURQ.with(|c| *c.borrow()));
    match e {
        Event::Store { what: 0, index, .. } => {
            let ev = match read_desc(&q, index as usize) {
                Some((addr, len, flags, next)) => Ev::StoreDesc { index, addr, len, flags, next },
                None => Ev::StoreDesc { index, addr: u64::MAX, len: 0, flags: 0, next: 0 } };
            hal::push(ev);
        }
        Event::Store { what, index, value } => {
            let mem = match what {
                1 => hal::dev_read_u16(q.drv + 4 + 2 * index as u64).ok().map(|v| v as u64),
                2 => hal::dev_read_u16(q.drv + 2).ok().map(|v| v as u64),
                3 => hal::dev_read_u16(q.drv).ok().map(|v| v as u64),
                4 => hal::dev_read_u16(q.drv + 4 + 2 * q.size as u64).ok().map(|v| v as u64),
                _ => Some(value) };
            hal::push(Ev::Store { what, index, val: if q.size == 0 { value } else { mem.unwrap_or(u64::MAX) } });
        }
        Event::Fence => hal::push(Ev::Fence),
        Event::Spin(site) => nic_spin(site),
    }
}

fn enc_nev(evs: &[Ev], head: u128) -> Vec<u128> {
    let mut o = vec![];
    for e in evs {
        match e {
            Ev::Share { vaddr, len, dir, paddr } => match BUFIDS.with(|b| b.borrow().get(vaddr).copied()) {
                Some(id) => o.extend([1, id as u128, *len as u128, (*dir == 1) as u128, *paddr as u128]),
                None => o.extend([2, head, (*len / 16) as u128, *paddr as u128]) },
            Ev::Unshare { paddr, vaddr, len, dir, .. } => match BUFIDS.with(|b| b.borrow().get(vaddr).copied()) {
                Some(id) => o.extend([3, *paddr as u128, id as u128, *len as u128, (*dir == 1) as u128]),
                None => o.extend([4, *paddr as u128, head, (*len / 16) as u128]) },
            Ev::StoreDesc { index, addr, len, flags, next } => o.extend([5, *index as u128, *addr as u128, *len as u128, *flags as u128, *next as u128]),
            Ev::Store { what: 1, index, val } => o.extend([6, *index as u128, *val as u128]),
            Ev::Fence => o.push(7),
            Ev::Store { what: 2, val, .. } => o.extend([8, *val as u128]),
            Ev::Store { what: 3, val, .. } => o.extend([9, *val as u128]),
            Ev::Store { what: 4, val, .. } => o.extend([10, *val as u128]),
            Ev::Notify(q) => o.extend([11, *q as u128]),
            _ => {}
        }
    }
    o
}
fn ring_token(evs: &[Ev]) -> Option<u16> { evs.iter().find_map(|e| if let Ev::Store { what: 1, val, .. } = e { Some(*val as u16) } else { None }) }
fn share_addr_of(evs: &[Ev], vaddr: usize) -> u64 { evs.iter().find_map(|e| if let Ev::Share { vaddr: v, paddr, .. } = e { if *v == vaddr { Some(*paddr) } else { None } } else { None }).unwrap_or(0) }
fn set_ids(v: usize, id: u64) { BUFIDS.with(|m| { m.borrow_mut().insert(v, id); }); }
fn del_ids(v: usize) { BUFIDS.with(|m| { m.borrow_mut().remove(&v); }); }
fn set_curq(q: QAddr) { CURQ.with(|c| *c.borrow_mut() = q); }
fn b128(v: &[u8]) -> Vec<u128> { v.iter().map(|x| *x as u128).collect() }
fn used_view(q: &QAddr, last_used: u16) -> (u16, u32, u32) {
    let ui = hal::dev_read_u16(q.dev + 2).unwrap();
    let slot = (last_used as usize) & (q.size - 1);
    (ui, hal::dev_read_u32(q.dev + 4 + 8 * slot as u64).unwrap(), hal::dev_read_u32(q.dev + 8 + 8 * slot as u64).unwrap())
}
fn supp(q: &QAddr) -> (u16, u16) { (hal::dev_read_u16(q.dev + 4 + 8 * q.size as u64).unwrap(), hal::dev_read_u16(q.dev).unwrap()) }
fn spec_hdr(neg: u64) -> usize { if neg & F_V1 != 0 || neg & (1 << 15) != 0 { 12 } else { 10 } }
fn pair_res(r: &std::thread::Result<Result<(usize, usize), Error>>) -> [u128; 3] {
    match r { Ok(Ok((a, b))) => [0, *a as u128, *b as u128], Ok(Err(e)) => [1, err_code(e), 0], Err(_) => [2, 0, 0] }
}
fn unit_res<T>(r: &std::thread::Result<Result<T, Error>>) -> [u128; 2] {
    match r { Ok(Ok(_)) => [0, 0], Ok(Err(e)) => [1, err_code(e)], Err(_) => [2, 0] }
}

fn mk_transport(features: u64, n: usize) -> (ModelTransport, Rc<RefCell<TState>>) {
    let mut ts = TState::new(DeviceType::Network, features, 2, n as u32);
    ts.config = vec![0x52, 0x54, 0, 0x12, 0x34, 0x56, 1, 0, 1, 0, 0xdc, 0x05];
    let (t, st) = ModelTransport::new(ts);
    st.borrow_mut().on_notify = Some(Box::new(|q, _s| nic_notify(q)));
    (t, st)
}
fn qaddrs(st: &Rc<RefCell<TState>>, n: usize) -> (QAddr, QAddr) {
    let s = st.borrow();
    let f = |i: usize| QAddr { desc: s.queues[i].desc, drv: s.queues[i].drv, dev: s.queues[i].dev, size: n };
    (f(0), f(1))
}
fn plan_tx(ctx: &mut Ctx) { let on = ctx.rng.chance(1, 2); let k = 1 + ctx.rng.below(4) as u32;
    NIC.with(|c| { let mut c = c.borrow_mut(); let nic = c.as_mut().unwrap(); nic.tx_on_notify = on; nic.tx_at_spin = k; nic.spins = 0; nic.hopeless = false; }); }
fn nic<R>(f: impl FnOnce(&mut Nic) -> R) -> R { NIC.with(|c| f(c.borrow_mut().as_mut().unwrap())) }

/// the device publishes new notification-suppression data for both queues
fn random_suppression(ctx: &mut Ctx, rx: &QAddr, tx: &QAddr) {
    for q in [rx, tx] {
        if ctx.rng.chance(1, 2) {
            let base = hal::dev_read_u16(q.drv + 2).unwrap();
            let ev = match ctx.rng.below(3) { 0 => base, 1 => base.wrapping_sub(1), _ => ctx.rng.boundary(16) as u16 };
            hal::dev_write_u16(q.dev + 4 + 8 * q.size as u64, ev).unwrap();
            hal::dev_write_u16(q.dev, ctx.rng.below(2) as u16).unwrap();
        }
    }
}
fn frame_len(ctx: &mut Ctx, max: usize) -> usize {
    let l = match ctx.rng.below(10) { 0 => 0, 1 => 1, 2 => max, 3 => max.saturating_sub(1), 4 => 1514.min(max), 5 => 60.min(max), 6 => ctx.rng.below(max as u64 + 1) as usize,
        _ => ctx.rng.below(48.min(max as u64) + 1) as usize };
    l.min(max)
}
fn rx_header(ctx: &mut Ctx, h: usize) -> Vec<u8> {
    // what a device writes: flags (DATA_VALID sometimes), gso NONE, ..., num_buffers = 1 when present
    let mut v = vec![0u8; h];
    v[0] = if ctx.rng.chance(1, 2) { 2 } else { 0 };
    if ctx.rng.chance(1, 4) { for b in v.iter_mut().skip(2) { *b = ctx.rng.next() as u8; } }
    if h == 12 { v[10] = 1; v[11] = 0; }
    v
}

/// transmit monitor (+ wire line for send) for a chain the NIC processed
fn tx_lines(ctx: &mut Ctx, neg: u64, obs: &TxObs, frame: &[u8], via_send: bool) {
    if via_send { ctx.tr.line(1609, &b128(frame), &b128(&obs.wire)); }
    let mut m = vec![neg as u128, obs.lens.len() as u128]; m.extend(obs.lens.iter().map(|l| *l as u128));
    m.push((obs.anyw || obs.bad) as u128); m.push(obs.wire.len() as u128); m.extend(b128(&obs.wire));
    m.push(frame.len() as u128); m.extend(b128(frame));
    ctx.tr.line(1650, &m, &[1]);
    ctx.tr.note(&format!("tx_frame_len_class_{}", match frame.len() { 0 => "0", 1..=59 => "small", 60..=1513 => "mid", 1514 => "1514", _ => "large" }));
}
/// everything the NIC has processed since the last call: chains of outstanding transmit_begin submissions are
/// validated and queued in used order; what is left (at most the chain of a blocking send) is returned
fn collect_tx(ctx: &mut Ctx, neg: u64, h: usize, tx_subs: &[Sub], tx_used_order: &mut VecDeque<u16>) -> Vec<TxObs> {
    let mut rest = vec![];
    for o in nic(|n| std::mem::take(&mut n.tx_done)) {
        match tx_subs.iter().find(|s| s.token == o.head && !tx_used_order.contains(&o.head)) {
            Some(s) => { tx_used_order.push_back(o.head); let frame = s.buf[h.min(s.buf.len())..].to_vec(); tx_lines(ctx, neg, &o, &frame, false); }
            None => rest.push(o),
        }
    }
    rest
}
fn rx_monitor(ctx: &mut Ctx, neg: u64, done: &RxDone, hdr_ret: usize, plen_ret: usize, packet: &[u8]) {
    let mut m = vec![neg as u128, done.used_len as u128, hdr_ret as u128, plen_ret as u128, done.written.len() as u128];
    m.extend(b128(&done.written)); m.push(packet.len() as u128); m.extend(b128(packet));
    ctx.tr.line(1651, &m, &[1]);
    ctx.tr.note(&format!("rx_frame_len_class_{}", match plen_ret { 0 => "0", 1..=59 => "small", 60..=1513 => "mid", 1514 => "1514", _ => "large" }));
}

// ------------------------------------------------------------------------------------------------
// raw driver
struct Sub { token: u16, buf: Box<[u8]>, id: u64 }

fn raw<const N: usize>(ctx: &mut Ctx, features: u64, nops: usize, risky: bool) {
    hal::reset();
    BUFIDS.with(|b| b.borrow_mut().clear());
    virtio_drivers::verif::set_observer(Some(observer));
    NIC.with(|c| *c.borrow_mut() = None);
    let (t, st) = mk_transport(features, N);
    let r = catch_unwind(AssertUnwindSafe(move || VirtIONetRaw::<LedgerHal, ModelTransport, N>::new(t)));
    let mut drv = match r { Ok(Ok(d)) => d, _ => { ctx.tr.note("raw_new_failed"); return; } };
    hal::take_log();
    let neg = st.borrow().driver_features;
    ctx.tr.line(1600, &[features as u128, N as u128], &[neg as u128]);
    ctx.tr.line(1658, &[features as u128, neg as u128], &[1]);
    let (rxq, txq) = qaddrs(&st, N);
    let ind = neg & F_IND != 0 && crate::scen::qrig::HAVE_INDIRECT;
    NIC.with(|c| *c.borrow_mut() = Some(Nic::new(rxq, txq, N, neg & F_EVT != 0)));
    let h = spec_hdr(neg);
    let mut next_id = 1u64;
    let mut rx_subs: Vec<Sub> = vec![]; let mut tx_subs: Vec<Sub> = vec![];
    let mut rx_pending: VecDeque<RxDone> = VecDeque::new();
    let mut tx_used_order: VecDeque<u16> = VecDeque::new();
    let (mut rx_last, mut tx_last) = (0u16, 0u16);
    let mut tx_inflight_descs = 0usize;
    let mut stop = false;
    for _ in 0..nops {
        if stop { break; }
        if ctx.rng.chance(1, 6) { random_suppression(ctx, &rxq, &txq); }
        let op = ctx.rng.below(100);
        if op < 6 {
            // fill_buffer_header on buffers around the header size
            let len = match ctx.rng.below(4) { 0 => h - 1, 1 => h, 2 => h + 1, _ => ctx.rng.below(24) as usize };
            let mut buf = vec![0xAAu8; len];
            let before = buf.clone();
            let r = { let d = &drv; let b = &mut buf[..]; catch_unwind(AssertUnwindSafe(move || d.fill_buffer_header(b))) };
            let mut o = enc_result(&r, |v| *v as u128).to_vec(); o.extend(b128(&buf));
            ctx.tr.line(1601, &b128(&before), &o);
            if let Ok(Ok(v)) = r { ctx.tr.line(1655, &[neg as u128, v as u128], &[1]); }
            ctx.tr.note("raw_fill_header");
        } else if op < 26 {
            // transmit_begin with a header-prefixed buffer
            let flen = frame_len(ctx, 1600);
            let total = match ctx.rng.below(8) { 0 => h - 1, 1 => ctx.rng.below(h as u64) as usize, _ => h + flen };
            let mut buf = ctx.rng.bytes(total).into_boxed_slice();
            if total >= h { let _ = drv.fill_buffer_header(&mut buf[..]); }
            let id = next_id; next_id += 1;
            set_ids(buf.as_ptr() as usize, id);
            set_curq(txq); plan_tx(ctx);
            let (ae, uf) = supp(&txq);
            let mark = hal::log_len();
            let r = { let d = &mut drv; let b: &[u8] = &buf; catch_unwind(AssertUnwindSafe(move || unsafe { d.transmit_begin(b) })) };
            let evs = hal::log_since(mark);
            let addr = share_addr_of(&evs, buf.as_ptr() as usize);
            let mut o = enc_result(&r, |v| *v as u128).to_vec(); o.extend(enc_nev(&evs, 0));
            ctx.tr.line(1602, &[id as u128, total as u128, addr as u128, ae as u128, uf as u128], &o);
            ctx.tr.note(match &r { Ok(Ok(_)) => "raw_tx_begin_ok", Ok(Err(_)) => "raw_tx_begin_refused", Err(_) => "raw_tx_begin_panic" });
            match r { Ok(Ok(tok)) => { tx_subs.push(Sub { token: tok, buf, id }); tx_inflight_descs += 1; collect_tx(ctx, neg, h, &tx_subs, &mut tx_used_order); }
                      _ => { del_ids(buf.as_ptr() as usize); if r.is_err() { stop = true; } } }
        } else if op < 36 {
            // the NIC serves the transmit queue
            nic(|n| n.tx_service());
            collect_tx(ctx, neg, h, &tx_subs, &mut tx_used_order);
        } else if op < 50 {
            // poll_transmit / transmit_complete
            let (ui, uid, ulen) = used_view(&txq, tx_last);
            let pt = drv.poll_transmit();
            ctx.tr.line(1603, &[ui as u128, uid as u128], &match pt { Some(v) => [1, v as u128], None => [0, 0] });
            if tx_subs.is_empty() { continue; }
            let right = tx_used_order.front().copied();
            let k = match (right, ctx.rng.below(10) < 8) { (Some(t), true) => tx_subs.iter().position(|s| s.token == t).unwrap_or(0), _ => ctx.rng.below(tx_subs.len() as u64) as usize };
            let tok = tx_subs[k].token;
            set_curq(txq);
            let mark = hal::log_len();
            let r = { let d = &mut drv; let b: &[u8] = &tx_subs[k].buf; catch_unwind(AssertUnwindSafe(move || unsafe { d.transmit_complete(tok, b) })) };
            let evs = hal::log_since(mark);
            let mut o = enc_result(&r, |v| *v as u128).to_vec(); o.extend(enc_nev(&evs, tok as u128));
            ctx.tr.line(1604, &[tok as u128, tx_subs[k].id as u128, tx_subs[k].buf.len() as u128, ui as u128, uid as u128, ulen as u128], &o);
            ctx.tr.line(1657, &[(right == Some(tok)) as u128, unit_res(&r)[0]], &[1]);
            ctx.tr.note(match &r { Ok(Ok(_)) => "raw_tx_complete_ok", Ok(Err(_)) => "raw_tx_complete_refused", Err(_) => "raw_tx_complete_panic" });
            if let Ok(Ok(_)) = r { let s = tx_subs.remove(k); del_ids(s.buf.as_ptr() as usize); tx_used_order.pop_front(); tx_last = tx_last.wrapping_add(1); tx_inflight_descs -= 1; }
            if r.is_err() { stop = true; }
        } else if op < 62 {
            // receive_begin with buffer lengths around MIN_BUFFER_LEN
            let len = match ctx.rng.below(8) { 0 => 1525, 1 => 1526, 2 => 1527, 3 => 2048, 4 => 100, _ => 1526 + ctx.rng.below(64) as usize };
            let mut buf = vec![0x55u8; len].into_boxed_slice();
            let id = next_id; next_id += 1;
            set_ids(buf.as_ptr() as usize, id);
            set_curq(rxq);
            let (ae, uf) = supp(&rxq);
            let mark = hal::log_len();
            let r = { let d = &mut drv; let b: &mut [u8] = &mut buf; catch_unwind(AssertUnwindSafe(move || unsafe { d.receive_begin(b) })) };
            let evs = hal::log_since(mark);
            let addr = share_addr_of(&evs, buf.as_ptr() as usize);
            let mut o = enc_result(&r, |v| *v as u128).to_vec(); o.extend(enc_nev(&evs, 0));
            ctx.tr.line(1605, &[id as u128, len as u128, addr as u128, ae as u128, uf as u128], &o);
            ctx.tr.note(match &r { Ok(Ok(_)) => "raw_rx_begin_ok", Ok(Err(_)) => "raw_rx_begin_refused", Err(_) => "raw_rx_begin_panic" });
            match r { Ok(Ok(tok)) => rx_subs.push(Sub { token: tok, buf, id }), _ => { del_ids(buf.as_ptr() as usize); if r.is_err() { stop = true; } } }
        } else if op < 74 {
            // the NIC delivers a burst of frames into posted buffers, in any order
            let posted = nic(|n| { n.rx_fetch(); n.rx_posted.len() });
            let burst = ctx.rng.below(posted as u64 + 1) as usize;
            for _ in 0..burst {
                let which = ctx.rng.below(64) as usize;
                let fl = frame_len(ctx, 1526 - h);
                let inj = RxInject { which, hdr: rx_header(ctx, h), frame: ctx.rng.bytes(fl), used_override: None, id_override: None };
                nic(|n| n.rx_inject(&inj));
            }
            for d in nic(|n| std::mem::take(&mut n.rx_done)) { rx_pending.push_back(d); }
            ctx.tr.note_n("raw_rx_injected", burst as u64);
        } else if op < 90 {
            // poll_receive / receive_complete
            let (ui, uid, ulen) = used_view(&rxq, rx_last);
            let pr = drv.poll_receive();
            ctx.tr.line(1606, &[ui as u128, uid as u128], &match pr { Some(v) => [1, v as u128], None => [0, 0] });
            if rx_subs.is_empty() { continue; }
            let right = rx_pending.front().map(|d| d.token);
            let k = match (right, ctx.rng.below(10) < 8) { (Some(t), true) => rx_subs.iter().position(|s| s.token == t).unwrap_or(0), _ => ctx.rng.below(rx_subs.len() as u64) as usize };
            let tok = rx_subs[k].token;
            set_curq(rxq);
            let mark = hal::log_len();
            let r = { let d = &mut drv; let b: &mut [u8] = &mut rx_subs[k].buf; catch_unwind(AssertUnwindSafe(move || unsafe { d.receive_complete(tok, b) })) };
            let evs = hal::log_since(mark);
            let mut o = pair_res(&r).to_vec(); o.extend(enc_nev(&evs, tok as u128));
            ctx.tr.line(1607, &[tok as u128, rx_subs[k].id as u128, rx_subs[k].buf.len() as u128, ui as u128, uid as u128, ulen as u128], &o);
            ctx.tr.line(1657, &[(right == Some(tok)) as u128, pair_res(&r)[0]], &[1]);
            ctx.tr.note(match &r { Ok(Ok(_)) => "raw_rx_complete_ok", Ok(Err(_)) => "raw_rx_complete_refused", Err(_) => "raw_rx_complete_panic" });
            if let Ok(Err(Error::IoError)) = r {   // popped, but the length was refused: the buffer is the caller's again
                let s = rx_subs.remove(k); del_ids(s.buf.as_ptr() as usize); rx_pending.pop_front(); rx_last = rx_last.wrapping_add(1); continue; }
            if let Ok(Ok((hl, pl))) = r {
                let s = rx_subs.remove(k); del_ids(s.buf.as_ptr() as usize);
                rx_last = rx_last.wrapping_add(1);
                let end = (hl + pl).min(s.buf.len());
                if let Some(d) = rx_pending.pop_front() { rx_monitor(ctx, neg, &d, hl, pl, &s.buf[hl.min(end)..end]); }
                ctx.tr.line(1655, &[neg as u128, hl as u128], &[1]);
            }
            if r.is_err() { stop = true; }
        } else if op < 96 {
            // blocking send; `risky`: also with other transmissions outstanding (may yield WrongToken)
            if !tx_subs.is_empty() && !(risky && ctx.rng.chance(1, 3)) { continue; }
            let fl = frame_len(ctx, 1600);
            let frame = ctx.rng.bytes(fl).into_boxed_slice();
            let fid = next_id; next_id += 1; let hid = next_id; next_id += 1;
            if fl > 0 { set_ids(frame.as_ptr() as usize, fid); }
            set_curq(txq); plan_tx(ctx);
            let (ae, uf) = supp(&txq);
            let mark = hal::log_len();
            let r = { let d = &mut drv; let f: &[u8] = &frame; catch_unwind(AssertUnwindSafe(move || d.send(f))) };
            let evs = hal::log_since(mark);
            let (hv, haddr) = evs.iter().find_map(|e| if let Ev::Share { vaddr, paddr, .. } = e { Some((*vaddr, *paddr)) } else { None }).unwrap_or((0, 0));
            if hv != 0 { set_ids(hv, hid); }
            let faddr = if fl > 0 { share_addr_of(&evs, frame.as_ptr() as usize) } else { 0 };
            let tok = ring_token(&evs);
            let taddr = evs.iter().find_map(|e| if let Ev::Share { vaddr, paddr, .. } = e { if *vaddr != hv && *vaddr != frame.as_ptr() as usize { Some(*paddr) } else { None } } else { None }).unwrap_or(0);
            let (ui, uid, ulen) = used_view(&txq, tx_last);
            let mut o = unit_res(&r).to_vec(); o.extend(enc_nev(&evs, tok.unwrap_or(0) as u128));
            ctx.tr.line(1608, &[hid as u128, haddr as u128, fid as u128, fl as u128, faddr as u128, taddr as u128, ae as u128, uf as u128, ui as u128, uid as u128, ulen as u128], &o);
            ctx.tr.note(match &r { Ok(Ok(_)) => "raw_send_ok", Ok(Err(Error::QueueFull)) => "raw_send_queuefull", Ok(Err(_)) => "raw_send_err", Err(_) => "raw_send_panic" });
            let rest = collect_tx(ctx, neg, h, &tx_subs, &mut tx_used_order);
            if let Some(t) = tok { if let Some(o) = rest.iter().rev().find(|o| o.head == t) { tx_lines(ctx, neg, o, &frame, true); } }
            if hv != 0 { del_ids(hv); } if fl > 0 { del_ids(frame.as_ptr() as usize); }
            match r { Ok(Ok(_)) => { tx_last = tx_last.wrapping_add(1); }
                      Ok(Err(Error::QueueFull)) => {}
                      _ => { stop = true; } }   // WrongToken: the chain with the dead header stays outstanding; end of this history
        } else {
            // readiness
            let cs = drv.can_send();
            ctx.tr.line(1611, &[], &[cs as u128]);
            let (ui, _, _) = used_view(&rxq, rx_last);
            let cr = drv.poll_receive().is_some();
            let infl = if ind { tx_subs.len() } else { tx_inflight_descs };
            ctx.tr.line(1653, &[cr as u128, ui as u128, rx_last as u128, cs as u128, N as u128, infl as u128, ind as u128], &[1]);
        }
    }
    // blocking receive on a driver with nothing else outstanding (or, risky, with something outstanding)
    if !stop && (rx_subs.is_empty() || risky) {
        for round in 0..3 {
            let len = 1526 + 8 * round;
            let mut buf = vec![0x55u8; len].into_boxed_slice();
            let id = next_id; next_id += 1;
            set_ids(buf.as_ptr() as usize, id);
            set_curq(rxq);
            let fl = frame_len(ctx, len - h);
            // the NIC completes the newest posted buffer (index = number posted before), or (risky) an older one first
            let posted = nic(|n| { n.rx_fetch(); n.rx_posted.len() });
            let which = if risky && posted > 0 && ctx.rng.chance(1, 2) { 0 } else { posted };
            let plan = vec![RxInject { which, hdr: rx_header(ctx, h), frame: ctx.rng.bytes(fl), used_override: None, id_override: None }];
            let on = ctx.rng.chance(1, 2); let k = 1 + ctx.rng.below(3) as u32;
            nic(|n| { n.rx_plan = plan; n.rx_on_notify = on; n.rx_at_spin = k; n.spins = 0; });
            let (ae, uf) = supp(&rxq);
            let mark = hal::log_len();
            let r = { let d = &mut drv; let b: &mut [u8] = &mut buf; catch_unwind(AssertUnwindSafe(move || d.receive_wait(b))) };
            let evs = hal::log_since(mark);
            let addr = share_addr_of(&evs, buf.as_ptr() as usize);
            let tok = ring_token(&evs);
            let (ui, uid, ulen) = used_view(&rxq, rx_last);
            let mut o = pair_res(&r).to_vec(); o.extend(enc_nev(&evs, tok.unwrap_or(0) as u128));
            ctx.tr.line(1610, &[id as u128, len as u128, addr as u128, ae as u128, uf as u128, ui as u128, uid as u128, ulen as u128], &o);
            ctx.tr.note(match &r { Ok(Ok(_)) => "raw_receive_wait_ok", Ok(Err(_)) => "raw_receive_wait_err", Err(_) => "raw_receive_wait_panic" });
            for d in nic(|n| std::mem::take(&mut n.rx_done)) { rx_pending.push_back(d); }
            match r {
                Ok(Ok((hl, pl))) => {
                    rx_last = rx_last.wrapping_add(1);
                    let end = (hl + pl).min(buf.len());
                    if let Some(d) = rx_pending.pop_front() { rx_monitor(ctx, neg, &d, hl, pl, &buf[hl.min(end)..end]); }
                    del_ids(buf.as_ptr() as usize);
                }
                _ => { if let Some(t) = tok { rx_subs.push(Sub { token: t, buf, id }); } break; }
            }
        }
    }
    drop(drv);
    virtio_drivers::verif::set_observer(None);
    NIC.with(|c| *c.borrow_mut() = None);
    ledger_line(ctx);
    drop(rx_subs); drop(tx_subs);
}

// ------------------------------------------------------------------------------------------------
// buffer-managing driver
#[cfg(feature = "alloc")]
fn rxbuf_id(b: &RxBuffer) -> u128 { BUFIDS.with(|m| m.borrow().get(&(b.as_bytes().as_ptr() as usize)).copied()).map(|x| x as u128).unwrap_or(77777) }

/// mode 0: conforming device; 1: short used lengths (IoError path); 2: tokens not posted / out of range
#[cfg(feature = "alloc")]
fn vnet<const N: usize>(ctx: &mut Ctx, features: u64, buf_len: usize, nops: usize, mode: u8) {
    hal::reset();
    BUFIDS.with(|b| b.borrow_mut().clear());
    virtio_drivers::verif::set_observer(Some(observer));
    NIC.with(|c| *c.borrow_mut() = None);
    let (t, st) = mk_transport(features, N);
    // during new the receive queue's address is not known beforehand: the observer learns it from the transport (LATE)
    let st2 = st.clone();
    LATE.with(|l| *l.borrow_mut() = Some((st2, N)));
    let r = catch_unwind(AssertUnwindSafe(move || VirtIONet::<LedgerHal, ModelTransport, N>::new(t, buf_len)));
    LATE.with(|l| *l.borrow_mut() = None);
    let evs = hal::take_log();
    let neg = st.borrow().driver_features;
    // env: one (addr, ae, uf) per buffer share, in order; identities = order of creation
    let mut env = vec![]; let mut k = 0u64;
    for e in &evs { if let Ev::Share { vaddr, paddr, .. } = e { set_ids(*vaddr, k); k += 1; env.extend([*paddr as u128, 0, 0]); } }
    let qevs: Vec<Ev> = evs.iter().filter(|e| matches!(e, Ev::Share { .. } | Ev::Unshare { .. } | Ev::StoreDesc { .. } | Ev::Store { what: 1..=4, .. } | Ev::Fence | Ev::Notify(_))).cloned().collect();
    let mut ins = vec![features as u128, N as u128, buf_len as u128]; ins.extend(env);
    let mut o = vec![neg as u128]; o.extend(unit_res(&r)); o.extend(enc_nev(&qevs, 0));
    ctx.tr.line(1620, &ins, &o);
    ctx.tr.line(1658, &[features as u128, neg as u128], &[1]);
    let mut drv = match r { Ok(Ok(d)) => d, Ok(Err(_)) => { ctx.tr.note("vnet_new_refused"); virtio_drivers::verif::set_observer(None); ledger_line(ctx); return; }
                            Err(_) => { ctx.tr.note("vnet_new_panic"); virtio_drivers::verif::set_observer(None); return; } };
    ctx.tr.note("vnet_new_ok");
    let (rxq, txq) = qaddrs(&st, N);
    let ind = neg & F_IND != 0;
    NIC.with(|c| *c.borrow_mut() = Some(Nic::new(rxq, txq, N, neg & F_EVT != 0)));
    let h = spec_hdr(neg);
    let blen = 8 * (buf_len / 8);
    let mut owned: Vec<RxBuffer> = vec![];
    let mut pending: VecDeque<RxDone> = VecDeque::new();
    let mut consumed = 0u16; let mut tx_last = 0u16;
    let mut next_id = 1000u64;
    let mut conforming = true;
    let mut stop = false;
    macro_rules! own_line { () => { if conforming {
        let posted = nic(|n| n.posted_ids());
        let mut m = vec![N as u128, posted.len() as u128]; m.extend(posted);
        m.push(pending.len() as u128); m.extend(pending.iter().map(|d| d.id));
        m.push(owned.len() as u128); m.extend(owned.iter().map(rxbuf_id));
        ctx.tr.line(1652, &m, &[1]);
    } } }
    own_line!();
    for step in 0..nops {
        if stop { break; }
        if ctx.rng.chance(1, 6) { random_suppression(ctx, &rxq, &txq); }
        let drain = step + 3 * N + 8 >= nops;     // towards the end: give everything back
        let op = if drain { if !owned.is_empty() { 50 } else if !pending.is_empty() { 30 } else { 95 } } else { ctx.rng.below(100) };
        if op < 25 {
            // burst of frames, any order
            let posted = nic(|n| { n.rx_fetch(); n.rx_posted.len() });
            let burst = if !conforming { 0 } else { match ctx.rng.below(4) { 0 => posted, 1 => 1.min(posted), _ => ctx.rng.below(posted as u64 + 1) as usize } };
            for _ in 0..burst {
                let which = ctx.rng.below(64) as usize;
                let fl = frame_len(ctx, blen - h);
                let mut inj = RxInject { which, hdr: rx_header(ctx, h), frame: ctx.rng.bytes(fl), used_override: None, id_override: None };
                if mode == 1 && ctx.rng.chance(1, 5) { inj.used_override = Some(ctx.rng.below(h as u64) as u32); conforming = false; }
                if mode == 2 && ctx.rng.chance(1, 5) { inj.id_override = Some(match ctx.rng.below(3) { 0 => N as u32, 1 => 0x10000 + ctx.rng.below(N as u64) as u32, _ => ctx.rng.below(N as u64) as u32 }); conforming = false; }
                nic(|n| n.rx_inject(&inj));
                if !conforming { break; }
            }
            for d in nic(|n| std::mem::take(&mut n.rx_done)) { pending.push_back(d); }
            ctx.tr.note_n("vnet_rx_injected", burst as u64);
        } else if op < 50 {
            // receive
            let (ui, uid, ulen) = used_view(&rxq, consumed);
            set_curq(rxq);
            let mark = hal::log_len();
            let r = { let d = &mut drv; catch_unwind(AssertUnwindSafe(move || d.receive())) };
            let evs = hal::log_since(mark);
            let mut o: Vec<u128> = match &r { Ok(Ok(b)) => vec![0, rxbuf_id(b), b.packet_len() as u128, b.as_bytes().len() as u128], Ok(Err(e)) => vec![1, err_code(e), 0, 0], Err(_) => vec![2, 0, 0, 0] };
            o.extend(enc_nev(&evs, (uid & 0xffff) as u128));
            ctx.tr.line(1621, &[ui as u128, uid as u128, ulen as u128], &o);
            if conforming {
                let (cl, code, idr) = match &r { Ok(Ok(b)) => (0u128, 0u128, rxbuf_id(b)), Ok(Err(e)) => (1, err_code(e), 0), Err(_) => (2, 0, 0) };
                ctx.tr.line(1656, &[(!pending.is_empty()) as u128, cl, code, idr, pending.front().map(|d| d.id).unwrap_or(0)], &[1]);
            }
            ctx.tr.note(match &r { Ok(Ok(_)) => "vnet_receive_ok", Ok(Err(Error::NotReady)) => "vnet_receive_notready", Ok(Err(_)) => "vnet_receive_err", Err(_) => "vnet_receive_panic" });
            match r {
                Ok(Ok(b)) => {
                    consumed = consumed.wrapping_add(1);
                    let d = pending.pop_front();
                    let pk = { let bb = &b; catch_unwind(AssertUnwindSafe(move || bb.packet().to_vec())) };
                    let mut pi = vec![b.packet_len() as u128]; pi.extend(b128(b.as_bytes()));
                    let po: Vec<u128> = match &pk { Ok(p) => { let mut v = vec![0u128]; v.extend(b128(p)); v } Err(_) => vec![2] };
                    if ctx.rng.chance(1, 3) || b.packet_len() + h >= blen { ctx.tr.line(1626, &pi, &po); }
                    if let (Some(d), Ok(p), true) = (d, &pk, conforming) {
                        let hdr_ret = b.packet().as_ptr() as usize - b.as_bytes().as_ptr() as usize;
                        rx_monitor(ctx, neg, &d, hdr_ret, b.packet_len(), p);
                        ctx.tr.line(1655, &[neg as u128, hdr_ret as u128], &[1]);
                    }
                    owned.push(b);
                }
                Ok(Err(Error::NotReady)) => {}
                Ok(Err(Error::WrongToken)) => { stop = true; }           // device named a token that is not posted: used ring stuck
                Ok(Err(_)) => { consumed = consumed.wrapping_add(1); pending.pop_front(); }   // IoError: popped, buffer dropped
                Err(_) => { stop = true; }
            }
        } else if op < 75 {
            // recycle a buffer the caller holds (any of them)
            if owned.is_empty() { continue; }
            let k = ctx.rng.below(owned.len() as u64) as usize;
            let b = owned.swap_remove(k);
            let (id, len, plen, va) = (rxbuf_id(&b), b.as_bytes().len(), b.packet_len(), b.as_bytes().as_ptr() as usize);
            set_curq(rxq);
            let (ae, uf) = supp(&rxq);
            let mark = hal::log_len();
            let r = { let d = &mut drv; catch_unwind(AssertUnwindSafe(move || d.recycle_rx_buffer(b))) };
            let evs = hal::log_since(mark);
            let addr = share_addr_of(&evs, va);
            let mut o = unit_res(&r).to_vec(); o.extend(enc_nev(&evs, 0));
            ctx.tr.line(1622, &[id, len as u128, plen as u128, addr as u128, ae as u128, uf as u128], &o);
            if conforming { ctx.tr.line(1654, &unit_res(&r), &[1]); }
            ctx.tr.note(match &r { Ok(Ok(_)) => "vnet_recycle_ok", Ok(Err(_)) => "vnet_recycle_err", Err(_) => "vnet_recycle_panic" });
            if !matches!(r, Ok(Ok(_))) { stop = true; }
        } else if op < 88 {
            // send
            let fl = frame_len(ctx, 1600);
            let frame = ctx.rng.bytes(fl);
            let txb = TxBuffer::from(&frame);
            let fva = txb.packet().as_ptr() as usize;
            let fid = next_id; next_id += 1; let hid = next_id; next_id += 1;
            if fl > 0 { set_ids(fva, fid); }
            set_curq(txq); plan_tx(ctx);
            let (ae, uf) = supp(&txq);
            let mark = hal::log_len();
            let r = { let d = &mut drv; catch_unwind(AssertUnwindSafe(move || d.send(txb))) };
            let evs = hal::log_since(mark);
            let (hv, haddr) = evs.iter().find_map(|e| if let Ev::Share { vaddr, paddr, .. } = e { Some((*vaddr, *paddr)) } else { None }).unwrap_or((0, 0));
            if hv != 0 { set_ids(hv, hid); }
            let faddr = if fl > 0 { share_addr_of(&evs, fva) } else { 0 };
            let tok = ring_token(&evs);
            let taddr = evs.iter().find_map(|e| if let Ev::Share { vaddr, paddr, .. } = e { if *vaddr != hv && *vaddr != fva { Some(*paddr) } else { None } } else { None }).unwrap_or(0);
            let (ui, uid, ulen) = used_view(&txq, tx_last);
            let mut o = unit_res(&r).to_vec(); o.extend(enc_nev(&evs, tok.unwrap_or(0) as u128));
            ctx.tr.line(1608, &[hid as u128, haddr as u128, fid as u128, fl as u128, faddr as u128, taddr as u128, ae as u128, uf as u128, ui as u128, uid as u128, ulen as u128], &o);
            ctx.tr.note(match &r { Ok(Ok(_)) => "vnet_send_ok", Ok(Err(Error::QueueFull)) => "vnet_send_queuefull", Ok(Err(_)) => "vnet_send_err", Err(_) => "vnet_send_panic" });
            let done = nic(|n| std::mem::take(&mut n.tx_done));
            if let Some(t) = tok { if let Some(o) = done.iter().rev().find(|o| o.head == t) { tx_lines(ctx, neg, o, &frame, true); } }
            if hv != 0 { del_ids(hv); } if fl > 0 { del_ids(fva); }
            match r { Ok(Ok(_)) => { tx_last = tx_last.wrapping_add(1); } Ok(Err(Error::QueueFull)) => {} _ => { stop = true; } }
        } else {
            // readiness queries
            let (ui, _, _) = used_view(&rxq, consumed);
            let cr = drv.can_recv(); let cs = drv.can_send();
            ctx.tr.line(1623, &[ui as u128], &[cr as u128]);
            ctx.tr.line(1611, &[], &[cs as u128]);
            ctx.tr.line(1653, &[cr as u128, ui as u128, consumed as u128, cs as u128, N as u128, 0, ind as u128], &[1]);
        }
        own_line!();
    }
    if conforming && !stop && owned.is_empty() && pending.is_empty() {
        // everything recycled: the device holds all N buffers again
        let posted = nic(|n| n.posted_ids());
        ctx.tr.note(if posted.len() == N { "vnet_fully_posted_at_end" } else { "vnet_not_fully_posted_at_end" });
    }
    drop(owned);
    drop(drv);
    virtio_drivers::verif::set_observer(None);
    NIC.with(|c| *c.borrow_mut() = None);
    ledger_line(ctx);
}

thread_local! { static LATE: RefCell<Option<(Rc<RefCell<TState>>, usize)>> = RefCell::new(None); }

fn raw_dyn(ctx: &mut Ctx, n: usize, features: u64, nops: usize, risky: bool) {
    match n { 1 => raw::<1>(ctx, features, nops, risky), 2 => raw::<2>(ctx, features, nops, risky), 4 => raw::<4>(ctx, features, nops, risky),
        8 => raw::<8>(ctx, features, nops, risky), 16 => raw::<16>(ctx, features, nops, risky), _ => raw::<64>(ctx, features, nops, risky) }
}
#[cfg(feature = "alloc")]
fn vnet_dyn(ctx: &mut Ctx, n: usize, features: u64, buf_len: usize, nops: usize, mode: u8) {
    match n { 1 => vnet::<1>(ctx, features, buf_len, nops, mode), 2 => vnet::<2>(ctx, features, buf_len, nops, mode), 4 => vnet::<4>(ctx, features, buf_len, nops, mode),
        8 => vnet::<8>(ctx, features, buf_len, nops, mode), 16 => vnet::<16>(ctx, features, buf_len, nops, mode), _ => vnet::<64>(ctx, features, buf_len, nops, mode) }
}

/// C04 at driver level: the buffered network driver re-posts receive buffers under whatever token the queue hands out; each
/// buffer must be unshared with its own range and the address its own share returned, whatever the order in which the caller
/// gives buffers back (ledger line of every history)
#[cfg(feature = "alloc")]
pub fn run_recycle(ctx: &mut Ctx) {
    for (i, feats) in [0u64, F_V1, F_V1 | F_IND, F_V1 | F_EVT].iter().enumerate() {
        for n in [4usize, 8] {
            ctx.tr.scenario(&format!("c04-vnet-recycle-{}-n{}", i, n));
            vnet_dyn(ctx, n, *feats, 1528, 80 + 10 * n, 0);
        }
    }
}

pub fn run(ctx: &mut Ctx) {
    let base = [0u64, F_V1, F_IND, F_V1 | F_IND, F_EVT, F_V1 | F_EVT, F_V1 | F_IND | F_EVT, F_IND | F_EVT];
    let reps = ctx.budget(8, 8);
    for rep in 0..reps {
        for (i, b) in base.iter().enumerate() {
            // offered but unsupported bits (MRG_RXBUF, CSUM, GSO, CTRL_VQ ...) must not change anything
            let junk = match (i as u64 + rep) % 3 { 0 => 0, 1 => 1 << 15, _ => ctx.rng.next() & !SUPPORTED & !(1 << 33) };
            let feats = *b | junk | if ctx.rng.chance(1, 4) { 1 << 33 } else { 0 };
            let n = [4usize, 8, 2, 16, 1, 4, 8, 64][(i + rep as usize) % 8];
            ctx.tr.scenario(&format!("c16-raw-r{}-f{:x}-n{}", rep, feats, n));
            raw_dyn(ctx, n, feats, 90, false);
            ctx.tr.scenario(&format!("c16-raw-risky-r{}-f{:x}-n{}", rep, feats, n));
            raw_dyn(ctx, if n == 1 { 2 } else { n }, feats, 60, true);
            let bl = [1528usize, 1535, 2048, 1536, 1528, 4096, 1600, 1528][(i + rep as usize) % 8];
            #[cfg(feature = "alloc")]
            { ctx.tr.scenario(&format!("c16-vnet-r{}-f{:x}-n{}-b{}", rep, feats, n, bl)); vnet_dyn(ctx, n, feats, bl, 60 + 6 * n.min(16), 0); }
        }
        // buffer lengths around MIN_BUFFER_LEN and its rounding
        // ... and beyond 2^16 (lengths are usize / u32 everywhere: a frame of 65536 bytes and more must come back whole)
        for bl in [0usize, 7, 1519, 1520, 1525, 1526, 1527, 1528, 1529, 65535, 65536, 65560, 70000] {
            #[cfg(feature = "alloc")]
            { ctx.tr.scenario(&format!("c16-vnet-buflen-r{}-b{}", rep, bl)); vnet_dyn(ctx, 4, if bl % 2 == 0 { F_V1 } else { 0 }, bl, 30, 0); }
        }
        // devices that break the protocol: the model must still predict every result
        for (i, b) in [0u64, F_V1, F_V1 | F_IND | F_EVT].iter().enumerate() {
            #[cfg(feature = "alloc")]
            { ctx.tr.scenario(&format!("c16-vnet-shortlen-r{}-{}", rep, i)); vnet_dyn(ctx, 4, *b, 1528, 60, 1); }
            #[cfg(feature = "alloc")]
            { ctx.tr.scenario(&format!("c16-vnet-badtoken-r{}-{}", rep, i)); vnet_dyn(ctx, 4, *b, 1528, 60, 2); }
        }
    }
}
