pub mod common;
pub mod c06;
pub mod qrig;
pub mod c05;
#[cfg(feature = "alloc")]
pub mod c05_drv;
#[cfg(feature = "alloc")]
pub mod c19;
pub mod c07;
#[cfg(feature = "alloc")]
pub mod c07_drv;
pub mod c10;
pub mod c12;
pub mod c11;
pub mod c11_hyp;
pub mod c14;
#[cfg(feature = "alloc")]
pub mod c15;
pub mod c13;
#[cfg(feature = "alloc")]
pub mod c13_input;
pub mod c16;
#[cfg(feature = "alloc")]
pub mod c18;
#[cfg(feature = "alloc")]
pub mod c17;
#[cfg(feature = "alloc")]
pub mod drivers9;
#[cfg(feature = "alloc")]
pub mod c09;
#[cfg(feature = "alloc")]
pub mod drivers;
#[cfg(feature = "alloc")]
pub mod c08;
#[cfg(feature = "alloc")]
pub mod c20_gpu;
pub mod c20_misc;
#[cfg(feature = "alloc")]
pub mod c20_snd;
use crate::Ctx;
/// The alloc-less build of the crate (`--no-default-features`): the queue core, blk, raw net, rng / rtc and the transports.
/// Every scenario of this build starts with a kind-3 line (trace.rs), which makes the runner replay it through
/// Model/QueueNoAlloc.v.
#[cfg(not(feature = "alloc"))]
pub fn run(prop: &str, ctx: &mut Ctx) -> bool {
    match prop {
        "C01" | "C02" | "C03" | "C04" => {
            let n = ctx.budget(72, 12); qrig::standard_histories(ctx, &format!("{}-noalloc", prop.to_lowercase()), n);
            qrig::noalloc_directed(ctx, &prop.to_lowercase());
            if prop == "C03" && ctx.tier_thorough {
                ctx.tr.scenario("c03-noalloc-soak-n4"); qrig::soak::<4>(ctx, 1, 70_000);
                ctx.tr.scenario("c03-noalloc-soak-n8-eventidx"); qrig::soak::<8>(ctx, 3, 70_000);
            }
            if prop == "C04" {
                c06::run_alloc_faults(ctx); c10::run_directed(ctx);
                for f in 0..4u8 { ctx.tr.scenario(&format!("c04-noalloc-anwp-refused-f{}", f)); qrig::anwp_refused::<4>(ctx, f); qrig::anwp_refused::<16>(ctx, f); }
            }
        }
        "C05" => c05::run(ctx),
        "C06" => c06::run(ctx),
        "C07" => c07::run(ctx),
        "C10" => c10::run(ctx),
        "C11" => c11::run(ctx),
        // C12 also for the x86-64 hypercall transport: HypCam over CAM bases that are not aligned to the window, the probing of HypPciTransport::new
        "C12" => { c12::run(ctx); c11_hyp::run_c12(ctx); }
        "C13" => { c13::run(ctx); c13::run_hyp(ctx); }
        "C14" => c14::run(ctx),
        "C16" => c16::run(ctx),
        "C20" => c20_misc::run(ctx),
        _ => return false,
    }
    true
}
#[cfg(feature = "alloc")]
pub fn run(prop: &str, ctx: &mut Ctx) -> bool {
    match prop {
        // C06 also at register level: what the MMIO transport programs into the device for a queue that is created, torn down
        // and created again (stale address halves)
        "C06" => { c06::run(ctx); c10::run_directed(ctx); }
        "C05" => { c05::run(ctx); c05_drv::run(ctx); }
        // C19 also covers the sound notification queue and the socket receive path (bytes delivered = bytes the packet holds)
        "C19" => { c19::run(ctx); c20_snd::run_notifications(ctx); c17::run_read_header(ctx); }
        "C07" => { c07::run(ctx); c13::run_device_chosen(ctx); c13_input::run_device_chosen(ctx); c07_drv::run(ctx); }
        "C10" => c10::run(ctx),
        // C12 also for the x86-64 hypercall transport: HypCam over CAM bases that are not aligned to the window, the probing of HypPciTransport::new
        "C12" => { c12::run(ctx); c11_hyp::run_c12(ctx); }
        // C11 "every later operation accesses only those windows" includes device-configuration accesses (C13 bounds on PCI)
        "C11" => { c11::run(ctx); c11::run_hyp(ctx); c13::run_device_chosen(ctx); }
        "C01" | "C02" | "C03" | "C04" => {
            let n = ctx.budget(72, 12); qrig::standard_histories(ctx, &prop.to_lowercase(), n);
            if prop == "C03" && ctx.tier_thorough {
                ctx.tr.scenario("c03-soak-n4-direct"); qrig::soak::<4>(ctx, 0, 70_000);
                ctx.tr.scenario("c03-soak-n8-indirect-eventidx"); qrig::soak::<8>(ctx, 3, 70_000);
            }
            // C04 at driver level: a driver that keeps several requests outstanding under tokens (sound PCM)
            // C01 at driver level: every queue a driver creates gets exactly the negotiated ring features (an indirect table only
            // if RING_INDIRECT_DESC was negotiated for THAT queue)
            if prop == "C01" { c08::run_ring_features(ctx); }
            if prop == "C04" {
                c20_snd::run_nb(ctx); c06::run_alloc_faults(ctx); c10::run_directed(ctx); c16::run_recycle(ctx);
                for f in 0..4u8 { ctx.tr.scenario(&format!("c04-anwp-refused-f{}", f)); qrig::anwp_refused::<4>(ctx, f); qrig::anwp_refused::<16>(ctx, f); }
            }
        }
        "C14" => c14::run(ctx),
        "C15" => c15::run(ctx),
        // C13 also over the x86-64 hypercall transport: bounds (run_config) and the multi-field reads (run_hyp)
        "C13" => { c13::run(ctx); c11_hyp::run_config(ctx); c13::run_hyp(ctx); c13_input::run(ctx); }
        "C16" => c16::run(ctx),
        "C18" => c18::run(ctx),
        "C17" => { c17::run(ctx); c18::run_multi(ctx); }
        "C09" => { c09::run(ctx); c20_gpu::run_backing(ctx); c20_snd::run_xfer(ctx); c10::run_directed(ctx); }
        "C08" => { c08::run(ctx); c05::run_modes(ctx); }
        "C20" => { c20_gpu::run(ctx); c20_misc::run(ctx); c20_snd::run(ctx); }
        _ => return false,
    }
    true
}
