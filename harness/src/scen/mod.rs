pub mod common;
pub mod c06;
use crate::Ctx;
pub fn run(prop: &str, ctx: &mut Ctx) -> bool {
    match prop {
        "C06" => c06::run(ctx),
        _ => return false,
    }
    true
}
