//! C05: notification suppression in both directions.
//!  (a) should_notify() against the specification predicate on directed (old, new, event) triples,
//!      with the 16-bit indices pre-set next to 0, 2^15 and 2^16-1 and batches of 1..size entries;
//!  (b) co-simulation of add_notify_wait_pop with three device servicing policies through the
//!      busy-wait hook: a wait that can never end is a lost wake-up.
use crate::hal::{self, Ev};
use crate::scen::common::*;
use crate::scen::qrig::*;
use crate::Ctx;
use std::panic::{catch_unwind, AssertUnwindSafe};

fn reset_indices<const N: usize>(rig: &mut Rig<N>, ctx: &mut Ctx, v: u16) {
    set_indices(&mut rig.q, v);
    hal::dev_write_u16(rig.a.dev + 2, v).unwrap();
    rig.avail_idx = v; rig.last_used = v; rig.dev_used_idx = v;
    // the store-level monitor counts entries from the (new) starting index
    C02.with(|c| if let Some(st) = c.borrow_mut().as_mut() { st.start = v; st.next_seq = 0; st.cursor_seq = 0; st.entries.clear(); st.inprogress = None; });
    ctx.tr.line(101, &[v as u128], &[]);
}

fn drain<const N: usize>(rig: &mut Rig<N>, ctx: &mut Ctx) {
    while !rig.subs.is_empty() {
        let cands: Vec<usize> = (0..rig.subs.len()).filter(|k| !rig.subs[*k].completed).collect();
        if !cands.is_empty() { let k = cands[0]; rig.device_complete(ctx, k, None, None); }
        if let Some(tok) = rig.used_order.first().copied() {
            let k = rig.subs.iter().position(|s| s.token == tok).unwrap();
            if !rig.pop(ctx, k, tok) { break; }
        } else { break; }
    }
}

fn directed<const N: usize>(ctx: &mut Ctx, flags: u8, cases: u64) {
    // needs the index pre-set hook (absent in an alloc-less build of /repo without corpus/proposals/noalloc_hook.diff)
    if !HAVE_HOOKS { ctx.tr.note("directed_skipped_no_index_hook"); return; }
    let event_idx = flags & 2 != 0;
    let mut rig = match Rig::<N>::new(ctx, flags & 1 != 0, event_idx, false, 0) { Some(r) => r, None => return };
    for _ in 0..cases {
        let old: u16 = match ctx.rng.below(5) { 0 => ctx.rng.below(40) as u16, 1 => 65535 - ctx.rng.below(40) as u16,
            2 => 32768u16.wrapping_add(ctx.rng.below(80) as u16).wrapping_sub(40), 3 => ctx.rng.next() as u16, _ => 65536u32.wrapping_sub(ctx.rng.below(N as u64 + 2) as u32) as u16 };
        let batch = match ctx.rng.below(4) { 0 => 1, 1 => N.min(1 + ctx.rng.below(4) as usize), 2 => N, _ => 1 + ctx.rng.below(N as u64) as usize };
        let batch = batch.min(24).max(1).min(N);
        reset_indices(&mut rig, ctx, old);
        let mut added = 0u16;
        for _ in 0..batch { if rig.add(ctx, &[8], &[]).is_some() { added += 1; } }
        let new = old.wrapping_add(added);
        // the device's event index: around the window [old, new), and anything else
        let ev: u16 = match ctx.rng.below(4) { 0 => old.wrapping_add(ctx.rng.below(added as u64 + 4) as u16).wrapping_sub(2),
            1 => new.wrapping_sub(1), 2 => old, _ => ctx.rng.boundary(16) as u16 };
        let uflags = ctx.rng.below(4) as u16;
        hal::dev_write_u16(rig.a.dev + 4 + 8 * N as u64, ev).unwrap();
        hal::dev_write_u16(rig.a.dev, uflags).unwrap();
        let obs = rig.q.should_notify();
        ctx.tr.line(130, &[ev as u128, uflags as u128], &[obs as u128]);
        ctx.tr.line(155, &[event_idx as u128, new as u128, old as u128, ev as u128, uflags as u128, obs as u128, N as u128], &[1]);
        if new < old { ctx.tr.note("window_crosses_wrap"); }
        ctx.tr.note(if event_idx { "notify_case_event_idx" } else { "notify_case_flag" });
        drain(&mut rig, ctx);
        // used_event re-arm: after the pops the device-visible used_event equals the next used index
        if event_idx {
            let ue = hal::dev_read_u16(rig.a.drv + 4 + 2 * N as u64).unwrap();
            ctx.tr.line(157, &[ue as u128, rig.last_used as u128], &[1]);
        }
    }
    rig.finish(ctx);
}

fn cosim<const N: usize>(ctx: &mut Ctx, flags: u8, start: u16, policy: Policy, rounds: usize) {
    let start = eff_start(start);
    let event_idx = flags & 2 != 0;
    let mut rig = match Rig::<N>::new(ctx, flags & 1 != 0, event_idx, false, start) { Some(r) => r, None => return };
    // submissions go through add_notify_wait_pop here, not through the rig: the store-level monitor is off
    C02.with(|c| *c.borrow_mut() = None);
    let mut dev = GenDev { a: rig.a, seen: start, used: start, event_idx, served: 0 };
    dev.service();
    // a polling device suppresses notifications; a notify-driven one asks for them
    let suppress = matches!(policy, Policy::Poll(_));
    COSIM.with(|c| *c.borrow_mut() = Some(CoSim { dev, policy, spins: 0, notified: 0, gave_up: false }));
    rig.st.borrow_mut().on_notify = Some(Box::new(|_q, _s| cosim_notify()));
    for _ in 0..rounds {
        if !event_idx { hal::dev_write_u16(rig.a.dev, suppress as u16).unwrap(); }
        else if suppress { // stale event index far away: "do not tell me"
            let far = rig.avail_idx.wrapping_add(0x4000); hal::dev_write_u16(rig.a.dev + 4 + 8 * N as u64, far).unwrap(); }
        let ev = hal::dev_read_u16(rig.a.dev + 4 + 8 * N as u64).unwrap();
        let uf = hal::dev_read_u16(rig.a.dev).unwrap();
        let old = rig.avail_idx;
        COSIM.with(|c| { let mut c = c.borrow_mut(); let cs = c.as_mut().unwrap(); cs.spins = 0; cs.notified = 0; cs.gave_up = false; });
        let inb = ctx.rng.bytes(16).into_boxed_slice(); let mut outb = vec![0u8; 16].into_boxed_slice();
        BUFIDS.with(|m| { let mut m = m.borrow_mut(); m.insert(inb.as_ptr() as usize, rig.next_id); m.insert(outb.as_ptr() as usize, rig.next_id + 1); });
        let (id_in, id_out) = (rig.next_id, rig.next_id + 1); rig.next_id += 2;
        let mark = hal::log_len();
        let r = { let q = &mut rig.q; let t = &mut rig.t; let i: &[u8] = &inb; let o: &mut [u8] = &mut outb;
            catch_unwind(AssertUnwindSafe(move || { let ins = [i]; let mut outs = [o]; q.add_notify_wait_pop(&ins, &mut outs, t) })) };
        let evs = hal::log_since(mark);
        let (spins, notified, gave_up) = COSIM.with(|c| { let c = c.borrow(); let cs = c.as_ref().unwrap(); (cs.spins, cs.notified, cs.gave_up) });
        // reconstruct the add / should_notify / pop lines for the model
        let split = evs.iter().position(|e| matches!(e, Ev::Store { what: 2, .. })).map(|p| p + 1).unwrap_or(evs.len());
        let (add_evs, rest) = evs.split_at(split);
        let mut addrs = [0u64; 2];
        for e in add_evs { if let Ev::Share { vaddr, paddr, .. } = e { if *vaddr == inb.as_ptr() as usize { addrs[0] = *paddr; } else if *vaddr == outb.as_ptr() as usize { addrs[1] = *paddr; } } }
        let tok = add_evs.iter().find_map(|e| if let Ev::Store { what: 1, val, .. } = e { Some(*val as u128) } else { None }).unwrap_or(0);
        let taddr = add_evs.iter().find_map(|e| if let Ev::Share { vaddr, paddr, .. } = e { if *vaddr != inb.as_ptr() as usize && *vaddr != outb.as_ptr() as usize { Some(*paddr) } else { None } } else { None }).unwrap_or(0);
        let mut o = vec![0u128, tok]; o.extend(enc_qevents(add_evs, tok).into_iter());
        ctx.tr.line(110, &[taddr as u128, 1, 1, id_in as u128, 16, addrs[0] as u128, id_out as u128, 16, addrs[1] as u128], &o);
        let did_notify = rest.iter().any(|e| matches!(e, Ev::Notify(_)));
        ctx.tr.line(130, &[ev as u128, uf as u128], &[did_notify as u128]);
        let class = match &r { Ok(Ok(_)) => 0u128, Ok(Err(_)) => 1, Err(_) => 2 };
        if class == 0 {
            let (ui, uid, ulen) = rig.used_view();
            let mut po = enc_result(&r, |v| *v as u128).to_vec();
            let pop_evs: Vec<Ev> = rest.iter().filter(|e| !matches!(e, Ev::Notify(_))).cloned().collect();
            po.extend(enc_qevents(&pop_evs, tok));
            ctx.tr.line(120, &[tok, ui as u128, uid as u128, ulen as u128, 1, 1, id_in as u128, 16, id_out as u128, 16], &po);
            rig.avail_idx = rig.avail_idx.wrapping_add(1); rig.last_used = rig.last_used.wrapping_add(1); rig.dev_used_idx = rig.dev_used_idx.wrapping_add(1);
        }
        let pol = match policy { Policy::OnNotify => 0u128, Policy::Poll(_) => 1, Policy::Late(_) => 2 };
        ctx.tr.line(156, &[event_idx as u128, ev as u128, uf as u128, old as u128, old.wrapping_add(1) as u128, notified as u128,
                           gave_up as u128, class, pol, spins as u128], &[1]);
        ctx.tr.note(&format!("cosim_policy_{}", pol));
        BUFIDS.with(|m| { let mut m = m.borrow_mut(); m.remove(&(inb.as_ptr() as usize)); m.remove(&(outb.as_ptr() as usize)); });
        if class != 0 { break; }
    }
    rig.st.borrow_mut().on_notify = None;
    COSIM.with(|c| *c.borrow_mut() = None);
    rig.finish(ctx);
}

/// C08: the notification decision follows the mode that was negotiated for the queue (suppression flag without
/// RING_EVENT_IDX, whatever the event-index field holds; the event index with it), monitor 155
pub fn run_modes(ctx: &mut Ctx) {
    let per = ctx.budget(300, 10);
    for flags in [0u8, 1, 2, 3] { ctx.tr.scenario(&format!("c08-notify-mode-n4-f{}", flags)); directed::<4>(ctx, flags, per); }
}

pub fn run(ctx: &mut Ctx) {
    let per = ctx.budget(1500, 40);
    for (i, flags) in [2u8, 3, 0, 1].iter().enumerate() {
        ctx.tr.scenario(&format!("c05-directed-n4-f{}", flags)); directed::<4>(ctx, *flags, per);
        ctx.tr.scenario(&format!("c05-directed-n64-f{}", flags)); directed::<64>(ctx, *flags, per / 4);
        if i < 2 { ctx.tr.scenario(&format!("c05-directed-n1024-f{}", flags)); directed::<1024>(ctx, *flags, per / 8); }
    }
    // pipelined histories with event-idx: several requests in flight when completions are consumed
    let nh = ctx.budget(16, 8);
    for h in 0..nh {
        let size = [2usize, 4, 8, 16, 64][(h % 5) as usize];
        let flags = if h % 2 == 0 { 2 } else { 3 };
        let start = match h % 3 { 0 => 0u16, 1 => 65535 - (h as u16 % 5), _ => ctx.rng.next() as u16 };
        ctx.tr.scenario(&format!("c05-pipelined-h{}-n{}-f{}-s{}", h, size, flags, start));
        history_dyn(ctx, size, flags, start, 120, 32);
    }
    let rounds = ctx.budget(12, 4) as usize;
    for flags in [0u8, 2, 3] {
        for start in [0u16, 65533, 65534, 65535, 32766] {
            for policy in [Policy::OnNotify, Policy::Poll(3), Policy::Late(40)] {
                // a "late" device is a polling device that takes its time
                ctx.tr.scenario(&format!("c05-cosim-f{}-s{}-{:?}", flags, start, policy));
                cosim::<8>(ctx, flags, start, policy, rounds);
            }
        }
    }
}
