//! C19: queues the driver keeps stocked with its own buffers: OwningQueue (new / poll) in lock-step with
//! the Coq model, and VirtIOInput::pop_pending_event against a reference device completing posted
//! buffers in PRNG order, in bursts, with every written length.
use crate::hal::{self, Ev, LedgerHal};
use crate::scen::common::*;
use crate::scen::qrig::*;
use crate::tport::{ModelTransport, TState};
use crate::Ctx;
use std::cell::RefCell;
use std::panic::{catch_unwind, AssertUnwindSafe};
use std::rc::Rc;
use virtio_drivers::device::input::VirtIOInput;
use virtio_drivers::queue::{OwningQueue, VirtQueue};
use virtio_drivers::transport::DeviceType;

/// reference device for stocked queues: fetches available heads in order, completes them in any order
pub struct ODev { pub a: QAddr, pub seen: u16, pub used: u16, pub fetched: Vec<u16> }
impl ODev {
    pub fn fetch(&mut self) {
        let n = self.a.size;
        let aidx = hal::dev_read_u16(self.a.drv + 2).unwrap();
        while self.seen != aidx {
            let slot = (self.seen as usize) & (n - 1);
            self.fetched.push(hal::dev_read_u16(self.a.drv + 4 + 2 * slot as u64).unwrap());
            self.seen = self.seen.wrapping_add(1);
        }
    }
    /// complete fetched entry k writing `data` into the (single, direct) buffer and claiming `len` bytes
    pub fn complete(&mut self, k: usize, data: &[u8], len: u32) -> u16 {
        let n = self.a.size;
        let head = self.fetched.remove(k);
        if let Some((addr, dlen, _flags, _)) = read_desc(&self.a, head as usize % n) {
            let m = data.len().min(dlen as usize);
            if hal::dev_write(addr, &data[..m]).is_err() { hal::violate(format!("posted buffer of token {} not device-writable at {:#x}", head, addr)); }
        }
        let uslot = (self.used as usize) & (n - 1);
        hal::dev_write_u32(self.a.dev + 4 + 8 * uslot as u64, head as u32).unwrap();
        hal::dev_write_u32(self.a.dev + 8 + 8 * uslot as u64, len).unwrap();
        self.used = self.used.wrapping_add(1);
        hal::dev_write_u16(self.a.dev + 2, self.used).unwrap();
        head
    }
    pub fn posted(&self) -> u16 { hal::dev_read_u16(self.a.drv + 2).unwrap().wrapping_sub(self.used) }
}

fn owning<const N: usize, const B: usize>(ctx: &mut Ctx, flags: u8, nevents: usize, oversize: bool, start: u16) {
    hal::reset();
    BUFIDS.with(|b| b.borrow_mut().clear());
    virtio_drivers::verif::set_observer(Some(observer));
    let (indirect, event_idx) = (flags & 1 != 0, flags & 2 != 0);
    let (mut t, st) = ModelTransport::new(TState::new(DeviceType::Input, 0, 2, N as u32));
    // bit 2 of `flags`: VIRTIO_F_ACCESS_PLATFORM negotiated for the queue (the platform ledger requires every unshare / dealloc to
    // carry the same flag as the share / alloc)
    let mut q = match VirtQueue::<LedgerHal, N>::new(&mut t, 0, indirect, event_idx, flags & 4 != 0) { Ok(q) => q, Err(_) => return };
    let qi = st.borrow().queues[0];
    let a = QAddr { desc: qi.desc, drv: qi.drv, dev: qi.dev, size: N };
    CURQ.with(|c| *c.borrow_mut() = a);
    // start the free-running 16-bit indices next to the wrap-around (hook; the device starts there too)
    if start != 0 { q.verif_set_indices(start); hal::dev_write_u16(a.dev + 2, start).unwrap(); }
    hal::take_log();
    let r = catch_unwind(AssertUnwindSafe(move || OwningQueue::<LedgerHal, N, B>::new(q)));
    let evs = hal::take_log();
    let mut addrs = vec![];
    for e in &evs { if let Ev::Share { vaddr, paddr, .. } = e { let id = addrs.len() as u64; BUFIDS.with(|m| m.borrow_mut().insert(*vaddr, id)); addrs.push(*paddr as u128); } }
    let mut ins = vec![N as u128, indirect as u128, event_idx as u128, B as u128, start as u128]; ins.extend(addrs.iter().cloned());
    let mut outs: Vec<u128> = match &r { Ok(Ok(_)) => vec![0, 0], Ok(Err(e)) => vec![1, err_code(e)], Err(_) => vec![2, 0] };
    outs.extend(enc_qevents(&evs, 0));
    ctx.tr.line(1900, &ins, &outs);
    let mut oq = match r { Ok(Ok(q)) => q, _ => return };
    let mut dev = ODev { a, seen: start, used: start, fetched: vec![] };
    let mut expect: Vec<(u16, u32, Vec<u8>)> = vec![];   // (token, claimed len, bytes written) in used order
    let mut last_used: u16 = start;
    let mut done = 0;
    let mut idle_rounds = 0;
    while done < nevents && idle_rounds < 64 {
        let done_before = done;
        // device: a burst of completions in PRNG order
        dev.fetch();
        let burst = ctx.rng.below(N as u64 + 1) as usize;
        for _ in 0..burst {
            if dev.fetched.is_empty() { break; }
            let k = ctx.rng.below(dev.fetched.len() as u64) as usize;
            let len = match ctx.rng.below(6) { 0 => 0, 1 => B, 2 => 1, _ => ctx.rng.below(B as u64 + 1) as usize };
            let data = ctx.rng.bytes(B);
            let claimed = if oversize && ctx.rng.chance(1, 6) { (B + 1 + ctx.rng.below(3) as usize) as u32 } else { len as u32 };
            let tok = dev.complete(k, &data, claimed);
            expect.push((tok, claimed, data));
        }
        if ctx.rng.chance(1, 5) { // suppression data changes
            hal::dev_write_u16(a.dev + 4 + 8 * N as u64, ctx.rng.boundary(16) as u16).unwrap();
            hal::dev_write_u16(a.dev, ctx.rng.below(2) as u16).unwrap();
        }
        // driver: poll a few times (sometimes more often than there are events)
        let polls = 1 + ctx.rng.below(N as u64 + 1) as usize;
        for _ in 0..polls {
            let ui = hal::dev_read_u16(a.dev + 2).unwrap();
            let slot = (last_used as usize) & (N - 1);
            let uid = hal::dev_read_u32(a.dev + 4 + 8 * slot as u64).unwrap();
            let ulen = hal::dev_read_u32(a.dev + 8 + 8 * slot as u64).unwrap();
            let ae = hal::dev_read_u16(a.dev + 4 + 8 * N as u64).unwrap();
            let uf = hal::dev_read_u16(a.dev).unwrap();
            let mark = hal::log_len();
            // what the caller's handler answers: mostly Ok(Some), sometimes Ok(None) or an error
            let hres: u128 = match ctx.rng.below(8) { 0 => 1, 1 => 2, _ => 0 };
            let r = { let oq = &mut oq; let t = &mut t; catch_unwind(AssertUnwindSafe(move || oq.poll(t, |b| match hres {
                0 => Ok(Some(b.to_vec())), 1 => Ok(None), _ => Err(virtio_drivers::Error::IoError) }))) };
            let evs = hal::log_since(mark);
            let addr = evs.iter().find_map(|e| if let Ev::Share { paddr, .. } = e { Some(*paddr) } else { None }).unwrap_or(0);
            let tok = (uid & 0xffff) as u128;
            let (class, has, len) = match &r { Ok(Ok(Some(v))) => (0u128, 1u128, v.len() as u128), Ok(Ok(None)) => (0, 0, 0), Ok(Err(e)) => (1, 0, err_code(e)), Err(_) => (2, 0, 0) };
            let mut o = match &r { Ok(Ok(Some(v))) => vec![0, 1, v.len() as u128, tok], Ok(Ok(None)) => vec![0, 0, 0, 0], Ok(Err(e)) => vec![1, err_code(e), 0, 0], Err(_) => vec![2, 0, 0, 0] };
            o.extend(enc_qevents(&evs, tok));
            ctx.tr.line(1901, &[B as u128, ui as u128, uid as u128, ulen as u128, addr as u128, ae as u128, uf as u128, hres], &o);
            // monitor on the implementation's behaviour
            let pending = !expect.is_empty();
            let (exp_tok, exp_len, bytes_ok) = if has == 1 && pending {
                let (t0, l0, d0) = &expect[0];
                let ok = if let Ok(Ok(Some(v))) = &r { (*l0 as usize) <= B && v[..] == d0[..(*l0 as usize).min(B)] } else { false };
                (*t0 as u128, *l0 as u128, ok as u128)
            } else if pending { (expect[0].0 as u128, expect[0].1 as u128, 0) } else { (0, 0, 0) };
            dev.fetch();
            // a completion was consumed iff something was pending and its id names a buffer of the queue
            let consumed = ui != last_used && ((uid & 0xffff) as usize) < N && class != 2;
            // buffers the device still holds + completions the driver has not consumed yet
            let pending_after = expect.len() as u128 - if consumed { 1 } else { 0 };
            ctx.tr.line(1950, &[N as u128, B as u128, dev.posted() as u128 + pending_after, class, has, len, tok, exp_tok, bytes_ok, if pending { exp_len } else { 0 }, hres, pending as u128], &[1]);
            if consumed { expect.remove(0); last_used = last_used.wrapping_add(1); done += 1; }
            match class {
                0 if has == 1 => ctx.tr.note("owning_delivered"),
                0 if consumed => ctx.tr.note("owning_handler_none"),
                0 => ctx.tr.note("owning_poll_empty"),
                1 => ctx.tr.note("owning_poll_error"),
                _ => { ctx.tr.note("owning_poll_panic"); done = nevents; break; }
            }
        }
        // a queue that has run dry (buffers lost) makes no progress: stop instead of waiting for ever
        if done == done_before { idle_rounds += 1; } else { idle_rounds = 0; }
    }
    drop(oq); drop(t);
    virtio_drivers::verif::set_observer(None);
    ledger_line(ctx);
}

// ------------------------------------------------------------------------------------------------
// VirtIOInput: the driver posts and re-posts its 32 event buffers by hand (no OwningQueue). Every `new`, every
// pop_pending_event and every query_config_select is one trace line for Model/Input.v (kinds 1960..1962, decoded by
// Extract/InputIO.v) plus one monitor line (1971 / 1970) stating what the implementation was seen to do.
thread_local! {
    /// while VirtIOInput::new runs: the transport state (the event queue's address is learnt from it as soon as the queue is
    /// registered) and the suppression words (used flags, avail_event) the device writes at that moment
    static IN_LATE: RefCell<Option<(Rc<RefCell<TState>>, u16, u16)>> = RefCell::new(None);
}

/// observer for the input scenarios: binds CURQ to the event queue at the first store after its registration (the device
/// sets its suppression words then), and otherwise behaves like the queue rig's observer
fn in_observer(e: virtio_drivers::verif::Event) {
    if CURQ.with(|c| c.borrow().size) == 0 {
        let late = IN_LATE.with(|l| l.borrow().as_ref().map(|(st, uf, ae)| { let s = st.borrow(); (s.queues[0], *uf, *ae) }));
        if let Some((qi, uf, ae)) = late { if qi.set {
            let a = QAddr { desc: qi.desc, drv: qi.drv, dev: qi.dev, size: 32 };
            CURQ.with(|c| *c.borrow_mut() = a);
            let _ = hal::dev_write_u16(a.dev, uf);
            let _ = hal::dev_write_u16(a.dev + 4 + 8 * 32, ae);
        } }
    }
    observer(e);
}

/// queue effects as Extract/InputIO.enc_ievs expects them: queue events as usual, notify with its queue, DRIVER_OK as [12]
fn enc_in_events(evs: &[Ev]) -> Vec<u128> {
    let mut o = vec![];
    for e in evs {
        match e {
            Ev::Notify(q) => o.extend([11, *q as u128]),
            Ev::SetStatus(s) if s & 4 != 0 => o.push(12),
            Ev::Share { .. } | Ev::Unshare { .. } | Ev::StoreDesc { .. } | Ev::Store { what: 1..=4, .. } | Ev::Fence => o.extend(enc_qevents(std::slice::from_ref(e), 0)),
            _ => {}
        }
    }
    o
}

/// VirtIO 1.2, 2.7.10 (written from the specification, not from the code): must the device be told about the entries
/// published while the available index moved from `old` to `new`?
fn spec_must_notify(event_idx: bool, ae: u16, uf: u16, new: u16, old: u16) -> bool {
    if event_idx { new.wrapping_sub(ae).wrapping_sub(1) < new.wrapping_sub(old) } else { uf & 1 == 0 }
}

pub struct InRig {
    pub input: VirtIOInput<LedgerHal, ModelTransport>,
    pub st: Rc<RefCell<TState>>,
    pub a: QAddr,
    pub event_idx: bool,
    /// address of event_buf[0] on the driver side (the array is contiguous: event_buf[i] lives at base + 8 i)
    pub base: usize,
    /// completions consumed so far, as a 16-bit index
    pub last_used: u16,
}
pub enum InPoll { Event([u8; 8]), Nothing, Panicked }

impl InRig {
    /// runs VirtIOInput::new on a device with the given features; `uf`, `ae`: the suppression words the device sets as soon
    /// as the event queue exists. Writes lines 1960 and 1971. None if the constructor did not return a driver.
    pub fn new(ctx: &mut Ctx, features: u64, uf: u16, ae: u16) -> Option<InRig> {
        hal::reset();
        BUFIDS.with(|b| b.borrow_mut().clear());
        CURQ.with(|c| *c.borrow_mut() = QAddr::default());
        virtio_drivers::verif::set_observer(Some(in_observer));
        let mut ts = TState::new(DeviceType::Input, features, 2, 32);
        ts.config = vec![0u8; 256];
        let (t, st) = ModelTransport::new(ts);
        IN_LATE.with(|l| *l.borrow_mut() = Some((st.clone(), uf, ae)));
        hal::take_log();
        let r = catch_unwind(AssertUnwindSafe(move || VirtIOInput::<LedgerHal, ModelTransport>::new(t)));
        IN_LATE.with(|l| *l.borrow_mut() = None);
        let evs = hal::take_log();
        let neg = st.borrow().driver_features;
        let (indirect, event_idx) = (neg & (1 << 28) != 0, neg & (1 << 29) != 0);
        // identities: the 8-byte buffers shared by new are event_buf[0..32), a contiguous array
        let shares: Vec<(usize, u64)> = evs.iter().filter_map(|e| if let Ev::Share { vaddr, len: 8, paddr, .. } = e { Some((*vaddr, *paddr)) } else { None }).collect();
        let base = shares.iter().map(|s| s.0).min().unwrap_or(0);
        for i in 0..32usize { BUFIDS.with(|m| m.borrow_mut().insert(base + 8 * i, i as u64)); }
        let qi = st.borrow().queues[0];
        let a = QAddr { desc: qi.desc, drv: qi.drv, dev: qi.dev, size: 32 };
        let (ae_seen, uf_seen) = if qi.set { (hal::dev_read_u16(a.dev + 4 + 8 * 32).unwrap_or(0), hal::dev_read_u16(a.dev).unwrap_or(0)) } else { (0, 0) };
        let mut ins = vec![indirect as u128, event_idx as u128, ae_seen as u128, uf_seen as u128];
        ins.extend(shares.iter().map(|s| s.1 as u128));
        let mut outs: Vec<u128> = match &r { Ok(Ok(_)) => vec![0, 0], Ok(Err(e)) => vec![1, err_code(e)], Err(_) => vec![2, 0] };
        outs.extend(enc_in_events(&evs));
        ctx.tr.line(1960, &ins, &outs);
        // monitor 1971: what the device finds after new
        let class: u128 = match &r { Ok(Ok(_)) => 0, Ok(Err(_)) => 1, Err(_) => 2 };
        let (mut posted, mut ring_ok, mut descs_ok) = (0u128, 0u128, 0u128);
        if qi.set {
            posted = hal::dev_read_u16(a.drv + 2).unwrap_or(0) as u128;
            ring_ok = (0..32u64).all(|i| hal::dev_read_u16(a.drv + 4 + 2 * i).ok() == Some(i as u16)) as u128;
            for i in 0..32usize {
                if let Some((addr, len, flags, _)) = read_desc(&a, i) {
                    if len == 8 && flags & 7 == 2 && hal::share_at(addr) == Some((base + 8 * i, 8, 1)) { descs_ok += 1; }
                }
            }
        }
        let ok_pos = evs.iter().position(|e| matches!(e, Ev::SetStatus(s) if s & 4 != 0)).unwrap_or(evs.len());
        let early = evs[..ok_pos].iter().filter(|e| matches!(e, Ev::Notify(_))).count() as u128;
        let n0 = evs.iter().filter(|e| matches!(e, Ev::Notify(0))).count() as u128;
        let nother = evs.iter().filter(|e| matches!(e, Ev::Notify(q) if *q != 0)).count() as u128;
        let must = spec_must_notify(event_idx, ae_seen, uf_seen, posted as u16, 0) as u128;
        ctx.tr.line(1971, &[class, posted, ring_ok, descs_ok, early, nother, n0, must], &[1]);
        ctx.tr.note(if n0 > 0 { "input_new_notified" } else { "input_new_suppressed" });
        match r { Ok(Ok(input)) => Some(InRig { input, st, a, event_idx, base, last_used: 0 }), _ => { virtio_drivers::verif::set_observer(None); None } }
    }

    /// one pop_pending_event against whatever the device has put into the used ring: lines 1961 and 1970
    pub fn poll(&mut self, ctx: &mut Ctx) -> InPoll {
        let a = self.a;
        let ui = hal::dev_read_u16(a.dev + 2).unwrap();
        let slot = (self.last_used as usize) & 31;
        let uid = hal::dev_read_u32(a.dev + 4 + 8 * slot as u64).unwrap();
        let ulen = hal::dev_read_u32(a.dev + 8 + 8 * slot as u64).unwrap();
        let ae = hal::dev_read_u16(a.dev + 4 + 8 * 32).unwrap();
        let uf = hal::dev_read_u16(a.dev).unwrap();
        let avail_before = hal::dev_read_u16(a.drv + 2).unwrap();
        let tok = (uid & 0xffff) as usize;
        let pending = ui != self.last_used;
        // what event_buf[token] will hold after the copy-back: the contents of the device-side buffer now
        let wr: Vec<u8> = if pending && tok < 32 { read_desc(&a, tok).and_then(|d| hal::dev_read(d.0, 8).ok()).unwrap_or_default() } else { vec![] };
        hal::take_log();
        let r = { let input = &mut self.input; catch_unwind(AssertUnwindSafe(move || input.pop_pending_event())) };
        let evs = hal::take_log();
        let addr = evs.iter().find_map(|e| if let Ev::Share { paddr, .. } = e { Some(*paddr) } else { None }).unwrap_or(0);
        let mut ins = vec![ui as u128, uid as u128, ui as u128, uid as u128, ulen as u128, addr as u128, ae as u128, uf as u128];
        ins.extend(wr.iter().map(|b| *b as u128));
        let mut outs: Vec<u128> = match &r {
            Ok(Some(ev)) => vec![0, 1, ev.event_type as u128, ev.code as u128, ev.value as u128],
            Ok(None) => vec![0, 0, 0, 0, 0],
            Err(_) => vec![2, 0, 0, 0, 0] };
        outs.extend(enc_in_events(&evs));
        ctx.tr.line(1961, &ins, &outs);
        // monitor 1970
        let avail_after = hal::dev_read_u16(a.drv + 2).unwrap();
        let adelta = avail_after.wrapping_sub(avail_before);
        let head = hal::dev_read_u16(a.drv + 4 + 2 * ((avail_after.wrapping_sub(1) as u64) & 31)).unwrap();
        let (dlen, dw, disbuf) = match read_desc(&a, head as usize & 31) {
            Some((daddr, len, flags, _)) => (len as u128, (flags & 7 == 2) as u128, (tok < 32 && hal::share_at(daddr) == Some((self.base + 8 * tok, 8, 1))) as u128),
            None => (0, 0, 0) };
        let n0 = evs.iter().filter(|e| matches!(e, Ev::Notify(0))).count() as u128;
        let nother = evs.iter().filter(|e| matches!(e, Ev::Notify(q) if *q != 0)).count() as u128;
        let shares = evs.iter().filter(|e| matches!(e, Ev::Share { .. })).count() as u128;
        let unshares = evs.iter().filter(|e| matches!(e, Ev::Unshare { .. })).count() as u128;
        let must = spec_must_notify(self.event_idx, ae, uf, avail_after, avail_before) as u128;
        let (class, has) = match &r { Ok(Some(_)) => (0u128, 1u128), Ok(None) => (0, 0), Err(_) => (2, 0) };
        ctx.tr.line(1970, &[pending as u128, (tok < 32) as u128, class, has, adelta as u128, head as u128, tok as u128, dlen, dw, disbuf,
                            n0, nother, must, shares, unshares, ulen as u128], &[1]);
        if pending && tok < 32 && has == 1 { ctx.tr.note(if n0 > 0 { "input_repost_notified" } else { "input_repost_suppressed" }); }
        match r {
            Ok(Some(ev)) => {
                self.last_used = self.last_used.wrapping_add(1);
                let mut b = [0u8; 8];
                b[0..2].copy_from_slice(&ev.event_type.to_le_bytes()); b[2..4].copy_from_slice(&ev.code.to_le_bytes()); b[4..8].copy_from_slice(&ev.value.to_le_bytes());
                InPoll::Event(b)
            }
            Ok(None) => InPoll::Nothing,
            Err(_) => InPoll::Panicked,
        }
    }

    /// query_config_select with a size and data the device chooses: line 1962
    pub fn query(&mut self, ctx: &mut Ctx) {
        use virtio_drivers::device::input::InputConfigSelect as Sel;
        let size = match ctx.rng.below(4) { 0 => *ctx.rng.pick(&[0u8, 1, 8, 20, 127, 128, 129, 247, 248, 249, 255]), _ => ctx.rng.next() as u8 };
        let data = ctx.rng.bytes(248);
        { let mut s = self.st.borrow_mut(); s.config[2] = size; s.config[8..256].copy_from_slice(&data); }
        let out_len = match ctx.rng.below(4) { 0 => *ctx.rng.pick(&[0usize, 1, 8, 20, 128, 129, 247, 248, 249, 255, 256, 300]), _ => ctx.rng.below(301) as usize };
        let (sel, selv) = *ctx.rng.pick(&[(Sel::IdName, 1u8), (Sel::IdSerial, 2), (Sel::IdDevids, 3), (Sel::PropBits, 0x10), (Sel::EvBits, 0x11), (Sel::AbsInfo, 0x12)]);
        let subsel = ctx.rng.next() as u8;
        let mut out = vec![0xeeu8; out_len];
        hal::take_log();
        let r = { let input = &mut self.input; let out = &mut out; catch_unwind(AssertUnwindSafe(move || input.query_config_select(sel, subsel, out))) };
        let evs = hal::take_log();
        let cfg = self.st.borrow().config.clone();
        let mut ins = vec![selv as u128, subsel as u128, out_len as u128, 1, 1, size as u128];
        for i in 0..(size as usize).min(out_len) { ins.push(if 8 + i < cfg.len() { cfg[8 + i] as u128 } else { 256 }); }
        let mut outs: Vec<u128> = match &r { Ok(Ok(sz)) => vec![0, *sz as u128, out_len as u128], Ok(Err(e)) => vec![1, err_code(e), 0], Err(_) => vec![2, 0, 0] };
        if let Ok(Ok(_)) = &r { outs.extend(out.iter().map(|b| *b as u128)); }
        for e in &evs { match e {
            Ev::WriteConfig { off, .. } => outs.extend([20, *off as u128, cfg.get(*off).copied().unwrap_or(0) as u128]),
            Ev::ReadConfig { off, .. } => outs.extend([21, *off as u128]),
            _ => {} } }
        ctx.tr.line(1962, &ins, &outs);
        // the monitors of the configuration queries (Extract/InputCfgIO.v, also run by C13 / C07): the accesses seen follow VirtIO
        // 5.8.5 inside the 136-byte structure (1321), the value is the specification's for what the device exposed (1322)
        let mut trace: Vec<[u128; 4]> = vec![];
        for e in &evs { match e {
            Ev::WriteConfig { off, len } if off + len <= cfg.len() => trace.push([1, *off as u128, *len as u128, cfg[*off] as u128]),
            Ev::ReadConfig { off, len } if off + len <= cfg.len() => trace.push([0, *off as u128, *len as u128, cfg[*off] as u128]),
            _ => {} } }
        let mut m1 = vec![selv as u128, subsel as u128]; for e in &trace { m1.extend(e); }
        ctx.tr.line(1321, &m1, &[1]);
        let (mres, untouched): (Vec<u128>, bool) = match &r {
            Ok(Ok(sz)) => { let n = (*sz as usize).min(out.len()); let mut o = vec![0, 1 + n as u128, *sz as u128]; o.extend(out[..n].iter().map(|b| *b as u128)); (o, out[n..].iter().all(|b| *b == 0xee)) }
            Ok(Err(e)) => (vec![1, err_code(e)], true), Err(_) => (vec![2, 0], true) };
        let mut m2 = vec![0, out_len as u128, untouched as u128]; m2.extend(mres); m2.push(trace.len() as u128); for e in &trace { m2.extend(e); }
        ctx.tr.line(1322, &m2, &[1]);
        ctx.tr.note(match &r { Ok(Ok(_)) => "input_query_ok", Ok(Err(_)) => "input_query_refused", Err(_) => "input_query_panic" });
    }

    pub fn finish(self, ctx: &mut Ctx) {
        let _ = catch_unwind(AssertUnwindSafe(move || drop(self.input)));
        virtio_drivers::verif::set_observer(None);
        CURQ.with(|c| *c.borrow_mut() = QAddr::default());
        ledger_line(ctx);
    }
}

/// VirtIOInput::pop_pending_event: each completed event buffer is delivered once, in used-ring order,
/// with the device's bytes, and immediately re-posted.
fn input_events(ctx: &mut Ctx, features: u64, nevents: usize) {
    // the suppression words the device sets before the driver first asks whether to notify
    let uf0 = ctx.rng.below(2) as u16;
    let ae0 = match ctx.rng.below(3) { 0 => 0, 1 => 31 + ctx.rng.below(3) as u16, _ => ctx.rng.boundary(16) as u16 };
    let mut rig = match InRig::new(ctx, features, uf0, ae0) { Some(r) => r, None => { ctx.tr.line(1951, &[0, 0, 0, 0, 0], &[1]); return; } };
    let a = rig.a;
    let mut dev = ODev { a, seen: 0, used: 0, fetched: vec![] };
    let mut expect: Vec<Vec<u8>> = vec![];
    let mut done = 0;
    let mut idle_rounds = 0;
    while done < nevents && idle_rounds < 64 {
        let done_before = done;
        dev.fetch();
        let burst = ctx.rng.below(33) as usize;
        for _ in 0..burst {
            if dev.fetched.is_empty() { break; }
            let k = ctx.rng.below(dev.fetched.len() as u64) as usize;
            let data = ctx.rng.bytes(8);
            // mostly whole events. In a quarter of the completions the device records another length: shorter (0, 4, 7, ...: it
            // then writes only that many bytes, the tail of the buffer stays as the platform prepared it - zero in a fresh bounce
            // buffer) or longer than the buffer (9, 2^32-1). The driver ignores the recorded length: whatever it is, the event
            // handed out is the 8 bytes the buffer holds, and the buffer is posted again under its token.
            let (wlen, claimed): (usize, u32) = if ctx.rng.chance(1, 4) {
                match ctx.rng.below(6) { 0 => (0, 0), 1 => (4, 4), 2 => (7, 7), 3 => (8, 9), 4 => (8, 0xffff_ffff), _ => { let l = ctx.rng.below(8) as usize; (l, l as u32) } }
            } else { (8, 8) };
            let baddr = read_desc(&a, dev.fetched[k] as usize & 31).map(|d| d.0).unwrap_or(0);
            dev.complete(k, &data[..wlen], claimed);
            if claimed < 8 { ctx.tr.note("input_short_length"); } else if claimed > 8 { ctx.tr.note("input_long_length"); }
            expect.push(hal::dev_read(baddr, 8).unwrap_or(data));
        }
        if ctx.rng.chance(1, 5) { // suppression data changes
            hal::dev_write_u16(a.dev + 4 + 8 * 32, if ctx.rng.chance(1, 2) { hal::dev_read_u16(a.drv + 2).unwrap().wrapping_sub(ctx.rng.below(3) as u16).wrapping_add(1) } else { ctx.rng.boundary(16) as u16 }).unwrap();
            hal::dev_write_u16(a.dev, ctx.rng.below(2) as u16).unwrap();
        }
        if ctx.rng.chance(1, 40) { rig.query(ctx); }
        let polls = 1 + ctx.rng.below(40) as usize;
        for _ in 0..polls {
            let r = rig.poll(ctx);
            dev.fetch();
            let posted = dev.posted() as u128 + expect.len() as u128 - if matches!(r, InPoll::Event(_)) && !expect.is_empty() { 1 } else { 0 };
            match r {
                InPoll::Event(bytes) => {
                    let ok = !expect.is_empty() && expect[0][..] == bytes[..];
                    if !expect.is_empty() { expect.remove(0); }
                    // [kind; posted; expected_posted; bytes_ok; had_pending]
                    ctx.tr.line(1951, &[1, posted, 32, ok as u128, 1], &[1]);
                    done += 1; ctx.tr.note("input_event_delivered");
                }
                InPoll::Nothing => { ctx.tr.line(1951, &[2, posted, 32, 1, (!expect.is_empty()) as u128], &[1]); ctx.tr.note("input_poll_empty"); }
                InPoll::Panicked => { ctx.tr.line(1951, &[3, posted, 32, 0, 0], &[1]); done = nevents; break; }
            }
        }
        if done == done_before { idle_rounds += 1; } else { idle_rounds = 0; }
    }
    rig.finish(ctx);
}

/// the same driver against a device that does not keep to the protocol: ids outside event_buf, with high bits set, never
/// completed or completed twice, index jumps, arbitrary lengths. The model (line 1961) predicts every result; monitor 1970
/// states the clauses of InputProofs.input_pop_stocked. The history ends at the first panic.
pub fn input_wild(ctx: &mut Ctx, features: u64, nops: usize) {
    let mut ops = 0;
    // a panic ends a driver's life: the next one starts on a fresh device (line 1960 resets the model state)
    while ops < nops {
        let (uf0, ae0) = (ctx.rng.below(2) as u16, ctx.rng.boundary(16) as u16);
        let mut rig = match InRig::new(ctx, features, uf0, ae0) { Some(r) => r, None => return };
        let a = rig.a;
        let mut used: u16 = 0;
        while ops < nops {
            ops += 1;
            let uslot = (used as usize) & 31;
            let id: u32 = match ctx.rng.below(64) { 0 => 32 + ctx.rng.below(8) as u32, 1 => ctx.rng.next() as u32, 2..=12 => ctx.rng.below(32) as u32 | ((ctx.rng.next() as u32) << 16), _ => ctx.rng.below(32) as u32 };
            if (id & 0xffff) < 32 { if let Some(d) = read_desc(&a, id as usize & 31) { let _ = hal::dev_write(d.0, &ctx.rng.bytes(8)); } }
            hal::dev_write_u32(a.dev + 4 + 8 * uslot as u64, id).unwrap();
            hal::dev_write_u32(a.dev + 8 + 8 * uslot as u64, ctx.rng.boundary(32) as u32).unwrap();
            // sometimes the index runs ahead of the entries written (stale slots are consumed later)
            used = used.wrapping_add(1 + if ctx.rng.chance(1, 6) { ctx.rng.below(3) as u16 } else { 0 });
            hal::dev_write_u16(a.dev + 2, used).unwrap();
            if ctx.rng.chance(1, 4) { hal::dev_write_u16(a.dev + 4 + 8 * 32, ctx.rng.boundary(16) as u16).unwrap(); hal::dev_write_u16(a.dev, ctx.rng.below(2) as u16).unwrap(); }
            let mut panicked = false;
            for _ in 0..1 + ctx.rng.below(3) {
                match rig.poll(ctx) { InPoll::Panicked => { panicked = true; ctx.tr.note("input_wild_panic"); break; } InPoll::Event(_) => ctx.tr.note("input_wild_event"), InPoll::Nothing => ctx.tr.note("input_wild_none") }
            }
            if panicked { break; }
            if ctx.rng.chance(1, 30) { rig.query(ctx); }
        }
        rig.finish(ctx);
    }
}

pub fn run(ctx: &mut Ctx) {
    let n = ctx.budget(600, 30) as usize;
    for flags in 0..4u8 {
        ctx.tr.scenario(&format!("c19-owning-n1-b8-f{}", flags)); owning::<1, 8>(ctx, flags, n / 4, false, 65534);
        ctx.tr.scenario(&format!("c19-owning-n2-b8-f{}", flags)); owning::<2, 8>(ctx, flags, n / 2, false, 0);
        ctx.tr.scenario(&format!("c19-owning-n4-b64-f{}", flags)); owning::<4, 64>(ctx, flags, n, false, 65500);
        ctx.tr.scenario(&format!("c19-owning-n8-b32-f{}", flags)); owning::<8, 32>(ctx, flags, n, false, 65535 - 3 * flags as u16);
        ctx.tr.scenario(&format!("c19-owning-n16-b16-f{}", flags)); owning::<16, 16>(ctx, flags, n, false, 32760);
        ctx.tr.scenario(&format!("c19-owning-oversize-n8-f{}", flags)); owning::<8, 32>(ctx, flags, n, true, 65520);
    }
    for flags in 4..8u8 {
        ctx.tr.scenario(&format!("c19-owning-n4-b16-f{}", flags)); owning::<4, 16>(ctx, flags, n / 2, false, 65530);
        ctx.tr.scenario(&format!("c19-owning-oversize-n8-f{}", flags)); owning::<8, 32>(ctx, flags, n / 2, true, 7);
    }
    for (i, feats) in [0u64, 1 << 28, 1 << 29, (1 << 28) | (1 << 29) | (1 << 32)].iter().enumerate() {
        ctx.tr.scenario(&format!("c19-input-{}", i)); input_events(ctx, *feats, n * 2);
        ctx.tr.scenario(&format!("c19-input-wild-{}", i)); input_wild(ctx, *feats, n);
    }
    if ctx.tier_thorough {
        // a real run across the 16-bit wrap: more than 65536 events on one queue and through the input driver
        ctx.tr.scenario("c19-owning-soak-n8"); owning::<8, 32>(ctx, 2, 70_000, false, 0);
        ctx.tr.scenario("c19-input-soak"); input_events(ctx, 1 << 29, 70_000);
    }
}
