//! C19: queues the driver keeps stocked with its own buffers: OwningQueue (new / poll) in lock-step with
//! the Coq model, and VirtIOInput::pop_pending_event against a reference device completing posted
//! buffers in PRNG order, in bursts, with every written length.
use crate::hal::{self, Ev, LedgerHal};
use crate::scen::common::*;
use crate::scen::qrig::*;
use crate::tport::{ModelTransport, TState};
use crate::Ctx;
use std::panic::{catch_unwind, AssertUnwindSafe};
use virtio_drivers::device::input::VirtIOInput;
use virtio_drivers::queue::{OwningQueue, VirtQueue};
use virtio_drivers::transport::DeviceType;

/// reference device for stocked queues: fetches available heads in order, completes them in any order
pub struct ODev { pub a: QAddr, pub seen: u16, pub used: u16, pub fetched: Vec<u16> }
impl ODev {
    pub fn fetch(&mut self) {
        let n = self.a.size;
        let aidx = hal::dev_read_u16(self.a.drv + 2).unwrap();
        while self.seen != aidx {
            let slot = (self.seen as usize) & (n - 1);
            self.fetched.push(hal::dev_read_u16(self.a.drv + 4 + 2 * slot as u64).unwrap());
            self.seen = self.seen.wrapping_add(1);
        }
    }
    /// complete fetched entry k writing `data` into the (single, direct) buffer and claiming `len` bytes
    pub fn complete(&mut self, k: usize, data: &[u8], len: u32) -> u16 {
        let n = self.a.size;
        let head = self.fetched.remove(k);
        if let Some((addr, dlen, _flags, _)) = read_desc(&self.a, head as usize % n) {
            let m = data.len().min(dlen as usize);
            if hal::dev_write(addr, &data[..m]).is_err() { hal::violate(format!("posted buffer of token {} not device-writable at {:#x}", head, addr)); }
        }
        let uslot = (self.used as usize) & (n - 1);
        hal::dev_write_u32(self.a.dev + 4 + 8 * uslot as u64, head as u32).unwrap();
        hal::dev_write_u32(self.a.dev + 8 + 8 * uslot as u64, len).unwrap();
        self.used = self.used.wrapping_add(1);
        hal::dev_write_u16(self.a.dev + 2, self.used).unwrap();
        head
    }
    pub fn posted(&self) -> u16 { hal::dev_read_u16(self.a.drv + 2).unwrap().wrapping_sub(self.used) }
}

fn owning<const N: usize, const B: usize>(ctx: &mut Ctx, flags: u8, nevents: usize, oversize: bool, start: u16) {
    hal::reset();
    BUFIDS.with(|b| b.borrow_mut().clear());
    virtio_drivers::verif::set_observer(Some(observer));
    let (indirect, event_idx) = (flags & 1 != 0, flags & 2 != 0);
    let (mut t, st) = ModelTransport::new(TState::new(DeviceType::Input, 0, 2, N as u32));
    let mut q = match VirtQueue::<LedgerHal, N>::new(&mut t, 0, indirect, event_idx, false) { Ok(q) => q, Err(_) => return };
    let qi = st.borrow().queues[0];
    let a = QAddr { desc: qi.desc, drv: qi.drv, dev: qi.dev, size: N };
    CURQ.with(|c| *c.borrow_mut() = a);
    // start the free-running 16-bit indices next to the wrap-around (hook; the device starts there too)
    if start != 0 { q.verif_set_indices(start); hal::dev_write_u16(a.dev + 2, start).unwrap(); }
    hal::take_log();
    let r = catch_unwind(AssertUnwindSafe(move || OwningQueue::<LedgerHal, N, B>::new(q)));
    let evs = hal::take_log();
    let mut addrs = vec![];
    for e in &evs { if let Ev::Share { vaddr, paddr, .. } = e { let id = addrs.len() as u64; BUFIDS.with(|m| m.borrow_mut().insert(*vaddr, id)); addrs.push(*paddr as u128); } }
    let mut ins = vec![N as u128, indirect as u128, event_idx as u128, B as u128, start as u128]; ins.extend(addrs.iter().cloned());
    let mut outs: Vec<u128> = match &r { Ok(Ok(_)) => vec![0, 0], Ok(Err(e)) => vec![1, err_code(e)], Err(_) => vec![2, 0] };
    outs.extend(enc_qevents(&evs, 0));
    ctx.tr.line(1900, &ins, &outs);
    let mut oq = match r { Ok(Ok(q)) => q, _ => return };
    let mut dev = ODev { a, seen: start, used: start, fetched: vec![] };
    let mut expect: Vec<(u16, u32, Vec<u8>)> = vec![];   // (token, claimed len, bytes written) in used order
    let mut last_used: u16 = start;
    let mut done = 0;
    let mut idle_rounds = 0;
    while done < nevents && idle_rounds < 64 {
        let done_before = done;
        // device: a burst of completions in PRNG order
        dev.fetch();
        let burst = ctx.rng.below(N as u64 + 1) as usize;
        for _ in 0..burst {
            if dev.fetched.is_empty() { break; }
            let k = ctx.rng.below(dev.fetched.len() as u64) as usize;
            let len = match ctx.rng.below(6) { 0 => 0, 1 => B, 2 => 1, _ => ctx.rng.below(B as u64 + 1) as usize };
            let data = ctx.rng.bytes(B);
            let claimed = if oversize && ctx.rng.chance(1, 6) { (B + 1 + ctx.rng.below(3) as usize) as u32 } else { len as u32 };
            let tok = dev.complete(k, &data, claimed);
            expect.push((tok, claimed, data));
        }
        if ctx.rng.chance(1, 5) { // suppression data changes
            hal::dev_write_u16(a.dev + 4 + 8 * N as u64, ctx.rng.boundary(16) as u16).unwrap();
            hal::dev_write_u16(a.dev, ctx.rng.below(2) as u16).unwrap();
        }
        // driver: poll a few times (sometimes more often than there are events)
        let polls = 1 + ctx.rng.below(N as u64 + 1) as usize;
        for _ in 0..polls {
            let ui = hal::dev_read_u16(a.dev + 2).unwrap();
            let slot = (last_used as usize) & (N - 1);
            let uid = hal::dev_read_u32(a.dev + 4 + 8 * slot as u64).unwrap();
            let ulen = hal::dev_read_u32(a.dev + 8 + 8 * slot as u64).unwrap();
            let ae = hal::dev_read_u16(a.dev + 4 + 8 * N as u64).unwrap();
            let uf = hal::dev_read_u16(a.dev).unwrap();
            let mark = hal::log_len();
            // what the caller's handler answers: mostly Ok(Some), sometimes Ok(None) or an error
            let hres: u128 = match ctx.rng.below(8) { 0 => 1, 1 => 2, _ => 0 };
            let r = { let oq = &mut oq; let t = &mut t; catch_unwind(AssertUnwindSafe(move || oq.poll(t, |b| match hres {
                0 => Ok(Some(b.to_vec())), 1 => Ok(None), _ => Err(virtio_drivers::Error::IoError) }))) };
            let evs = hal::log_since(mark);
            let addr = evs.iter().find_map(|e| if let Ev::Share { paddr, .. } = e { Some(*paddr) } else { None }).unwrap_or(0);
            let tok = (uid & 0xffff) as u128;
            let (class, has, len) = match &r { Ok(Ok(Some(v))) => (0u128, 1u128, v.len() as u128), Ok(Ok(None)) => (0, 0, 0), Ok(Err(e)) => (1, 0, err_code(e)), Err(_) => (2, 0, 0) };
            let mut o = match &r { Ok(Ok(Some(v))) => vec![0, 1, v.len() as u128, tok], Ok(Ok(None)) => vec![0, 0, 0, 0], Ok(Err(e)) => vec![1, err_code(e), 0, 0], Err(_) => vec![2, 0, 0, 0] };
            o.extend(enc_qevents(&evs, tok));
            ctx.tr.line(1901, &[B as u128, ui as u128, uid as u128, ulen as u128, addr as u128, ae as u128, uf as u128, hres], &o);
            // monitor on the implementation's behaviour
            let pending = !expect.is_empty();
            let (exp_tok, exp_len, bytes_ok) = if has == 1 && pending {
                let (t0, l0, d0) = &expect[0];
                let ok = if let Ok(Ok(Some(v))) = &r { (*l0 as usize) <= B && v[..] == d0[..(*l0 as usize).min(B)] } else { false };
                (*t0 as u128, *l0 as u128, ok as u128)
            } else if pending { (expect[0].0 as u128, expect[0].1 as u128, 0) } else { (0, 0, 0) };
            dev.fetch();
            // a completion was consumed iff something was pending and its id names a buffer of the queue
            let consumed = ui != last_used && ((uid & 0xffff) as usize) < N && class != 2;
            // buffers the device still holds + completions the driver has not consumed yet
            let pending_after = expect.len() as u128 - if consumed { 1 } else { 0 };
            ctx.tr.line(1950, &[N as u128, B as u128, dev.posted() as u128 + pending_after, class, has, len, tok, exp_tok, bytes_ok, if class == 1 || has == 1 { exp_len } else { 0 }, hres], &[1]);
            if consumed { expect.remove(0); last_used = last_used.wrapping_add(1); done += 1; }
            match class {
                0 if has == 1 => ctx.tr.note("owning_delivered"),
                0 if consumed => ctx.tr.note("owning_handler_none"),
                0 => ctx.tr.note("owning_poll_empty"),
                1 => ctx.tr.note("owning_poll_error"),
                _ => { ctx.tr.note("owning_poll_panic"); done = nevents; break; }
            }
        }
        // a queue that has run dry (buffers lost) makes no progress: stop instead of waiting for ever
        if done == done_before { idle_rounds += 1; } else { idle_rounds = 0; }
    }
    drop(oq); drop(t);
    virtio_drivers::verif::set_observer(None);
    ledger_line(ctx);
}

/// VirtIOInput::pop_pending_event: each completed event buffer is delivered once, in used-ring order,
/// with the device's bytes, and immediately re-posted.
fn input_events(ctx: &mut Ctx, features: u64, nevents: usize) {
    hal::reset();
    virtio_drivers::verif::set_observer(None);
    let mut ts = TState::new(DeviceType::Input, features, 2, 32);
    ts.config = vec![0u8; 256];
    let (t, st) = ModelTransport::new(ts);
    let r = catch_unwind(AssertUnwindSafe(move || VirtIOInput::<LedgerHal, ModelTransport>::new(t)));
    let mut input = match r { Ok(Ok(i)) => i, _ => { ctx.tr.line(1951, &[0, 0, 0, 0, 0], &[1]); return; } };
    let qi = st.borrow().queues[0];
    let a = QAddr { desc: qi.desc, drv: qi.drv, dev: qi.dev, size: 32 };
    let mut dev = ODev { a, seen: 0, used: 0, fetched: vec![] };
    let mut expect: Vec<Vec<u8>> = vec![];
    let mut done = 0;
    let mut idle_rounds = 0;
    while done < nevents && idle_rounds < 64 {
        let done_before = done;
        dev.fetch();
        let burst = ctx.rng.below(33) as usize;
        for _ in 0..burst {
            if dev.fetched.is_empty() { break; }
            let k = ctx.rng.below(dev.fetched.len() as u64) as usize;
            let data = ctx.rng.bytes(8);
            dev.complete(k, &data, 8);
            expect.push(data);
        }
        let polls = 1 + ctx.rng.below(40) as usize;
        for _ in 0..polls {
            let r = { let input = &mut input; catch_unwind(AssertUnwindSafe(move || input.pop_pending_event())) };
            dev.fetch();
            let posted = dev.posted() as u128 + expect.len() as u128 - if matches!(r, Ok(Some(_))) && !expect.is_empty() { 1 } else { 0 };
            match r {
                Ok(Some(ev)) => {
                    let bytes: Vec<u8> = [ev.event_type.to_le_bytes().to_vec(), ev.code.to_le_bytes().to_vec(), ev.value.to_le_bytes().to_vec()].concat();
                    let ok = !expect.is_empty() && expect[0] == bytes;
                    if !expect.is_empty() { expect.remove(0); }
                    // [kind; posted; expected_posted; bytes_ok; had_pending]
                    ctx.tr.line(1951, &[1, posted, 32, ok as u128, 1], &[1]);
                    done += 1; ctx.tr.note("input_event_delivered");
                }
                Ok(None) => { ctx.tr.line(1951, &[2, posted, 32, 1, (!expect.is_empty()) as u128], &[1]); ctx.tr.note("input_poll_empty"); }
                Err(_) => { ctx.tr.line(1951, &[3, posted, 32, 0, 0], &[1]); done = nevents; break; }
            }
        }
        if done == done_before { idle_rounds += 1; } else { idle_rounds = 0; }
    }
    drop(input);
    ledger_line(ctx);
}

pub fn run(ctx: &mut Ctx) {
    let n = ctx.budget(600, 30) as usize;
    for flags in 0..4u8 {
        ctx.tr.scenario(&format!("c19-owning-n1-b8-f{}", flags)); owning::<1, 8>(ctx, flags, n / 4, false, 65534);
        ctx.tr.scenario(&format!("c19-owning-n2-b8-f{}", flags)); owning::<2, 8>(ctx, flags, n / 2, false, 0);
        ctx.tr.scenario(&format!("c19-owning-n4-b64-f{}", flags)); owning::<4, 64>(ctx, flags, n, false, 65500);
        ctx.tr.scenario(&format!("c19-owning-n8-b32-f{}", flags)); owning::<8, 32>(ctx, flags, n, false, 65535 - 3 * flags as u16);
        ctx.tr.scenario(&format!("c19-owning-n16-b16-f{}", flags)); owning::<16, 16>(ctx, flags, n, false, 32760);
        ctx.tr.scenario(&format!("c19-owning-oversize-n8-f{}", flags)); owning::<8, 32>(ctx, flags, n, true, 65520);
    }
    for (i, feats) in [0u64, 1 << 28, 1 << 29, (1 << 28) | (1 << 29) | (1 << 32)].iter().enumerate() {
        ctx.tr.scenario(&format!("c19-input-{}", i)); input_events(ctx, *feats, n * 2);
    }
    if ctx.tier_thorough {
        // a real run across the 16-bit wrap: more than 65536 events on one queue and through the input driver
        ctx.tr.scenario("c19-owning-soak-n8"); owning::<8, 32>(ctx, 2, 70_000, false, 0);
        ctx.tr.scenario("c19-input-soak"); input_events(ctx, 1 << 29, 70_000);
    }
}
