//! C13: configuration-space access of the REAL transports and the multi-field reads of the REAL
//! drivers, against an emulated device whose configuration memory changes, under the control of
//! the scenario, immediately before chosen individual register reads.
//!
//!  * MMIO: the real `MmioTransport` (legacy / modern, also wrapped in `SomeTransport`) over two
//!    emulated windows (register block, configuration window) behind safe-mmio's custom backend:
//!    every single access is seen, so "between two reads" is exact.
//!  * PCI: the real `PciTransport` constructed by `PciTransport::new` from a minimal emulated PCI
//!    function (vendor/device id, one 32-bit memory BAR, capability list with common / notify /
//!    isr / optional device-specific configuration capabilities); its four windows live in the BAR.
//!  * bounds (1301..1304): read_config_space::<T> / write_config_space::<T> for 21 types
//!    (size 0..16, alignment 1..8) over a grid of offsets around 0, the window end and usize::MAX,
//!    windows of many sizes, both base alignments (mod 8), PCI with and without the capability.
//!  * read_consistent (1310..1312): the closures of the five drivers (replicas) and arbitrary
//!    field lists, with schedules of device-side updates: every single placement and every pair of
//!    placements in the first attempt, random schedules, 255/256/257 updates inside one attempt on
//!    PCI (8-bit counter), legacy MMIO (no counter).
//!  * users: the real VirtIOBlk::new / VirtIOSocket::new / VirtIOConsole::size / VirtIONetRaw::new
//!    / VirtIO9p::new over both transports with the same schedules; observed value = capacity(),
//!    guest_cid(), size(), mac_address(), mount_tag().
//!  * x86-64 hypercall transport (`run_hyp`, transport kind 3): the real `HypPciTransport` (constructed by
//!    `HypPciTransport::new` from the same minimal PCI function; directly and as `SomeTransport::HypPci`) with every
//!    hypercall served by the same emulated device: each single hypercall READ of the generation byte (offset 21 of the
//!    common configuration region) or of the device-specific region is a slot of the update schedule.  The multi-field
//!    reads of the five drivers and `transport.read_consistent(..)` run with the schedules above and with BURSTS: one
//!    update in each of 1..12 consecutive attempts, at every position inside the attempt.  Monitors 1311 / 1312 with
//!    the PCI-case closure (the trait's default loop, one-byte generation: Proofs/HypConfigProofs.v); line 1310 (the
//!    model predicts result and accesses) for closures of 1/2/4/8-byte fields.
use crate::hal::{self, Ev, LedgerHal};
use crate::mmio::{self, MmioDev};
use crate::scen::common::err_code;
use crate::Ctx;
use std::cell::RefCell;
use std::collections::VecDeque;
use std::panic::{catch_unwind, AssertUnwindSafe};
use std::ptr::NonNull;
use std::rc::Rc;
use virtio_drivers::device::blk::VirtIOBlk;
#[cfg(feature = "alloc")]
use virtio_drivers::device::console::VirtIOConsole;
use virtio_drivers::device::net::VirtIONetRaw;
#[cfg(feature = "alloc")]
use virtio_drivers::device::socket::VirtIOSocket;
#[cfg(feature = "alloc")]
use virtio_drivers::device::virtio_9p::VirtIO9p;
use virtio_drivers::transport::mmio::{MmioTransport, VirtIOHeader};
use virtio_drivers::transport::pci::bus::{ConfigurationAccess, DeviceFunction, PciRoot};
use virtio_drivers::transport::pci::PciTransport;
use virtio_drivers::transport::x86_64::HypPciTransport;
use virtio_drivers::transport::{SomeTransport, Transport};
use virtio_drivers::Error;
use zerocopy::{FromBytes, Immutable, IntoBytes};

const HBASE: usize = 0x6100_0000_0000;
const PBASE: usize = 0x6200_0000_0000;
const BAR_PADDR: u32 = 0xfe00_0000;
const BAR_SIZE: u32 = 0x10_0000;
const PCI_CFG_OFF: u32 = 0x1000;
const R_HDR: u32 = 130;
const R_CFG: u32 = 131;
const R_COMMON: u32 = 132;
const R_ISR: u32 = 133;
const R_NOTIFY: u32 = 134;
const MAGIC: u32 = 0x7472_6976;
const VERSION_1: u64 = 1 << 32;

// ---------------------------------------------------------------- the emulated device
pub(crate) struct DevState {
    /// configuration memory and generation counter (gen_mask = 2^w - 1)
    pub(crate) cfg: Vec<u8>, pub(crate) gen: u32, pub(crate) gen_mask: u32,
    /// per individual register read (generation or configuration window): the updates made just before it
    pub(crate) sched: VecDeque<Vec<Vec<u8>>>,
    /// every configuration image the device has exposed; `cur` = the one exposed now
    pub(crate) snaps: Vec<Vec<u8>>, pub(crate) cur: usize,
    /// (tag, offset, width, value, snapshot index) of generation reads (2) and window reads (0) / writes (1)
    pub(crate) evs: Vec<[u128; 5]>,
    /// bounds tests: window reads answered from this stream instead of memory
    pub(crate) answers: Option<VecDeque<u64>>,
    // enough of the rest of a device for the init handshake of the real drivers
    version: u32, device_id: u32, features: u64, dfsel: u32, status: u32, qsel: u32, qready: [u32; 8],
    common: [u8; 56],
}
pub(crate) type St = Rc<RefCell<DevState>>;
fn wmask(width: u8) -> u64 { if width >= 8 { u64::MAX } else { (1u64 << (8 * width as u32)) - 1 } }
impl DevState {
    pub(crate) fn new(cfg: Vec<u8>, gen: u32, gen_bits: u32, version: u32, device_id: u32, features: u64) -> DevState {
        let gen_mask = if gen_bits >= 32 { u32::MAX } else { (1u32 << gen_bits) - 1 };
        DevState { snaps: vec![cfg.clone()], cfg, gen: gen & gen_mask, gen_mask, sched: VecDeque::new(), cur: 0, evs: vec![], answers: None,
            version, device_id, features, dfsel: 0, status: 0, qsel: 0, qready: [0; 8], common: [0; 56] }
    }
    fn slot(&mut self) {
        if let Some(us) = self.sched.pop_front() {
            for img in us {
                self.cfg = img.clone();
                self.gen = self.gen.wrapping_add(1) & self.gen_mask;
                self.snaps.push(img);
                self.cur = self.snaps.len() - 1;
            }
        }
    }
    fn gen_read(&mut self, off: u64, width: u8) -> u64 {
        self.slot();
        let g = self.gen as u64;
        self.evs.push([2, off as u128, width as u128, g as u128, self.cur as u128]);
        g
    }
    fn cfg_read(&mut self, off: u64, width: u8) -> u64 {
        self.slot();
        let v = match self.answers.as_mut() {
            Some(a) => a.pop_front().unwrap_or(0) & wmask(width),
            None => {
                let mut v = 0u64;
                for i in 0..width as u64 { let b = self.cfg.get((off + i) as usize).copied().unwrap_or(0); v |= (b as u64) << (8 * i); }
                v
            }
        };
        self.evs.push([0, off as u128, width as u128, v as u128, self.cur as u128]);
        v
    }
    fn cfg_write(&mut self, off: u64, width: u8, val: u64) {
        for i in 0..width as u64 { if let Some(b) = self.cfg.get_mut((off + i) as usize) { *b = (val >> (8 * i)) as u8; } }
        self.evs.push([1, off as u128, width as u128, val as u128, self.cur as u128]);
    }
}

/// MMIO register block (VirtIO 1.2, 4.2.2)
struct Hdr(St);
impl MmioDev for Hdr {
    fn read(&mut self, off: u64, width: u8) -> u64 {
        let mut s = self.0.borrow_mut();
        match off {
            0 => MAGIC as u64, 4 => s.version as u64, 8 => s.device_id as u64, 0xc => 0x554d_4551,
            0x10 => (s.features >> (32 * (s.dfsel & 1))) & 0xffff_ffff,
            0x34 => 64,
            0x40 => 0,
            0x44 => s.qready[(s.qsel & 7) as usize] as u64,
            0x60 => 0,
            0x70 => s.status as u64,
            0xfc => s.gen_read(off, width),
            _ => 0,
        }
    }
    fn write(&mut self, off: u64, _width: u8, val: u64) {
        let mut s = self.0.borrow_mut();
        match off {
            0x14 => s.dfsel = val as u32,
            0x30 => s.qsel = val as u32,
            0x44 => { let q = (s.qsel & 7) as usize; s.qready[q] = val as u32; }
            0x70 => s.status = val as u32,
            _ => {}
        }
    }
}
/// device-specific configuration window (both transports)
struct CfgWin(St);
impl MmioDev for CfgWin {
    fn read(&mut self, off: u64, width: u8) -> u64 { self.0.borrow_mut().cfg_read(off, width) }
    fn write(&mut self, off: u64, width: u8, val: u64) { self.0.borrow_mut().cfg_write(off, width, val) }
}
/// virtio_pci_common_cfg (4.1.4.3)
struct Common(St);
impl MmioDev for Common {
    fn read(&mut self, off: u64, width: u8) -> u64 {
        let mut s = self.0.borrow_mut();
        let sel = u32::from_le_bytes(s.common[0..4].try_into().unwrap());
        let qsel = u16::from_le_bytes(s.common[22..24].try_into().unwrap());
        match off {
            4 => (s.features >> (32 * (sel & 1))) & 0xffff_ffff,
            18 => 8,
            21 => s.gen_read(off, width),
            24 => 64,
            28 => s.qready[(qsel & 7) as usize] as u64,
            30 => qsel as u64,
            _ => { let mut v = 0u64; for i in 0..width as usize { v |= (s.common.get(off as usize + i).copied().unwrap_or(0) as u64) << (8 * i); } v }
        }
    }
    fn write(&mut self, off: u64, width: u8, val: u64) {
        let mut s = self.0.borrow_mut();
        for i in 0..width as usize { if let Some(b) = s.common.get_mut(off as usize + i) { *b = (val >> (8 * i)) as u8; } }
        if off == 28 { let qsel = u16::from_le_bytes(s.common[22..24].try_into().unwrap()); s.qready[(qsel & 7) as usize] = val as u32; }
    }
}
struct Quiet;
impl MmioDev for Quiet { fn read(&mut self, _o: u64, _w: u8) -> u64 { 0 } fn write(&mut self, _o: u64, _w: u8, _v: u64) {} }

/// the minimal PCI function: ids, command/status, BAR0 (32-bit memory, BAR_SIZE bytes), capability list
struct PciFn { regs: [u32; 64], bar0: u32 }
#[derive(Clone)]
struct PciCam(Rc<RefCell<PciFn>>);
impl PciFn {
    fn new(device_id: u32, devcfg: Option<(u32, u32)>) -> PciFn {
        let mut regs = [0u32; 64];
        regs[0] = 0x1af4 | ((0x1040 + device_id) << 16);
        regs[1] = (0x0010 << 16) | 0x0006;
        regs[0x34 / 4] = 0x40;
        // (config offset, cap_len, cfg_type, bar offset, length)
        let mut caps: Vec<(usize, u32, u32, u32, u32)> = vec![(0x40, 16, 1, 0, 56), (0x50, 20, 2, 0x200, 0x100), (0x64, 16, 3, 0x100, 4)];
        if let Some((off, len)) = devcfg { caps.push((0x74, 16, 4, off, len)); }
        for (i, (o, cl, ty, off, len)) in caps.iter().enumerate() {
            let next = if i + 1 < caps.len() { caps[i + 1].0 as u32 } else { 0 };
            regs[o / 4] = 0x09 | (next << 8) | (cl << 16) | (ty << 24);
            regs[o / 4 + 1] = 0;
            regs[o / 4 + 2] = *off;
            regs[o / 4 + 3] = *len;
            if *ty == 2 { regs[o / 4 + 4] = 4; }
        }
        PciFn { regs, bar0: BAR_PADDR }
    }
}
impl ConfigurationAccess for PciCam {
    fn read_word(&self, df: DeviceFunction, off: u8) -> u32 {
        if (df.bus, df.device, df.function) != (0, 1, 0) { return 0xffff_ffff; }
        let f = self.0.borrow();
        if off & !3 == 0x10 { f.bar0 } else { f.regs[(off / 4) as usize] }
    }
    fn write_word(&mut self, df: DeviceFunction, off: u8, data: u32) {
        if (df.bus, df.device, df.function) != (0, 1, 0) { return; }
        let mut f = self.0.borrow_mut();
        let fixed = BAR_SIZE - 1;
        if off & !3 == 0x10 { f.bar0 = (f.bar0 & fixed) | (data & !fixed); }
        else if off & !3 == 4 { f.regs[1] = (f.regs[1] & 0xffff_0000) | (data & 0xffff); }
        else if (off & !3) >= 0x14 && (off & !3) < 0x28 { /* BARs 1..5 unimplemented: read back 0 */ }
        else { f.regs[(off / 4) as usize] = data; }
    }
    unsafe fn unsafe_clone(&self) -> Self { self.clone() }
}

// ---------------------------------------------------------------- a transport on a fresh device
/// tk: 0 legacy MMIO, 1 modern MMIO, 2 PCI, 3 x86-64 hypercall PCI (the model's PCI case: lines carry 2).
/// `len`: bytes of the MMIO window / `length` of the PCI capability.
#[derive(Clone, Copy, Debug)]
pub(crate) struct Geo { pub(crate) tk: u8, pub(crate) present: bool, pub(crate) len: u64, pub(crate) delta: usize }
impl Geo {
    pub(crate) fn base(&self) -> usize { if self.tk == 3 { (BAR_PADDR + PCI_CFG_OFF) as usize + self.delta } else if self.tk == 2 { PBASE + PCI_CFG_OFF as usize + self.delta } else { HBASE + self.delta + 0x100 } }
    /// what the transport holds: bytes (MMIO) / u32 words (PCI)
    pub(crate) fn wlen(&self) -> u64 { if self.tk >= 2 { if self.present { self.len / 4 } else { 0 } } else { self.len } }
    pub(crate) fn gen_bits(&self) -> u32 { if self.tk >= 2 { 8 } else { 32 } }
    pub(crate) fn enc(&self) -> [u128; 4] { [self.tk.min(2) as u128, self.present as u128, self.wlen() as u128, self.base() as u128] }
    pub(crate) fn name(&self) -> &'static str { match (self.tk, self.present) { (0, _) => "legacy", (1, _) => "modern", (2, true) => "pci", (2, _) => "pci_nocap", (_, true) => "hyp", _ => "hyp_nocap" } }
}
pub(crate) enum Tp { M(MmioTransport<'static>), P(PciTransport), S(SomeTransport<'static>), H(HypPciTransport) }
macro_rules! with_t { ($tp:expr, $t:ident, $e:expr) => { match $tp { Tp::M($t) => $e, Tp::P($t) => $e, Tp::S($t) => $e, Tp::H($t) => $e } } }

// ---------------------------------------------------------------- the hypervisor (transport kind 3)
/// every hypercall of the real HypPciTransport lands here (hook `set_hyp_io_backend`): physical addresses inside BAR0 are
/// served by the same register emulations as the PCI transport's MMIO windows
struct HypDev { st: St, present: bool, cfg_off: u64, cfg_len: u64 }
thread_local! { static HYPDEV: RefCell<Option<HypDev>> = const { RefCell::new(None) }; }
/// what the hypervisor leaves in the bytes of the result register beyond the size asked for
const HYP_GARBAGE: u64 = 0xa5c3_965a_3cf0_0ff1;
fn hyp_backend(write: bool, addr: u64, size: usize, data: u64) -> u64 {
    HYPDEV.with(|h| {
        let h = h.borrow();
        let Some(d) = h.as_ref() else { return 0 };
        let w = size.min(8) as u8;
        let rel = addr.wrapping_sub(BAR_PADDR as u64);
        let v = if rel < 56 {
            let mut c = Common(d.st.clone());
            if write { c.write(rel, w, data & wmask(w)); 0 } else { c.read(rel, w) }
        } else if d.present && rel >= d.cfg_off && rel - d.cfg_off < d.cfg_len {
            let mut c = CfgWin(d.st.clone());
            if write { c.write(rel - d.cfg_off, w, data & wmask(w)); 0 } else { c.read(rel - d.cfg_off, w) }
        } else if (0x100..0x104).contains(&rel) || (0x200..0x300).contains(&rel) { 0 }
        else {
            // anywhere else: recorded at its distance from the device-specific region (modulo 2^64), so that it can never
            // look like an access inside
            let mut s = d.st.borrow_mut();
            let cur = s.cur as u128;
            s.evs.push([write as u128, rel.wrapping_sub(d.cfg_off) as u128, size as u128, data as u128, cur]);
            0
        };
        if write { 0 } else if size < 8 { v & wmask(w) | (HYP_GARBAGE << (8 * size as u32)) } else { v }
    })
}

fn install(g: &Geo, st: &St) {
    hal::reset();
    mmio::clear();
    if g.tk == 3 {
        HYPDEV.with(|h| *h.borrow_mut() = Some(HypDev { st: st.clone(), present: g.present, cfg_off: (PCI_CFG_OFF as usize + g.delta) as u64, cfg_len: g.len }));
        virtio_drivers::verif::set_hyp_io_backend(Some(hyp_backend));
    } else if g.tk == 2 {
        hal::add_mmio_window(BAR_PADDR as u64, BAR_SIZE as u64, PBASE);
        mmio::register(R_COMMON, PBASE, 56, Box::new(Common(st.clone())));
        mmio::register(R_ISR, PBASE + 0x100, 4, Box::new(Quiet));
        mmio::register(R_NOTIFY, PBASE + 0x200, 0x100, Box::new(Quiet));
        if g.present { mmio::register(R_CFG, g.base(), g.len as usize, Box::new(CfgWin(st.clone()))); }
    } else {
        mmio::register(R_HDR, HBASE + g.delta, 0x100, Box::new(Hdr(st.clone())));
        if g.len > 0 { mmio::register(R_CFG, g.base(), g.len as usize, Box::new(CfgWin(st.clone()))); }
    }
}
pub(crate) fn make(g: &Geo, st: &St, wrapped: bool) -> Option<Tp> {
    install(g, st);
    let device_id = st.borrow().device_id;
    let r = catch_unwind(AssertUnwindSafe(|| -> Option<Tp> {
        if g.tk == 3 {
            let cam = PciCam(Rc::new(RefCell::new(PciFn::new(device_id, if g.present { Some((PCI_CFG_OFF + g.delta as u32, g.len as u32)) } else { None }))));
            let mut root = PciRoot::new(cam);
            let t = HypPciTransport::new(&mut root, DeviceFunction { bus: 0, device: 1, function: 0 }).ok()?;
            Some(if wrapped { Tp::S(SomeTransport::HypPci(t)) } else { Tp::H(t) })
        } else if g.tk == 2 {
            let cam = PciCam(Rc::new(RefCell::new(PciFn::new(device_id, if g.present { Some((PCI_CFG_OFF + g.delta as u32, g.len as u32)) } else { None }))));
            let mut root = PciRoot::new(cam);
            let t = PciTransport::new::<LedgerHal, _>(&mut root, DeviceFunction { bus: 0, device: 1, function: 0 }).ok()?;
            Some(if wrapped { Tp::S(t.into()) } else { Tp::P(t) })
        } else {
            let h = NonNull::new((HBASE + g.delta) as *mut VirtIOHeader).unwrap();
            let t = unsafe { MmioTransport::new(h, 0x100 + g.len as usize) }.ok()?;
            Some(if wrapped { Tp::S(t.into()) } else { Tp::M(t) })
        }
    }));
    hal::take_log();
    st.borrow_mut().evs.clear();
    r.ok().flatten()
}

/// accesses of an event slice as the model counts them: tag 0/1 = read/write at an offset relative to the
/// configuration window (an access anywhere else keeps its distance from the window base, modulo 2^64, so it
/// can never look like an access inside), tag 2 = read of the generation register
fn enc_cfg_trace(evs: &[Ev], g: &Geo, only_cfg: bool) -> Vec<u128> {
    let mut o = vec![];
    for e in evs {
        if let Ev::Mmio { region, write, off, width, val } = e {
            let gen = !*write && ((g.tk != 2 && *region == R_HDR && *off == 0xfc) || (g.tk == 2 && *region == R_COMMON && *off == 21));
            if *region == R_CFG { o.extend([*write as u128, *off as u128, *width as u128, *val as u128]); }
            else if gen { o.extend([2, *off as u128, *width as u128, *val as u128]); }
            else {
                let abs = match *region { R_HDR => HBASE + g.delta + *off as usize, R_COMMON => PBASE + *off as usize, R_ISR => PBASE + 0x100 + *off as usize,
                    R_NOTIFY => PBASE + 0x200 + *off as usize, _ => *off as usize };
                if only_cfg && *region != u32::MAX { continue; }
                o.extend([*write as u128, abs.wrapping_sub(g.base()) as u128, *width as u128, *val as u128]);
            }
        }
    }
    o
}

// ---------------------------------------------------------------- typed access by (size, alignment)
pub const TYPES: [(u64, u64); 21] = [(0, 1), (1, 1), (2, 1), (2, 2), (3, 1), (4, 1), (4, 2), (4, 4), (5, 1), (6, 1), (6, 2), (7, 1), (8, 1), (8, 2),
    (8, 4), (8, 8), (10, 2), (12, 4), (16, 1), (16, 4), (16, 8)];
fn le(b: &[u8]) -> u128 { let mut v = 0u128; for (i, x) in b.iter().enumerate() { v |= (*x as u128) << (8 * i); } v }
fn rd<T: Transport, V: FromBytes + IntoBytes + Immutable>(t: &T, off: usize) -> Result<u128, Error> {
    t.read_config_space::<V>(off).map(|v| le(v.as_bytes()))
}
fn wr<T: Transport, V: FromBytes + IntoBytes + Immutable>(t: &mut T, off: usize, v: u128) -> Result<u128, Error> {
    let b = v.to_le_bytes();
    t.write_config_space::<V>(off, V::read_from_bytes(&b[..std::mem::size_of::<V>()]).unwrap()).map(|_| 0)
}
macro_rules! by_type { ($f:ident, $s:expr, $a:expr, $($x:expr),*) => { match ($s, $a) {
    (0, 1) => $f::<_, [u8; 0]>($($x),*), (1, 1) => $f::<_, u8>($($x),*), (2, 1) => $f::<_, [u8; 2]>($($x),*), (2, 2) => $f::<_, u16>($($x),*),
    (3, 1) => $f::<_, [u8; 3]>($($x),*), (4, 1) => $f::<_, [u8; 4]>($($x),*), (4, 2) => $f::<_, [u16; 2]>($($x),*), (4, 4) => $f::<_, u32>($($x),*),
    (5, 1) => $f::<_, [u8; 5]>($($x),*), (6, 1) => $f::<_, [u8; 6]>($($x),*), (6, 2) => $f::<_, [u16; 3]>($($x),*), (7, 1) => $f::<_, [u8; 7]>($($x),*),
    (8, 1) => $f::<_, [u8; 8]>($($x),*), (8, 2) => $f::<_, [u16; 4]>($($x),*), (8, 4) => $f::<_, [u32; 2]>($($x),*), (8, 8) => $f::<_, u64>($($x),*),
    (10, 2) => $f::<_, [u16; 5]>($($x),*), (12, 4) => $f::<_, [u32; 3]>($($x),*), (16, 1) => $f::<_, [u8; 16]>($($x),*),
    (16, 4) => $f::<_, [u32; 4]>($($x),*), (16, 8) => $f::<_, [u64; 2]>($($x),*),
    _ => panic!("harness: no type of size {} alignment {}", $s, $a) } } }
pub fn rd_dyn<T: Transport>(t: &T, s: u64, a: u64, off: usize) -> Result<u128, Error> { by_type!(rd, s, a, t, off) }
pub fn wr_dyn<T: Transport>(t: &mut T, s: u64, a: u64, off: usize, v: u128) -> Result<u128, Error> { by_type!(wr, s, a, t, off, v) }

pub fn class2(r: &std::thread::Result<Result<u128, Error>>) -> [u128; 2] {
    match r { Ok(Ok(v)) => [0, *v], Ok(Err(e)) => [1, err_code(e)], Err(_) => [2, 0] }
}

// ---------------------------------------------------------------- bounds
pub fn offsets(ctx: &mut Ctx, win: u64, s: u64) -> Vec<u64> {
    let mut v: Vec<u64> = (0..=9).collect();
    // inside the window, aligned for every type
    for k in 1..=6u64 { v.push((win / 7 * k) & !3); v.push((win.saturating_sub(s) / 5 * k) & !3); }
    v.extend([12, 16, 20, 24, 32, 60, 64, 128, 248, 252]);
    for d in 0..=3u64 { v.push(win.wrapping_sub(s).wrapping_sub(d)); v.push(win.wrapping_sub(s).wrapping_add(d)); }
    for d in 0..=2u64 { v.push(win.wrapping_sub(d)); v.push(win.wrapping_add(d)); }
    v.extend([win.wrapping_add(4), win.wrapping_mul(4), win / 4, 0xffff_fffc, 0xffff_ffff, 0x1_0000_0000, 1 << 63, (1 << 63) - 4, u64::MAX / 2]);
    for k in 0..=(s + 3).max(9) { v.push(u64::MAX - k); }
    v.extend([u64::MAX - 15, u64::MAX - 16, u64::MAX - 31, u64::MAX - 255]);
    for _ in 0..3 { v.push(ctx.rng.boundary(64)); }
    v.push(ctx.rng.below(win.max(1) + 8));
    v.sort(); v.dedup(); v
}

fn bounds_window(ctx: &mut Ctx, g: Geo, wrapped: bool, types: &[(u64, u64)]) {
    let st: St = Rc::new(RefCell::new(DevState::new(vec![], 0, g.gen_bits(), if g.tk == 0 { 1 } else { 2 }, 2, VERSION_1)));
    let Some(mut tp) = make(&g, &st, wrapped) else { ctx.tr.comment(&format!("C13: no transport for {:?}", g)); ctx.tr.line(1399, &[], &[0]); return };
    let win = if g.tk == 2 { 4 * g.wlen() } else { g.len };
    let mode = ctx.release as u128;
    for &(s, a) in types {
        for off in offsets(ctx, win, s) {
            // ---- read
            let answers: Vec<u64> = (0..16).map(|_| ctx.rng.boundary(64)).collect();
            st.borrow_mut().answers = Some(answers.iter().copied().collect());
            hal::take_log();
            let r = catch_unwind(AssertUnwindSafe(|| with_t!(&tp, t, rd_dyn(t, s, a, off as usize))));
            let tr = enc_cfg_trace(&hal::take_log(), &g, false);
            let c = class2(&r);
            let mut ins = vec![mode]; ins.extend(g.enc()); ins.extend([s as u128, a as u128, off as u128]); ins.extend(answers.iter().map(|x| *x as u128));
            let mut outs = c.to_vec(); outs.extend(&tr);
            ctx.tr.line(1301, &ins, &outs);
            let mut mi = g.enc().to_vec(); mi.extend([s as u128, a as u128, off as u128, c[0], c[1]]); mi.extend(&tr);
            ctx.tr.line(1302, &mi, &[1]);
            ctx.tr.note(match (c[0], c[1]) { (0, _) => "read_ok", (1, 9) => "read_too_small", (1, 10) => "read_missing", (1, _) => "read_other_error", _ => "read_panic" });
            if (off as u128) + (s as u128) > u64::MAX as u128 { ctx.tr.note("offset_plus_size_wraps"); }
            // ---- write
            let v: u128 = if s == 0 { 0 } else { (((ctx.rng.next() as u128) << 64) | ctx.rng.next() as u128) & (if s >= 16 { u128::MAX } else { (1u128 << (8 * s)) - 1 }) };
            hal::take_log();
            let r = catch_unwind(AssertUnwindSafe(|| with_t!(&mut tp, t, wr_dyn(t, s, a, off as usize, v))));
            let tr = enc_cfg_trace(&hal::take_log(), &g, false);
            let c = class2(&r);
            let mut ins = vec![mode]; ins.extend(g.enc()); ins.extend([s as u128, a as u128, off as u128, v]);
            let mut outs = c.to_vec(); outs.extend(&tr);
            ctx.tr.line(1303, &ins, &outs);
            let mut mi = g.enc().to_vec(); mi.extend([s as u128, a as u128, off as u128, v, c[0], c[1]]); mi.extend(&tr);
            ctx.tr.line(1304, &mi, &[1]);
            ctx.tr.note(match (c[0], c[1]) { (0, _) => "write_ok", (1, 9) => "write_too_small", (1, 10) => "write_missing", (1, _) => "write_other_error", _ => "write_panic" });
        }
    }
    st.borrow_mut().answers = None;
    let _ = catch_unwind(AssertUnwindSafe(move || drop(tp)));
    hal::take_log();
    crate::scen::common::ledger_line(ctx);
    ctx.tr.note(&format!("bounds_window_{}", g.name()));
}

// ---------------------------------------------------------------- multi-field reads
type Triple = (u64, u64, u64);
#[derive(Clone)]
struct Case { g: Geo, wrapped: bool, gen0: u32, cfg: Vec<u8>, sched: Vec<Vec<Vec<u8>>>, code: u8, params: Vec<Triple>, tail: Vec<Triple>, monitors: bool }

type Res = Result<Vec<u128>, Error>;
fn enc_res(r: &std::thread::Result<Res>) -> Vec<u128> {
    match r { Ok(Ok(v)) => { let mut o = vec![0, v.len() as u128]; o.extend(v); o } Ok(Err(e)) => vec![1, err_code(e)], Err(_) => vec![2, 0] }
}

/// replicas of the closures the drivers hand to read_consistent (the real drivers run in `user_case`)
fn closure<T: Transport>(t: &T, code: u8, params: &[Triple]) -> Res {
    match code {
        0 => Ok(vec![((t.read_config_space::<u32>(0)? as u64) | ((t.read_config_space::<u32>(4)? as u64) << 32)) as u128]),
        1 => Ok(vec![t.read_config_space::<u16>(0)? as u128, t.read_config_space::<u16>(2)? as u128]),
        2 => Ok(vec![le(&t.read_config_space::<[u8; 6]>(0)?)]),
        3 => {
            let tag_len: u16 = t.read_config_space(0)?;
            if tag_len == 0 { return Err(Error::InvalidParam); }
            let mut bytes = Vec::with_capacity(tag_len as usize);
            for idx in 0..tag_len as usize { let b: u8 = t.read_config_space(2 + idx)?; bytes.push(b); }
            // (`impl From<FromUtf8Error> for Error`, i.e. `?` here, exists only with the cargo feature `alloc`: same mapping)
            #[cfg(feature = "alloc")]
            { Ok(String::from_utf8(bytes)?.into_bytes().iter().map(|b| *b as u128).collect()) }
            #[cfg(not(feature = "alloc"))]
            { Ok(String::from_utf8(bytes).map_err(|_| Error::IoError)?.into_bytes().iter().map(|b| *b as u128).collect()) }
        }
        _ => { let mut v = vec![]; for (s, a, off) in params { v.push(rd_dyn(t, *s, *a, *off as usize)?); } Ok(v) }
    }
}

thread_local! { /// the register reads of the last case (the burst generator places its updates from those of a quiet run)
    static LAST_EVS: RefCell<Vec<[u128; 5]>> = const { RefCell::new(vec![]) }; }
fn case_lines(ctx: &mut Ctx, c: &Case, st: &St, res: &[u128], snaps: &[Vec<u8>], evs: &[[u128; 5]]) {
    LAST_EVS.with(|e| *e.borrow_mut() = evs.to_vec());
    let g = &c.g;
    let mode = ctx.release as u128;
    let cfglen = c.cfg.len() as u128;
    let mut clo = vec![c.code as u128, if c.code == 4 { 3 * c.params.len() as u128 } else { 0 }];
    if c.code == 4 { for (s, a, o) in &c.params { clo.extend([*s as u128, *a as u128, *o as u128]); } }
    let mut ins = vec![mode]; ins.extend(g.enc()); ins.extend([c.gen0 as u128 & st.borrow().gen_mask as u128, cfglen]);
    ins.extend(c.cfg.iter().map(|b| *b as u128));
    ins.push(c.sched.len() as u128);
    for sl in &c.sched { ins.push(sl.len() as u128); for img in sl { ins.extend(img.iter().map(|b| *b as u128)); } }
    ins.extend(&clo);
    ins.push(c.tail.len() as u128);
    for (s, a, o) in &c.tail { ins.extend([*s as u128, *a as u128, *o as u128]); }
    let mut outs = res.to_vec();
    for e in evs { outs.extend(&e[0..4]); }
    // the hypercall transport reads a value of size_of::<T>() bytes with ONE hypercall; the PCI case of the model splits as
    // safe-mmio does: the same accesses exactly for 1/2/4/8-byte fields (C13_hyp_read_is_pci_read); other closures (the
    // 6-byte MAC) are judged by the snapshot monitors alone
    let pow2 = |l: &[Triple]| l.iter().all(|(s, _, _)| matches!(*s, 1 | 2 | 4 | 8));
    let predicted = g.tk != 3 || (c.code != 2 && pow2(&c.params) && pow2(&c.tail));
    if predicted { ctx.tr.line(1310, &ins, &outs); } else { ctx.tr.note("rc_hyp_monitors_only"); }
    // net: `new` failed. Either read_consistent(mac) returned the error (also exercised without the later read in
    // the direct scenarios) or the plain read of `status` after it did (7-byte window; refused without any access):
    // what read_consistent returned is then not observable, so there is nothing for the snapshot monitors to judge
    let tail_failed = !c.tail.is_empty() && res[0] == 1;
    if tail_failed { ctx.tr.note("rc_value_hidden_by_later_error"); }
    if c.monitors && !tail_failed {
        let mut mi = vec![mode]; mi.extend(g.enc()); mi.extend([cfglen, snaps.len() as u128]);
        for s in snaps { mi.extend(s.iter().map(|b| *b as u128)); }
        mi.extend(&clo); mi.extend(res);
        mi.push(evs.len() as u128);
        for e in evs { mi.extend(e); }
        ctx.tr.line(1311, &mi, &[1]);
        ctx.tr.line(1312, &mi, &[1]);
    }
    let attempts = evs.iter().filter(|e| e[0] == 2).count() / 2;
    ctx.tr.note(match attempts { 0 => "rc_no_generation_reads", 1 => "rc_one_attempt", 2 => "rc_two_attempts", 3 => "rc_three_attempts", _ => "rc_four_or_more_attempts" });
    ctx.tr.note(match res[0] { 0 => "rc_ok", 1 => "rc_err", _ => "rc_panic" });
    if snaps.len() > 1 { ctx.tr.note("rc_device_changed_config_during_call"); }
    // anything touched outside every emulated window shows up in the ledger
    crate::scen::common::ledger_line(ctx);
}

fn new_state(c: &Case, device_id: u32, features: u64) -> St {
    let st = Rc::new(RefCell::new(DevState::new(c.cfg.clone(), c.gen0, c.g.gen_bits(), if c.g.tk == 0 { 1 } else { 2 }, device_id, features)));
    st
}

/// read_consistent called directly on the real transport; returns the number of register reads it made
fn rc_case(ctx: &mut Ctx, c: &Case) -> usize {
    let st = new_state(c, 2, VERSION_1);
    let Some(tp) = make(&c.g, &st, c.wrapped) else { ctx.tr.line(1399, &[], &[0]); return 0 };
    st.borrow_mut().sched = c.sched.iter().cloned().collect();
    let r = catch_unwind(AssertUnwindSafe(|| with_t!(&tp, t, {
        let v = t.read_consistent(|| closure(t, c.code, &c.params))?;
        for (s, a, off) in &c.tail { rd_dyn(t, *s, *a, *off as usize)?; }
        Ok(v)
    })));
    let (snaps, evs) = { let s = st.borrow(); (s.snaps.clone(), s.evs.clone()) };
    let _ = catch_unwind(AssertUnwindSafe(move || drop(tp)));
    case_lines(ctx, c, &st, &enc_res(&r), &snaps, &evs);
    ctx.tr.note(&format!("rc_direct_{}_closure{}", c.g.name(), c.code));
    evs.len()
}

/// the real driver: user 0 blk capacity, 1 vsock guest_cid, 2 console size, 3 net MAC, 4 9p mount tag
fn user_case(ctx: &mut Ctx, c: &Case, user: u8) -> usize {
    let (device_id, features) = match user { 0 => (2, VERSION_1), 1 => (19, VERSION_1), 2 => (3, VERSION_1 | 1), 3 => (1, VERSION_1 | (1 << 5)), _ => (9, VERSION_1) };
    let st = new_state(c, device_id, features);
    let Some(tp) = make(&c.g, &st, c.wrapped) else { ctx.tr.line(1399, &[], &[0]); return 0 };
    st.borrow_mut().sched = c.sched.iter().cloned().collect();
    fn go<T: Transport>(t: T, user: u8) -> Res {
        match user {
            0 => { let d = VirtIOBlk::<LedgerHal, T>::new(t)?; Ok(vec![d.capacity() as u128]) }
            #[cfg(feature = "alloc")]
            1 => { let d = VirtIOSocket::<LedgerHal, T, 512>::new(t)?; Ok(vec![d.guest_cid() as u128]) }
            #[cfg(feature = "alloc")]
            2 => { let d = VirtIOConsole::<LedgerHal, T>::new(t)?; let s = d.size()?.ok_or(Error::Unsupported)?; Ok(vec![s.columns as u128, s.rows as u128]) }
            3 => { let d = VirtIONetRaw::<LedgerHal, T, 4>::new(t)?; Ok(vec![le(&d.mac_address())]) }
            #[cfg(feature = "alloc")]
            _ => { let d = VirtIO9p::<LedgerHal, T>::new(t)?; Ok(d.mount_tag().as_bytes().iter().map(|b| *b as u128).collect()) }
            #[cfg(not(feature = "alloc"))]
            _ => Err(Error::Unsupported),
        }
    }
    let r = catch_unwind(AssertUnwindSafe(move || match tp { Tp::M(t) => go(t, user), Tp::P(t) => go(t, user), Tp::S(t) => go(t, user), Tp::H(t) => go(t, user) }));
    let (snaps, evs) = { let s = st.borrow(); (s.snaps.clone(), s.evs.clone()) };
    case_lines(ctx, c, &st, &enc_res(&r), &snaps, &evs);
    hal::take_log();
    ctx.tr.note(&format!("user_{}_{}", ["blk_capacity", "vsock_guest_cid", "console_size", "net_mac", "9p_mount_tag"][user as usize], c.g.name()));
    evs.len()
}

fn user_closure(user: u8) -> (u8, Vec<Triple>) { match user { 0 | 1 => (0, vec![]), 2 => (1, vec![]), 3 => (2, vec![(2, 2, 6)]), _ => (3, vec![]) } }

// ---------------------------------------------------------------- generators
const TAGS: [&[u8]; 14] = [b"a", b"hostshare", b"x9", b"caf\xc3\xa9", b"\xe2\x82\xac5", b"\xf0\x9f\x98\x80", b"\x80", b"\xc0\x80", b"\xed\xa0\x80",
    b"\xf4\x90\x80\x80", b"ab\xe2\x82", b"\xc3", b"\xef\xbf\xbf", b"\xf4\x8f\xbf\xbf"];

/// a configuration image of `n` bytes that is interesting for closure `code`
fn image(ctx: &mut Ctx, n: usize, code: u8) -> Vec<u8> {
    let mut v = ctx.rng.bytes(n);
    if code == 3 && n >= 2 {
        let tag: Vec<u8> = if ctx.rng.chance(3, 4) { TAGS[ctx.rng.below(TAGS.len() as u64) as usize].to_vec() } else { let k = ctx.rng.below(5) as usize; ctx.rng.bytes(k) };
        let l: u16 = match ctx.rng.below(10) { 0 => 0, 1 => (n as u16).saturating_sub(2) + ctx.rng.below(3) as u16, _ => tag.len() as u16 };
        v[0] = l as u8; v[1] = (l >> 8) as u8;
        for (i, b) in tag.iter().enumerate() { if 2 + i < n { v[2 + i] = *b; } }
    }
    v
}

fn geo_for(ctx: &mut Ctx, tk: u8, need: u64) -> Geo {
    let delta = if ctx.rng.chance(1, 2) { 0 } else { 4 };
    match tk {
        2 => { let present = !ctx.rng.chance(1, 12); Geo { tk, present, len: if present { (need + [0u64, 0, 1, 3, 4, 8][ctx.rng.below(6) as usize]).max(4) } else { 4 }, delta } }
        // the hypercall transport counts the region in bytes, the model's PCI case in words: lengths that are multiples of four
        3 => { let present = !ctx.rng.chance(1, 12); Geo { tk, present, len: if present { ((need + [0u64, 0, 1, 3, 4, 8][ctx.rng.below(6) as usize]) & !3).max(4) } else { 4 }, delta } }
        _ => Geo { tk, present: true, len: need + [0u64, 0, 0, 1, 4][ctx.rng.below(5) as usize], delta },
    }
}
/// bytes the closure needs; sometimes a window that is too small for its last field
fn need_for(ctx: &mut Ctx, code: u8) -> u64 {
    let full = match code { 0 => 8, 1 => 4, 2 => 8, 3 => 12, _ => 16 };
    if ctx.rng.chance(1, 8) { ctx.rng.range(1, full) } else { full }
}
fn random_params(ctx: &mut Ctx, code: u8) -> Vec<Triple> {
    if code != 4 { return vec![]; }
    let k = ctx.rng.range(1, 4);
    (0..k).map(|_| { let (s, a) = TYPES[ctx.rng.below(TYPES.len() as u64) as usize]; let off = ctx.rng.below(14); (s, a, if ctx.rng.chance(5, 6) { off - off % a.min(4) } else { off }) }).collect()
}

fn base_case(ctx: &mut Ctx, tk: u8, code: u8) -> Case {
    let need = need_for(ctx, code);
    let g = geo_for(ctx, tk, need);
    let n = g.len as usize;
    let gen0 = match ctx.rng.below(4) { 0 => 0, 1 => u32::MAX, 2 => 0xff, _ => ctx.rng.next() as u32 };
    // the hypercall transport is run directly and as SomeTransport::HypPci equally often (only the former could override the loop)
    Case { g, wrapped: if tk == 3 { ctx.rng.chance(1, 2) } else { ctx.rng.chance(1, 4) }, gen0, cfg: image(ctx, n, code), sched: vec![], code, params: random_params(ctx, code), tail: vec![], monitors: tk != 0 }
}

fn rc_scenarios(ctx: &mut Ctx, users: bool) { rc_scenarios_on(ctx, users, if users { &[1, 2] } else { &[1, 2, 0] }) }
fn rc_scenarios_on(ctx: &mut Ctx, users: bool, tks: &[u8]) {
    let run = |ctx: &mut Ctx, c: &Case, user: u8| -> usize { if users { user_case(ctx, c, user) } else { rc_case(ctx, c) } };
    let kinds: Vec<u8> = vec![0, 1, 2, 3, 4];   // users: which driver; direct: which closure
    for &tk in tks {
        for &k in &kinds {
            // the vsock, console and 9p drivers exist only with the cargo feature `alloc`
            if users && !cfg!(feature = "alloc") && k != 0 && k != 3 { continue; }
            let (code, tail) = if users { user_closure(k) } else { (k, vec![]) };
            // quiet device first: how many register reads one attempt makes
            let mut c0 = base_case(ctx, tk, code);
            c0.tail = tail.clone();
            if c0.g.tk >= 2 { c0.g.present = true; c0.g.len = c0.g.len.max(16); c0.cfg = image(ctx, c0.g.len as usize, code); }
            if c0.g.tk != 2 && (c0.g.len as usize) < 12 { c0.g.len = 12; c0.cfg = image(ctx, 12, code); }
            let n = run(ctx, &c0, k).min(14);
            // every single placement, then every pair of placements, of an update among the reads of the first attempt
            let cl = c0.cfg.len();
            for i in 0..=n {
                let mut c = c0.clone();
                c.sched = vec![vec![]; i]; c.sched.push(vec![image(ctx, cl, code)]);
                run(ctx, &c, k);
            }
            let pairs = ctx.budget(if users { 12 } else { 24 }, 8);
            let mut done = 0;
            'p: for i in 0..=n { for j in i..=n + 2 {
                if done >= pairs { break 'p; }
                // spread the budget over the whole triangle
                if !ctx.tier_thorough && ctx.rng.chance(1, 2) { continue; }
                let mut c = c0.clone();
                c.sched = vec![vec![]; j + 1];
                c.sched[i].push(image(ctx, cl, code));
                c.sched[j].push(image(ctx, cl, code));
                run(ctx, &c, k); done += 1;
            } }
            // random windows, images and schedules
            let m = ctx.budget(if users { 10 } else { 30 }, 10);
            for _ in 0..m {
                let mut c = base_case(ctx, tk, code);
                c.tail = tail.clone();
                let cl = c.cfg.len();
                let slots = ctx.rng.range(0, 16) as usize;
                for _ in 0..slots {
                    let k = match ctx.rng.below(20) { 0..=12 => 0, 13..=17 => 1, 18 => 2, _ => 3 };
                    // an image is either new or a repetition of the initial one (A-B-A histories)
                    let imgs = (0..k).map(|_| if ctx.rng.chance(1, 5) { c.cfg.clone() } else { image(ctx, cl, code) }).collect();
                    c.sched.push(imgs);
                }
                run(ctx, &c, k);
            }
        }
    }
}

/// the width of the generation counter. PCI (8 bits): 255 / 256 / 257 / 512 updates between the two halves of one
/// attempt; with a multiple of 256 the generation read after the closure equals the one before it although the
/// memory changed: the hypothesis "fewer than 2^8 changes inside one attempt" of the untorn theorem is necessary
/// (correspondence lines only, no monitors). Every smaller power of two (a narrower counter would wrap there) must
/// be noticed, on both transports, wrapped in SomeTransport or not: monitors on.
fn wrap_cases(ctx: &mut Ctx, hyp: bool) {
    let mut ns: Vec<(u8, usize)> = vec![(2, 255), (2, 256), (2, 257), (2, 512)];
    for k in 1..8 { ns.push((2, 1 << k)); }
    for k in [1usize, 4, 8, 10, 12] { ns.push((1, 1 << k)); }
    if ctx.tier_thorough { ns.push((1, 1 << 13)); ns.push((2, 1 << 13)); }   // (lines of more than ~10^5 numbers overflow the stack of the runner)
    // the hypercall transport: the same one-byte counter
    if hyp { ns = vec![(3, 255), (3, 256), (3, 257), (3, 512)]; for k in 1..8 { ns.push((3, 1 << k)); } }
    for (tk, n) in ns {
        for code in [0u8, 2] {
            for wrapped in [false, true] {
                let g = Geo { tk, present: true, len: 8, delta: 0 };
                let cfg = vec![0x11u8; 8];
                let imgs: Vec<Vec<u8>> = (0..n).map(|i| vec![(0x22 + (i % 200)) as u8; 8]).collect();
                // slot 0: first generation read, slot 1: first window read, slot 2: second window read
                let wraps = tk >= 2 && n % 256 == 0;
                let c = Case { g, wrapped, gen0: ctx.rng.next() as u32, cfg, sched: vec![vec![], vec![], imgs], code, params: vec![], tail: vec![], monitors: !wraps };
                rc_case(ctx, &c);
                ctx.tr.note(if wraps { "pci_generation_wraps_inside_attempt" } else { "many_updates_inside_attempt" });
            }
        }
    }
}

/// the part of C13 that is about a misbehaving device (run under C07 as well): every configuration-space access a
/// driver makes with device-chosen offsets / lengths stays inside the window (9p tag length, net / blk / vsock /
/// console fields on windows of every length), on both transports
pub fn run_device_chosen(ctx: &mut Ctx) {
    ctx.tr.scenario("c13-bounds-mmio");
    let few: Vec<(u64, u64)> = vec![(1, 1), (2, 2), (4, 4), (6, 1), (8, 4), (8, 8), (12, 4), (16, 1)];
    for (i, len) in [0u64, 1, 2, 3, 4, 5, 6, 7, 8, 9, 12, 16, 17, 255, 256].iter().enumerate() {
        bounds_window(ctx, Geo { tk: 1, present: true, len: *len, delta: if i % 2 == 0 { 0 } else { 4 } }, i % 5 == 4, &few);
    }
    ctx.tr.scenario("c13-bounds-pci");
    for (i, len) in [4u64, 5, 6, 7, 8, 9, 11, 12, 16, 17].iter().enumerate() {
        bounds_window(ctx, Geo { tk: 2, present: true, len: *len, delta: if i % 2 == 0 { 0 } else { 4 } }, i % 5 == 3, &few);
    }
    ctx.tr.scenario("c13-users");
    rc_scenarios(ctx, true);
}

pub fn run(ctx: &mut Ctx) {
    // ---- bounds and alignment of single accesses
    ctx.tr.scenario("c13-bounds-mmio");
    let all = TYPES.to_vec();
    let few: Vec<(u64, u64)> = vec![(1, 1), (2, 2), (4, 4), (6, 1), (8, 4), (8, 8), (12, 4), (16, 1)];
    let mmio_lens: [u64; 20] = [0, 1, 2, 3, 4, 5, 6, 7, 8, 9, 12, 15, 16, 17, 24, 64, 255, 256, 4096, 1 << 32];
    for (i, len) in mmio_lens.iter().enumerate() {
        let g = Geo { tk: 1, present: true, len: *len, delta: if i % 2 == 0 { 0 } else { 4 } };
        bounds_window(ctx, g, i % 5 == 4, if ctx.tier_thorough || i % 3 == 1 { &all } else { &few });
    }
    for (i, len) in [0u64, 4, 6, 8, 16, 100].iter().enumerate() {
        bounds_window(ctx, Geo { tk: 0, present: true, len: *len, delta: if i % 2 == 0 { 4 } else { 0 } }, i % 3 == 2, if i == 3 { &all } else { &few });
    }
    for _ in 0..ctx.budget(4, 10) {
        let len = match ctx.rng.below(3) { 0 => ctx.rng.below(40), 1 => ctx.rng.boundary(20), _ => ctx.rng.boundary(40) };
        let g = Geo { tk: 1, present: true, len, delta: 4 * ctx.rng.below(2) as usize };
        let wrapped = ctx.rng.chance(1, 3);
        bounds_window(ctx, g, wrapped, &few);
    }
    ctx.tr.scenario("c13-bounds-pci");
    let pci_lens: [u64; 16] = [4, 5, 6, 7, 8, 9, 11, 12, 16, 17, 19, 20, 64, 255, 256, 4096];
    for (i, len) in pci_lens.iter().enumerate() {
        let g = Geo { tk: 2, present: true, len: *len, delta: if i % 2 == 0 { 0 } else { 4 } };
        bounds_window(ctx, g, i % 5 == 3, if ctx.tier_thorough || i % 3 == 0 { &all } else { &few });
    }
    bounds_window(ctx, Geo { tk: 2, present: false, len: 4, delta: 0 }, false, &all);
    bounds_window(ctx, Geo { tk: 2, present: false, len: 4, delta: 0 }, true, &few);
    for _ in 0..ctx.budget(3, 10) {
        let top = if ctx.rng.chance(1, 2) { 40 } else { 0xe_0000 };
        let g = Geo { tk: 2, present: true, len: 4 + ctx.rng.below(top), delta: 4 * ctx.rng.below(2) as usize };
        let wrapped = ctx.rng.chance(1, 3);
        bounds_window(ctx, g, wrapped, &few);
    }
    // ---- multi-field reads
    ctx.tr.scenario("c13-read-consistent");
    rc_scenarios(ctx, false);
    ctx.tr.scenario("c13-generation-wrap");
    wrap_cases(ctx, false);
    ctx.tr.scenario("c13-users");
    rc_scenarios(ctx, true);
}

// ---------------------------------------------------------------- bursts: an update in each of several consecutive attempts
/// an image that keeps the closure's shape (9p: the same tag length, a well-formed tag, so that every image evaluates to a
/// value of its own and a mixture of two images is recognisable)
fn burst_image(ctx: &mut Ctx, c0: &Case) -> Vec<u8> {
    let mut v = ctx.rng.bytes(c0.cfg.len());
    if c0.code == 3 && v.len() >= 2 {
        v[0] = c0.cfg[0]; v[1] = c0.cfg[1];
        let l = (u16::from_le_bytes([v[0], v[1]]) as usize).min(v.len() - 2);
        for i in 0..l { v[2 + i] = b'a' + (ctx.rng.below(26) as u8); }
    }
    v
}
/// For every driver / closure: a quiet run tells where the attempts lie among the scheduled reads (first generation read at
/// slot `start`, `period` reads per attempt); then for b = 1..12 one update in each of b consecutive attempts, (a) at the same
/// position j inside every attempt, for every j (before the first generation read, before each individual field read, before
/// the second generation read), (b) at a random position inside each attempt.  A loop that gives up after k attempts and
/// returns the last value is caught by the bursts of length >= k whose last update falls between two field reads.
fn burst_scenarios(ctx: &mut Ctx, users: bool, tks: &[u8]) {
    let run = |ctx: &mut Ctx, c: &Case, user: u8| -> usize { if users { user_case(ctx, c, user) } else { rc_case(ctx, c) } };
    for &tk in tks {
        for k in 0u8..5 {
            if users && !cfg!(feature = "alloc") && k != 0 && k != 3 { continue; }
            for wrapped in [false, true] {
                let (code, tail) = if users { user_closure(k) } else { (k, vec![]) };
                let mut c0 = base_case(ctx, tk, code);
                c0.tail = tail; c0.wrapped = wrapped;
                c0.g.present = true; c0.g.len = 16; c0.g.delta = if wrapped { 4 } else { 0 };
                c0.cfg = image(ctx, 16, code);
                if code == 3 { let l = ctx.rng.range(1, 4) as u8; c0.cfg[0] = l; c0.cfg[1] = 0; c0.cfg = burst_image(ctx, &c0); }
                if code == 4 {
                    // two to four fields of 1 / 2 / 4 / 8 bytes inside the window
                    let n = ctx.rng.range(2, 4);
                    c0.params = (0..n).map(|_| { let (s, a) = *ctx.rng.pick(&[(1u64, 1u64), (2, 2), (2, 1), (4, 4), (4, 1), (8, 4), (8, 1)]); let off = ctx.rng.below(16 - s + 1); (s, a, off - off % a) }).collect();
                }
                // quiet device: where the attempts lie
                run(ctx, &c0, k);
                let gens: Vec<usize> = LAST_EVS.with(|e| e.borrow().iter().enumerate().filter(|(_, e)| e[0] == 2).map(|(i, _)| i).collect());
                if gens.len() < 2 { ctx.tr.note("burst_no_generation_reads"); continue; }
                let (start, period) = (gens[0], gens[1] - gens[0] + 1);
                for b in 1..=12usize {
                    // (a) the same position in every attempt
                    for j in 0..period {
                        if !ctx.tier_thorough && period > 6 && !(j < 3 || j + 2 >= period || ctx.rng.chance(1, 3)) { continue; }
                        let mut c = c0.clone();
                        c.sched = vec![vec![]; start + b * period];
                        for a in 0..b { let img = burst_image(ctx, &c0); c.sched[start + a * period + j].push(img); }
                        run(ctx, &c, k);
                        ctx.tr.note(&format!("burst_of_{}", b));
                    }
                    // (b) a random position inside each attempt (never before its first generation read)
                    let mut c = c0.clone();
                    c.sched = vec![vec![]; start + b * period];
                    for a in 0..b { let j = ctx.rng.range(1, period as u64 - 1) as usize; let img = burst_image(ctx, &c0); c.sched[start + a * period + j].push(img); }
                    run(ctx, &c, k);
                    ctx.tr.note(&format!("burst_of_{}", b));
                }
            }
        }
    }
}

/// C13 over the x86-64 hypercall transport (`HypPciTransport`, directly and as `SomeTransport::HypPci`)
pub fn run_hyp(ctx: &mut Ctx) {
    ctx.tr.scenario("c13-hyp-read-consistent");
    rc_scenarios_on(ctx, false, &[3]);
    ctx.tr.scenario("c13-hyp-bursts-direct");
    burst_scenarios(ctx, false, &[3]);
    ctx.tr.scenario("c13-hyp-generation-wrap");
    wrap_cases(ctx, true);
    ctx.tr.scenario("c13-hyp-users");
    rc_scenarios_on(ctx, true, &[3]);
    ctx.tr.scenario("c13-hyp-bursts-users");
    burst_scenarios(ctx, true, &[3]);
}
