//! C06: queue creation / registration / release over the whole finite configuration space:
//! 16 sizes x {modern, legacy} x 8 flag sets x (in-use, max-size) answers x failing allocation index,
//! plus the pure layout functions on a dense grid through the hook wrappers.
use crate::hal::{self, Ev, LedgerHal};
use crate::scen::common::*;
use crate::tport::{ModelTransport, TState};
use crate::Ctx;
use std::panic::{catch_unwind, AssertUnwindSafe};
use virtio_drivers::queue::VirtQueue;
use virtio_drivers::transport::DeviceType;

fn case<const N: usize>(ctx: &mut Ctx, legacy: bool, flags: u8, idx: u16, in_use: bool, maxsz: u32, fail_at: Option<usize>) {
    hal::reset();
    hal::fail_alloc_at(fail_at);
    let mut st = TState::new(DeviceType::Block, 0, 4, maxsz);
    st.legacy = legacy;
    st.pretend_used = in_use;
    let (mut t, _st) = ModelTransport::new(st);
    let (indirect, event_idx, ap) = (flags & 1 != 0, flags & 2 != 0, flags & 4 != 0);
    let r = catch_unwind(AssertUnwindSafe(|| VirtQueue::<LedgerHal, N>::new(&mut t, idx, indirect, event_idx, ap).map(Box::new)));
    let log_new = hal::take_log();
    let allocs: Vec<u64> = log_new.iter().filter_map(|e| if let Ev::Alloc { paddr, .. } = e { Some(*paddr) } else { None }).collect();
    let a1 = allocs.first().copied().unwrap_or(0x1000);
    let a2 = allocs.get(1).copied().unwrap_or(0x3000);
    let mut outs: Vec<u128> = enc_result(&r, |_| 0).to_vec();
    outs.extend(enc_layout_events(&log_new));
    outs.push(99);
    let qs = log_new.iter().find_map(|e| if let Ev::QueueSet { desc, drv, dev, nonzero, .. } = e { Some((*desc, *drv, *dev, *nonzero)) } else { None });
    let regsize = log_new.iter().find_map(|e| if let Ev::QueueSet { size, .. } = e { Some(*size) } else { None }).unwrap_or(0);
    // MONITOR 613: a creation the transport's answers forbid (queue in use, or smaller than requested) is refused
    // without allocating or registering anything; a successful creation registers exactly the requested size
    let n_alloc = log_new.iter().filter(|e| matches!(e, Ev::Alloc { .. })).count();
    let n_set = log_new.iter().filter(|e| matches!(e, Ev::QueueSet { .. })).count();
    let cls = enc_result(&r, |_| 0);
    ctx.tr.line(613, &[(in_use || (maxsz as u64) < N as u64) as u128, cls[0], n_alloc as u128, n_set as u128, regsize as u128, N as u128], &[1]);
    let mut extra: Option<(Vec<u128>, Vec<u128>)> = None;
    if let (Ok(Ok(_)), Some((desc, drv, dev, nonzero))) = (&r, qs) {
        // device-visible descriptor table after construction: next links i -> i+1, everything else zero
        let mut links_ok = 0u128; let mut other = 0u128;
        if let Ok(tbl) = hal::dev_read(desc, 16 * N) {
            for i in 0..N {
                let d = &tbl[16 * i..16 * i + 16];
                other += d[..14].iter().filter(|b| **b != 0).count() as u128;
                let next = u16::from_le_bytes([d[14], d[15]]) as usize;
                if i + 1 < N { if next == i + 1 { links_ok += 1; } } else if next != 0 { other += 1; }
            }
        } else { other = 999_999; }
        ctx.tr.line(611, &[N as u128], &[nonzero as u128, links_ok, other]);
        // the monitor: the property's predicate evaluated on what the implementation registered
        let r1 = hal::region_of(desc, 1).unwrap_or((0, 0, 9));
        let r2 = hal::region_of(dev, 1).unwrap_or((0, 0, 9));
        extra = Some((vec![legacy as u128, N as u128, desc as u128, drv as u128, dev as u128,
                           r1.0 as u128, r1.1 as u128, r2.0 as u128, r2.1 as u128, r1.2 as u128, r2.2 as u128], vec![1]));
    }
    if let Ok(Ok(q)) = r {
        let _ = catch_unwind(AssertUnwindSafe(move || drop(q)));
        outs.extend(enc_layout_events(&hal::take_log()));
    }
    ctx.tr.line(610, &[legacy as u128, N as u128, idx as u128, in_use as u128, maxsz as u128, a1 as u128, a2 as u128], &outs);
    if let Some((i, o)) = extra { ctx.tr.line(612, &i, &o); }
    drop(t);
    // nothing may stay allocated
    ctx.tr.line(2, &[], &[hal::live_regions() as u128]);
    ledger_line(ctx);
    ctx.tr.note(&format!("size_{}", N));
    ctx.tr.note(if legacy { "legacy" } else { "modern" });
    match fail_at { Some(k) => ctx.tr.note(&format!("fail_alloc_{}", k)), None => ctx.tr.note("no_fault") }
}

macro_rules! all_sizes { ($f:ident, $ctx:expr, $($a:expr),*) => {{
    $f::<1>($ctx, $($a),*); $f::<2>($ctx, $($a),*); $f::<4>($ctx, $($a),*); $f::<8>($ctx, $($a),*);
    $f::<16>($ctx, $($a),*); $f::<32>($ctx, $($a),*); $f::<64>($ctx, $($a),*); $f::<128>($ctx, $($a),*);
    $f::<256>($ctx, $($a),*); $f::<512>($ctx, $($a),*); $f::<1024>($ctx, $($a),*); $f::<2048>($ctx, $($a),*);
    $f::<4096>($ctx, $($a),*); $f::<8192>($ctx, $($a),*); $f::<16384>($ctx, $($a),*); $f::<32768>($ctx, $($a),*);
}}}

fn per_size<const N: usize>(ctx: &mut Ctx, legacy: bool) {
    let n = N as u32;
    for flags in 0..8u8 {
        let idx = (flags as u16) % 3;
        // (in_use, maxsz) answers
        for (in_use, maxsz) in [(true, n), (true, 0), (false, 0), (false, n.saturating_sub(1)), (false, n), (false, 2 * n), (false, u32::MAX)] {
            case::<N>(ctx, legacy, flags, idx, in_use, maxsz, None);
        }
        // every failing allocation index (and one beyond the last allocation)
        for k in 0..3 { case::<N>(ctx, legacy, flags, idx, false, n, Some(k)); }
    }
}

/// creation with a refused DMA allocation at each point, both layouts (also run under C04: the device is only ever
/// given addresses obtained from DMA allocation, in particular never the null address of a refused allocation)
pub fn run_alloc_faults(ctx: &mut Ctx) {
    ctx.tr.scenario("c06-alloc-faults");
    for legacy in [false, true] {
        for fail_at in [Some(0usize), Some(1), None] {
            for flags in [0u8, 1, 7] {
                case::<1>(ctx, legacy, flags, 0, false, 1024, fail_at);
                case::<8>(ctx, legacy, flags, 1, false, 1024, fail_at);
                case::<256>(ctx, legacy, flags, 0, false, 1024, fail_at);
            }
        }
    }
}

pub fn run(ctx: &mut Ctx) {
    ctx.tr.scenario("c06-pure");
    // pure functions through the hook wrappers, dense grid around page multiples
    let mut xs: Vec<usize> = (0..=3 * 4096 + 2).collect();
    for k in [16usize, 20, 24, 31, 32, 40] { for d in 0..6 { xs.push((1usize << k) + d * 1365); xs.push((1usize << k) - d * 1365 - 1); } }
    let extra = ctx.budget(2000, 20);
    for _ in 0..extra { xs.push((ctx.rng.next() >> ctx.rng.range(8, 40)) as usize); }
    for x in xs {
        ctx.tr.line(601, &[x as u128], &[virtio_drivers::verif::align_up(x) as u128]);
        ctx.tr.line(602, &[x as u128], &[virtio_drivers::verif::pages(x) as u128]);
    }
    for k in 0..16 {
        let n = 1u16 << k;
        let (d, a, u) = virtio_drivers::queue::verif_queue_part_sizes(n);
        ctx.tr.line(603, &[n as u128], &[d as u128, a as u128, u as u128]);
    }
    ctx.tr.scenario("c06-modern");
    all_sizes!(per_size, ctx, false);
    ctx.tr.scenario("c06-legacy");
    all_sizes!(per_size, ctx, true);
}
