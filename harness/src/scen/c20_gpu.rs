//! C20 (GPU part): the real `VirtIOGpu<LedgerHal, ModelTransport>` in lock-step with Model/Gpu.v + Model/Edid.v.
//!  * reference GPU (`RefGpu`): finds every request through device addresses only (hal::dev_read / dev_write),
//!    decodes it with its own decoder written from VirtIO 1.2 section 5.7.6, keeps resources / backing / scanout
//!    like a conforming device, answers with success, with each error code, with a wrong success type, or
//!    completes with a foreign token; it is run from Transport::notify and from the busy-wait hook (site 0);
//!  * every public operation is one trace line (kinds 2000..2011): inputs = parameters + every environment
//!    answer (receive-buffer bytes per request, dma_alloc address), outputs = result + ordered effects;
//!  * monitors 2020..2026 evaluate the property on what the implementation did: wire format of each request
//!    against the caller's parameters, command sequence per operation, error propagation, backing-memory
//!    ownership over a whole driver life, returned values (resolution, EDID modes) against the device's data.
use crate::hal::{self, Ev, LedgerHal};
use crate::scen::common::*;
use crate::scen::qrig::QAddr;
use crate::tport::{ModelTransport, TState};
use crate::Ctx;
use std::cell::RefCell;
use std::collections::HashMap;
use std::panic::{catch_unwind, AssertUnwindSafe};
use std::rc::Rc;
use virtio_drivers::device::gpu::{Edid, VirtIOGpu};
use virtio_drivers::transport::DeviceType;
use virtio_drivers::verif::Event;
use virtio_drivers::Error;

type Gpu = VirtIOGpu<LedgerHal, ModelTransport>;
const QN: usize = 2;
const F_VIRGL: u64 = 1 << 0;
const F_EDID: u64 = 1 << 1;
const F_IND: u64 = 1 << 28;
const F_EV: u64 = 1 << 29;
const F_V1: u64 = 1 << 32;
const F_AP: u64 = 1 << 33;

// ------------------------------------------------------------------------------------------------
// Specification side (VirtIO 1.2, 5.7.6): decoder, type numbers, structure sizes
const T_GET_DISPLAY_INFO: u32 = 0x100;
const T_CREATE_2D: u32 = 0x101;
const T_UNREF: u32 = 0x102;
const T_SET_SCANOUT: u32 = 0x103;
const T_FLUSH: u32 = 0x104;
const T_TRANSFER: u32 = 0x105;
const T_ATTACH: u32 = 0x106;
const T_DETACH: u32 = 0x107;
const T_GET_EDID: u32 = 0x10a;
const T_UPDATE_CURSOR: u32 = 0x300;
const T_MOVE_CURSOR: u32 = 0x301;
const R_OK_NODATA: u32 = 0x1100;
const R_OK_DISPLAY_INFO: u32 = 0x1101;
const R_OK_EDID: u32 = 0x1104;
const R_ERR_UNSPEC: u32 = 0x1200;
const R_ERR_INVALID_SCANOUT_ID: u32 = 0x1202;
const R_ERR_INVALID_RESOURCE_ID: u32 = 0x1203;
const R_ERR_INVALID_PARAMETER: u32 = 0x1205;

#[derive(Clone, Debug, PartialEq)]
pub enum Cmd {
    GetDisplayInfo,
    Create2D { rid: u32, format: u32, w: u32, h: u32 },
    Unref { rid: u32, pad: u32 },
    SetScanout { x: u32, y: u32, w: u32, h: u32, scanout: u32, rid: u32 },
    Flush { x: u32, y: u32, w: u32, h: u32, rid: u32, pad: u32 },
    Transfer { x: u32, y: u32, w: u32, h: u32, offset: u64, rid: u32, pad: u32 },
    Attach { rid: u32, nr: u32, entries: Vec<(u64, u32, u32)> },
    Detach { rid: u32, pad: u32 },
    GetEdid { scanout: u32, pad: u32 },
    Cursor { mv: bool, scanout: u32, x: u32, y: u32, ppad: u32, rid: u32, hot_x: u32, hot_y: u32, pad: u32 },
    Unknown(u32),
}
fn le32(b: &[u8], off: usize) -> u32 { u32::from_le_bytes(b[off..off + 4].try_into().unwrap()) }
fn le64(b: &[u8], off: usize) -> u64 { u64::from_le_bytes(b[off..off + 8].try_into().unwrap()) }
/// size of the command structure that starts these bytes (24 when the type is unknown)
fn cmd_size(b: &[u8]) -> usize {
    if b.len() < 24 { return b.len(); }
    match le32(b, 0) {
        T_GET_DISPLAY_INFO => 24, T_CREATE_2D => 40, T_UNREF | T_DETACH | T_GET_EDID => 32, T_SET_SCANOUT | T_FLUSH => 48,
        T_TRANSFER | T_UPDATE_CURSOR | T_MOVE_CURSOR => 56,
        T_ATTACH => if b.len() >= 32 { 32 + 16 * (le32(b, 28).min(16) as usize) } else { 32 },
        _ => 24,
    }
}
fn decode(b: &[u8]) -> Option<Cmd> {
    if b.len() < 24 || b.len() < cmd_size(b) { return None; }
    Some(match le32(b, 0) {
        T_GET_DISPLAY_INFO => Cmd::GetDisplayInfo,
        T_CREATE_2D => Cmd::Create2D { rid: le32(b, 24), format: le32(b, 28), w: le32(b, 32), h: le32(b, 36) },
        T_UNREF => Cmd::Unref { rid: le32(b, 24), pad: le32(b, 28) },
        T_SET_SCANOUT => Cmd::SetScanout { x: le32(b, 24), y: le32(b, 28), w: le32(b, 32), h: le32(b, 36), scanout: le32(b, 40), rid: le32(b, 44) },
        T_FLUSH => Cmd::Flush { x: le32(b, 24), y: le32(b, 28), w: le32(b, 32), h: le32(b, 36), rid: le32(b, 40), pad: le32(b, 44) },
        T_TRANSFER => Cmd::Transfer { x: le32(b, 24), y: le32(b, 28), w: le32(b, 32), h: le32(b, 36), offset: le64(b, 40), rid: le32(b, 48), pad: le32(b, 52) },
        T_ATTACH => { let nr = le32(b, 28); if nr > 16 { return None; }
            Cmd::Attach { rid: le32(b, 24), nr, entries: (0..nr as usize).map(|i| (le64(b, 32 + 16 * i), le32(b, 40 + 16 * i), le32(b, 44 + 16 * i))).collect() } }
        T_DETACH => Cmd::Detach { rid: le32(b, 24), pad: le32(b, 28) },
        T_GET_EDID => Cmd::GetEdid { scanout: le32(b, 24), pad: le32(b, 28) },
        t @ (T_UPDATE_CURSOR | T_MOVE_CURSOR) => Cmd::Cursor { mv: t == T_MOVE_CURSOR, scanout: le32(b, 24), x: le32(b, 28), y: le32(b, 32), ppad: le32(b, 36),
            rid: le32(b, 40), hot_x: le32(b, 44), hot_y: le32(b, 48), pad: le32(b, 52) },
        t => Cmd::Unknown(t),
    })
}
fn expected_ok(c: &Cmd) -> Option<u32> {
    match c { Cmd::GetDisplayInfo => Some(R_OK_DISPLAY_INFO), Cmd::GetEdid { .. } => Some(R_OK_EDID), Cmd::Cursor { .. } => None, _ => Some(R_OK_NODATA) }
}

#[derive(Clone, Copy, Debug, PartialEq)]
pub enum Ans { Conform, Force(u32), WrongToken }

#[derive(Clone, Debug)]
pub struct Res { pub w: u32, pub h: u32, pub backing: Option<(u64, u32)> }

#[derive(Clone, Debug)]
pub struct Recv {
    pub q: u8,
    pub pos: usize,                 // hal log length when the device fetched it
    pub shape: Vec<(u32, bool)>,
    pub bytes: Vec<u8>,             // the first cmd_size device-readable bytes
    pub cmd: Option<Cmd>,
    pub resp_type: u32,
    pub resp: Vec<u8>,              // what the device wrote (control queue)
    pub wrong_token: bool,
    pub bevs: Vec<[u128; 4]>,       // resource events of a successfully answered command
}

pub struct RefGpu {
    pub qa: [QAddr; 2], pub seen: [u16; 2], pub used: [u16; 2], pub event_idx: bool,
    pub res: HashMap<u32, Res>, pub scanout: Option<u32>, pub num_scanouts: u32,
    pub modes: Vec<(u32, u32, u32, u32, u32, u32)>, pub edid: Vec<u8>, pub edid_size: u32,
    pub script: Vec<Ans>, pub recv: Vec<Recv>, pub image_seen: Option<Vec<u8>>,
    pub active: bool, pub spins: u32, pub serve_after: u32, pub serve_on_notify: bool, pub problems: Vec<String>,
    /// a device that takes RESOURCE_CREATE_2D with an id already in use as a re-creation (the old resource and its attachment
    /// are gone) instead of refusing it: the specification leaves resource ids to the guest and does not say
    pub dup_replace: bool,
}

fn rd_desc(b: &[u8]) -> (u64, u32, u16, u16) {
    (u64::from_le_bytes(b[0..8].try_into().unwrap()), u32::from_le_bytes(b[8..12].try_into().unwrap()),
     u16::from_le_bytes([b[12], b[13]]), u16::from_le_bytes([b[14], b[15]]))
}

impl RefGpu {
    fn new(qa: [QAddr; 2], event_idx: bool) -> Self {
        RefGpu { qa, seen: [0; 2], used: [0; 2], event_idx, res: HashMap::new(), scanout: None, num_scanouts: 16,
            modes: vec![(0, 0, 1280, 800, 1, 0)], edid: vec![0; 1024], edid_size: 0, script: vec![], recv: vec![], image_seen: None,
            active: false, spins: 0, serve_after: 1, serve_on_notify: true, problems: vec![], dup_replace: false }
    }
    /// 2.7.5: follow the chain (direct, or through an indirect table)
    fn walk(&self, q: usize, head: u16) -> Option<Vec<(u64, u32, bool)>> {
        let a = &self.qa[q]; let mut els = vec![];
        if head as usize >= QN { return None; }
        let (addr, len, flags, _) = rd_desc(&hal::dev_read(a.desc + 16 * head as u64, 16).ok()?);
        if flags & 4 != 0 {
            if flags & 3 != 0 || len % 16 != 0 || len == 0 { return None; }
            let tbl = hal::dev_read(addr, len as usize).ok()?; let n = len as usize / 16;
            let mut i = 0usize; let mut steps = 0;
            loop { if i >= n || steps > n { return None; }
                let (a1, l1, f1, nx) = rd_desc(&tbl[16 * i..16 * i + 16]); if f1 & 4 != 0 { return None; }
                els.push((a1, l1, f1 & 2 != 0)); steps += 1; if f1 & 1 == 0 { break; } i = nx as usize; }
        } else {
            let mut cur = head as usize; let mut steps = 0;
            loop { if cur >= QN || steps > QN { return None; }
                let (a1, l1, f1, nx) = rd_desc(&hal::dev_read(a.desc + 16 * cur as u64, 16).ok()?); if f1 & 4 != 0 { return None; }
                els.push((a1, l1, f1 & 2 != 0)); steps += 1; if f1 & 1 == 0 { break; } cur = nx as usize; }
        }
        Some(els)
    }
    fn in_res(r: &Res, x: u32, y: u32, w: u32, h: u32) -> bool { x as u64 + w as u64 <= r.w as u64 && y as u64 + h as u64 <= r.h as u64 }
    /// what a conforming device does with a command: (response type, payload after the header, resource events)
    fn conform(&mut self, c: &Cmd) -> (u32, Vec<u8>, Vec<[u128; 4]>) {
        match c {
            Cmd::GetDisplayInfo => {
                let mut p = vec![];
                for i in 0..16 { let m = self.modes.get(i).copied().unwrap_or((0, 0, 0, 0, 0, 0));
                    for v in [m.0, m.1, m.2, m.3, m.4, m.5] { p.extend(v.to_le_bytes()); } }
                (R_OK_DISPLAY_INFO, p, vec![]) }
            Cmd::GetEdid { scanout, .. } => {
                if *scanout >= self.num_scanouts { return (R_ERR_INVALID_PARAMETER, vec![], vec![]); }
                let mut p = vec![]; p.extend(self.edid_size.to_le_bytes()); p.extend(0u32.to_le_bytes()); p.extend(&self.edid); (R_OK_EDID, p, vec![]) }
            Cmd::Create2D { rid, format, w, h } => {
                if *rid == 0 || (self.res.contains_key(rid) && !self.dup_replace) { return (R_ERR_INVALID_RESOURCE_ID, vec![], vec![]); }
                if ![1u32, 2, 3, 4, 67, 68, 121, 134].contains(format) { return (R_ERR_INVALID_PARAMETER, vec![], vec![]); }
                self.res.insert(*rid, Res { w: *w, h: *h, backing: None });
                (R_OK_NODATA, vec![], vec![[1, *rid as u128, *w as u128, *h as u128]]) }
            Cmd::Unref { rid, .. } => {
                if self.res.remove(rid).is_none() { return (R_ERR_INVALID_RESOURCE_ID, vec![], vec![]); }
                if self.scanout == Some(*rid) { self.scanout = None; }
                (R_OK_NODATA, vec![], vec![[4, *rid as u128, 0, 0]]) }
            Cmd::SetScanout { x, y, w, h, scanout, rid } => {
                if *scanout >= self.num_scanouts { return (R_ERR_INVALID_SCANOUT_ID, vec![], vec![]); }
                if *rid == 0 { self.scanout = None; return (R_OK_NODATA, vec![], vec![]); }
                match self.res.get(rid) { None => (R_ERR_INVALID_RESOURCE_ID, vec![], vec![]),
                    Some(r) => if !Self::in_res(r, *x, *y, *w, *h) { (R_ERR_INVALID_PARAMETER, vec![], vec![]) } else { self.scanout = Some(*rid); (R_OK_NODATA, vec![], vec![]) } } }
            Cmd::Flush { x, y, w, h, rid, .. } => match self.res.get(rid) { None => (R_ERR_INVALID_RESOURCE_ID, vec![], vec![]),
                Some(r) => if !Self::in_res(r, *x, *y, *w, *h) { (R_ERR_INVALID_PARAMETER, vec![], vec![]) } else { (R_OK_NODATA, vec![], vec![]) } },
            Cmd::Transfer { x, y, w, h, offset, rid, .. } => match self.res.get(rid).cloned() { None => (R_ERR_INVALID_RESOURCE_ID, vec![], vec![]),
                Some(r) => match r.backing { None => (R_ERR_UNSPEC, vec![], vec![]),
                    Some((addr, len)) => {
                        if !Self::in_res(&r, *x, *y, *w, *h) { return (R_ERR_INVALID_PARAMETER, vec![], vec![]); }
                        // the device reads guest memory: first and last byte of the area it needs (whole area when small)
                        let need = 4u64 * r.w as u64 * r.h as u64;
                        if *offset != 0 || need > len as u64 { return (R_ERR_INVALID_PARAMETER, vec![], vec![]); }
                        if need > 0 {
                            if need <= 65536 { match hal::dev_read(addr, need as usize) { Ok(b) => self.image_seen = Some(b), Err(e) => self.problems.push(format!("transfer: {}", e)) } }
                            else { for a in [addr, addr + need - 1] { if let Err(e) = hal::dev_read(a, 1) { self.problems.push(format!("transfer: {}", e)); } } }
                        }
                        (R_OK_NODATA, vec![], vec![[5, *rid as u128, 0, 0]]) } } },
            Cmd::Attach { rid, nr, entries } => match self.res.get_mut(rid) { None => (R_ERR_INVALID_RESOURCE_ID, vec![], vec![]),
                Some(r) => { if r.backing.is_some() || *nr != 1 { return (R_ERR_UNSPEC, vec![], vec![]); }
                    let (addr, len, _) = entries[0]; r.backing = Some((addr, len));
                    (R_OK_NODATA, vec![], vec![[2, *rid as u128, addr as u128, len as u128]]) } },
            Cmd::Detach { rid, .. } => match self.res.get_mut(rid) { None => (R_ERR_INVALID_RESOURCE_ID, vec![], vec![]),
                Some(r) => { if r.backing.is_none() { return (R_ERR_UNSPEC, vec![], vec![]); } r.backing = None; (R_OK_NODATA, vec![], vec![[3, *rid as u128, 0, 0]]) } },
            Cmd::Cursor { .. } => (0, vec![], vec![]),
            Cmd::Unknown(_) => (R_ERR_UNSPEC, vec![], vec![]),
        }
    }
    fn process(&mut self, q: usize, head: u16) -> (u32, bool) {
        let mut r = Recv { q: q as u8, pos: hal::log_len(), shape: vec![], bytes: vec![], cmd: None, resp_type: 0, resp: vec![], wrong_token: false, bevs: vec![] };
        let els = self.walk(q, head).unwrap_or_default();
        r.shape = els.iter().map(|e| (e.1, e.2)).collect();
        let mut rb = vec![];
        for e in els.iter().filter(|e| !e.2) { match hal::dev_read(e.0, e.1 as usize) { Ok(b) => rb.extend(b), Err(e) => self.problems.push(format!("request unreadable: {}", e)) } }
        let n = cmd_size(&rb).min(rb.len());
        r.bytes = rb[..n].to_vec();
        r.cmd = decode(&rb);
        let ans = if self.script.is_empty() { Ans::Conform } else { self.script.remove(0) };
        let mut written = 0u32;
        if let Some(c) = r.cmd.clone() {
            let (ty, payload, bevs) = match ans {
                Ans::Force(t) if expected_ok(&c) != Some(t) && q == 0 => (t, vec![], vec![]),
                _ => self.conform(&c),
            };
            r.resp_type = ty;
            if q == 0 {
                let mut resp = vec![]; resp.extend(ty.to_le_bytes()); resp.extend([0u8; 20]); resp.extend(payload);
                let mut off = 0usize;
                for e in els.iter().filter(|e| e.2) { let l = (e.1 as usize).min(resp.len() - off);
                    if l > 0 { if let Err(x) = hal::dev_write(e.0, &resp[off..off + l]) { self.problems.push(format!("response: {}", x)); } }
                    off += l; }
                written = off as u32; r.resp = resp[..off].to_vec();
            }
            if expected_ok(&c).map(|e| e == ty).unwrap_or(true) { r.bevs = bevs; }
        }
        r.wrong_token = ans == Ans::WrongToken;
        self.recv.push(r);
        (written, ans == Ans::WrongToken)
    }
    pub fn service(&mut self) {
        for q in 0..2 {
            let a = self.qa[q];
            if a.desc == 0 { continue; }
            let aidx = match hal::dev_read_u16(a.drv + 2) { Ok(v) => v, Err(_) => continue };
            while self.seen[q] != aidx {
                let slot = (self.seen[q] as usize) & (QN - 1);
                let head = hal::dev_read_u16(a.drv + 4 + 2 * slot as u64).unwrap();
                self.seen[q] = self.seen[q].wrapping_add(1);
                let (written, wrong) = self.process(q, head);
                let uslot = (self.used[q] as usize) & (QN - 1);
                let id = if wrong { (head as u32 + 1) % QN as u32 } else { head as u32 };
                hal::dev_write_u32(a.dev + 4 + 8 * uslot as u64, id).unwrap();
                hal::dev_write_u32(a.dev + 8 + 8 * uslot as u64, written).unwrap();
                self.used[q] = self.used[q].wrapping_add(1);
                hal::dev_write_u16(a.dev + 2, self.used[q]).unwrap();
            }
            if self.event_idx { let _ = hal::dev_write_u16(a.dev + 4 + 8 * QN as u64, self.seen[q]); }
        }
    }
}

thread_local! { static SIM: RefCell<Option<RefGpu>> = RefCell::new(None); }
fn with_sim<R>(f: impl FnOnce(&mut RefGpu) -> R) -> R { SIM.with(|c| f(c.borrow_mut().as_mut().unwrap())) }
fn observer(e: Event) {
    if let Event::Spin(_) = e {
        let mut hopeless = false;
        SIM.with(|c| { if let Some(s) = c.borrow_mut().as_mut() { if !s.active { return; }
            s.spins += 1; if s.spins >= s.serve_after { s.service(); } if s.spins > 3000 { hopeless = true; } } });
        if hopeless { panic!("busy-wait can never end"); }
    }
}
fn sim_notify() { SIM.with(|c| { if let Some(s) = c.borrow_mut().as_mut() { if s.active && s.serve_on_notify { s.service(); } } }); }

// ------------------------------------------------------------------------------------------------
pub struct Life {
    pub gpu: Option<Gpu>, pub st: Rc<RefCell<TState>>, pub queue_regions: Vec<u64>, pub tainted: bool, pub bevs: Vec<u128>,
    pub has_edid: bool, pub feats: u64, pub cursor_done: bool,
}
pub struct Obs { pub evs: Vec<Ev>, pub mark: usize, pub recvs: Vec<Recv> }

fn flat(c: &Cmd) -> Vec<u128> {
    match c {
        Cmd::GetDisplayInfo => vec![T_GET_DISPLAY_INFO as u128],
        Cmd::Create2D { rid, format, w, h } => vec![T_CREATE_2D as u128, *rid as u128, *format as u128, *w as u128, *h as u128],
        Cmd::Unref { rid, pad } => vec![T_UNREF as u128, *rid as u128, *pad as u128],
        Cmd::SetScanout { x, y, w, h, scanout, rid } => vec![T_SET_SCANOUT as u128, *x as u128, *y as u128, *w as u128, *h as u128, *scanout as u128, *rid as u128],
        Cmd::Flush { x, y, w, h, rid, pad } => vec![T_FLUSH as u128, *x as u128, *y as u128, *w as u128, *h as u128, *rid as u128, *pad as u128],
        Cmd::Transfer { x, y, w, h, offset, rid, pad } => vec![T_TRANSFER as u128, *x as u128, *y as u128, *w as u128, *h as u128, *offset as u128, *rid as u128, *pad as u128],
        Cmd::Attach { rid, nr, entries } => { let mut v = vec![T_ATTACH as u128, *rid as u128, *nr as u128]; for e in entries { v.extend([e.0 as u128, e.1 as u128, e.2 as u128]); } v }
        Cmd::Detach { rid, pad } => vec![T_DETACH as u128, *rid as u128, *pad as u128],
        Cmd::GetEdid { scanout, pad } => vec![T_GET_EDID as u128, *scanout as u128, *pad as u128],
        Cmd::Cursor { mv, scanout, x, y, ppad, rid, hot_x, hot_y, pad } => if *mv { vec![T_MOVE_CURSOR as u128, *scanout as u128, *x as u128, *y as u128, *ppad as u128, 0, 0, 0, *pad as u128] }
            else { vec![T_UPDATE_CURSOR as u128, *scanout as u128, *x as u128, *y as u128, *ppad as u128, *rid as u128, *hot_x as u128, *hot_y as u128, *pad as u128] },
        Cmd::Unknown(t) => vec![*t as u128],
    }
}

/// the operation as the property text describes it, built from the caller's parameters and the device's
/// state before the call: (cursor queue?, command). rid: the id the driver chose (seen in its create command)
#[derive(Clone, Debug)]
pub enum Op { Change { had: bool, old: u32, w: u32, h: u32 }, Flush { rid: u32, w: u32, h: u32 }, SetupCursor { x: u32, y: u32, hx: u32, hy: u32 }, Move { x: u32, y: u32 }, Resolution, GetEdid { scanout: u32 } }
fn expected_seq(op: &Op, rid: u32, paddr: u64) -> Option<Vec<(bool, Cmd)>> {
    Some(match op {
        Op::Change { had, old, w, h } => {
            let size = 4u64 * *w as u64 * *h as u64; if size >= 1 << 32 || size == 0 { return None; }
            let mut v = vec![];
            if *had { v.push((false, Cmd::SetScanout { x: 0, y: 0, w: 0, h: 0, scanout: 0, rid: 0 })); v.push((false, Cmd::Detach { rid: *old, pad: 0 })); v.push((false, Cmd::Unref { rid: *old, pad: 0 })); }
            v.push((false, Cmd::Create2D { rid, format: 1, w: *w, h: *h }));
            v.push((false, Cmd::Attach { rid, nr: 1, entries: vec![(paddr, size as u32, 0)] }));
            v.push((false, Cmd::SetScanout { x: 0, y: 0, w: *w, h: *h, scanout: 0, rid }));
            v }
        Op::Flush { rid, w, h } => { if *rid == 0 { return None; }
            vec![(false, Cmd::Transfer { x: 0, y: 0, w: *w, h: *h, offset: 0, rid: *rid, pad: 0 }), (false, Cmd::Flush { x: 0, y: 0, w: *w, h: *h, rid: *rid, pad: 0 })] }
        Op::SetupCursor { x, y, hx, hy } => vec![
            (false, Cmd::Create2D { rid, format: 1, w: 64, h: 64 }), (false, Cmd::Attach { rid, nr: 1, entries: vec![(paddr, 16384, 0)] }),
            (false, Cmd::Transfer { x: 0, y: 0, w: 64, h: 64, offset: 0, rid, pad: 0 }),
            (true, Cmd::Cursor { mv: false, scanout: 0, x: *x, y: *y, ppad: 0, rid, hot_x: *hx, hot_y: *hy, pad: 0 })],
        Op::Move { x, y } => vec![(true, Cmd::Cursor { mv: true, scanout: 0, x: *x, y: *y, ppad: 0, rid: 0, hot_x: 0, hot_y: 0, pad: 0 })],
        Op::Resolution => vec![(false, Cmd::GetDisplayInfo)],
        Op::GetEdid { scanout } => vec![(false, Cmd::GetEdid { scanout: *scanout, pad: 0 })],
    })
}

fn make(ctx: &mut Ctx, feats: u64) -> Option<Life> {
    hal::reset();
    SIM.with(|c| *c.borrow_mut() = None);
    virtio_drivers::verif::set_observer(Some(observer));
    let mut ts = TState::new(DeviceType::GPU, feats, 2, QN as u32);
    let mut cfg = vec![0u8; 16]; cfg[8..12].copy_from_slice(&16u32.to_le_bytes());
    ts.config = cfg;
    let (t, st) = ModelTransport::new(ts);
    let r = catch_unwind(AssertUnwindSafe(move || Gpu::new(t)));
    let evs = hal::take_log();
    let accepted = evs.iter().find_map(|e| if let Ev::WriteFeatures(v) = e { Some(*v) } else { None }).unwrap_or(0);
    let gpu = match r { Ok(Ok(g)) => g, _ => { ctx.tr.note("new_failed"); return None; } };
    ctx.tr.line(2000, &[feats as u128], &[((accepted >> 1) & 1) as u128]);
    ctx.tr.note(if accepted & F_EDID != 0 { "new_with_edid" } else { "new_without_edid" });
    let q0 = st.borrow().queues[0]; let q1 = st.borrow().queues[1];
    let qa = [QAddr { desc: q0.desc, drv: q0.drv, dev: q0.dev, size: QN }, QAddr { desc: q1.desc, drv: q1.drv, dev: q1.dev, size: QN }];
    let queue_regions: Vec<u64> = evs.iter().filter_map(|e| if let Ev::Alloc { paddr, .. } = e { Some(*paddr) } else { None }).collect();
    SIM.with(|c| *c.borrow_mut() = Some(RefGpu::new(qa, accepted & F_EV != 0)));
    st.borrow_mut().on_notify = Some(Box::new(|_q, _s| sim_notify()));
    Some(Life { gpu: Some(gpu), st, queue_regions, tainted: false, bevs: vec![], has_edid: accepted & F_EDID != 0, feats, cursor_done: false })
}

/// run one public operation with the device following `script`
fn run_op<R>(life: &mut Life, ctx: &mut Ctx, script: Vec<Ans>, f: impl FnOnce(&mut Gpu) -> Result<R, Error>) -> (std::thread::Result<Result<R, Error>>, Obs) {
    let policy = ctx.rng.below(3);
    let after = 1 + ctx.rng.below(5) as u32;
    with_sim(|s| { s.script = script; s.recv.clear(); s.spins = 0; s.active = true;
        s.serve_on_notify = policy != 1; s.serve_after = if policy == 0 { 1 } else { after };
        // notification suppression as the device wishes (the device polls anyway)
        for q in 0..2 { let _ = hal::dev_write_u16(s.qa[q].dev, (policy == 1) as u16); } });
    let mark = hal::log_len();
    let gpu = life.gpu.as_mut().unwrap();
    let r = catch_unwind(AssertUnwindSafe(move || f(gpu)));
    let evs = hal::log_since(mark);
    let recvs = with_sim(|s| { s.active = false; s.script.clear(); std::mem::take(&mut s.recv) });
    // a device that cannot reach the memory it was given: a violation, unless an earlier error answer has
    // already left device and driver in disagreement (the property speaks of error-free lives)
    let was_tainted = life.tainted;
    for p in with_sim(|s| std::mem::take(&mut s.problems)) { if was_tainted { ctx.tr.note("device_access_to_released_memory_after_an_error_answer"); } else { hal::violate(p); } }
    (r, Obs { evs, mark, recvs })
}

/// environment answers in the model's format
fn enc_answers(o: &Obs) -> Vec<u128> {
    let mut v = vec![];
    for r in &o.recvs {
        if r.wrong_token { v.extend([0, 3]); }
        else if r.q == 1 { v.extend([1, 0]); }
        else { v.extend([1, r.resp.len() as u128]); v.extend(r.resp.iter().map(|b| *b as u128)); }
    }
    v
}
/// ordered effects in the model's format; also feeds the life-long resource / memory event list
fn enc_effects(life: &mut Life, o: &Obs) -> Vec<u128> {
    let mut out = vec![]; let mut ri = 0;
    let push_req = |out: &mut Vec<u128>, bev: &mut Vec<u128>, r: &Recv| {
        out.extend([if r.q == 0 { 1 } else { 2 }, r.bytes.len() as u128]); out.extend(r.bytes.iter().map(|b| *b as u128));
        for e in &r.bevs { bev.extend(e.iter().cloned()); } };
    for (i, e) in o.evs.iter().enumerate() {
        while ri < o.recvs.len() && o.recvs[ri].pos <= o.mark + i { push_req(&mut out, &mut life.bevs, &o.recvs[ri]); ri += 1; }
        match e {
            Ev::Alloc { pages, paddr, .. } => { out.extend([3, *pages as u128, *paddr as u128]); life.bevs.extend([6, *pages as u128, *paddr as u128, 0]); }
            Ev::Dealloc { paddr, pages, .. } => { if !life.queue_regions.contains(paddr) { out.extend([4, *paddr as u128, *pages as u128]); life.bevs.extend([7, *paddr as u128, *pages as u128, 0]); } }
            Ev::QueueUnset(q) => out.extend([5, *q as u128]),
            Ev::TransportDrop => { out.push(6); life.bevs.extend([8, 0, 0, 0]); }
            _ => {}
        }
    }
    while ri < o.recvs.len() { push_req(&mut out, &mut life.bevs, &o.recvs[ri]); ri += 1; }
    out
}
fn alloc_addr(o: &Obs) -> u64 { o.evs.iter().find_map(|e| if let Ev::Alloc { paddr, .. } = e { Some(*paddr) } else { None }).unwrap_or(0) }
fn alloc_seen(o: &Obs) -> bool { o.evs.iter().any(|e| matches!(e, Ev::Alloc { .. })) }
fn all_ok(o: &Obs) -> bool { o.recvs.iter().all(|r| !r.wrong_token && r.cmd.as_ref().map(|c| expected_ok(c).map(|e| e == r.resp_type).unwrap_or(true)).unwrap_or(false)) }
fn class_of<R>(r: &std::thread::Result<Result<R, Error>>) -> (u128, u128) { match r { Ok(Ok(_)) => (0, 0), Ok(Err(e)) => (1, err_code(e)), Err(_) => (2, 0) } }

/// the monitors common to every operation
fn monitors(life: &mut Life, ctx: &mut Ctx, op: &Op, o: &Obs, class: u128, alloc_failed: bool) {
    let rid = o.recvs.iter().find_map(|r| if let Some(Cmd::Create2D { rid, .. }) = &r.cmd { Some(*rid) } else { None }).unwrap_or(0);
    let paddr = alloc_addr(o);
    let exp = expected_seq(op, rid, paddr);
    // 2020: every request on the wire against the caller's parameters (also in operations cut short by an error;
    // not after an error answer has left device and driver in disagreement about what exists)
    for (i, r) in o.recvs.iter().enumerate() {
        if life.tainted { break; }
        let e: Vec<u128> = exp.as_ref().and_then(|v| v.get(i)).map(|(q, c)| if *q == (r.q == 1) { flat(c) } else { vec![] }).unwrap_or_default();
        let mut m = vec![r.q as u128, r.shape.len() as u128];
        for s in &r.shape { m.extend([s.0 as u128, s.1 as u128]); }
        m.push(e.len() as u128); m.extend(e);
        m.push(r.bytes.len() as u128); m.extend(r.bytes.iter().map(|b| *b as u128));
        ctx.tr.line(2020, &m, &[1]);
    }
    // 2022: error propagation
    let mut m = vec![class];
    for r in &o.recvs { m.extend([r.q as u128, (!r.wrong_token) as u128, r.resp_type as u128, r.bytes.len() as u128]); m.extend(r.bytes.iter().map(|b| *b as u128)); }
    ctx.tr.line(2022, &m, &[1]);
    let ok = all_ok(o);
    if !ok { life.tainted = true; ctx.tr.note("op_with_device_error"); }
    // 2021: the command sequence of an undisturbed operation
    if ok && !alloc_failed && !life.tainted {
        let p: [u128; 5] = match op {
            Op::Change { had, old, w, h } => [*had as u128, *old as u128, *w as u128, *h as u128, paddr as u128],
            Op::Flush { rid, w, h } => [*rid as u128, *w as u128, *h as u128, 0, 0],
            Op::SetupCursor { x, y, hx, hy } => [*x as u128, *y as u128, *hx as u128, *hy as u128, paddr as u128],
            Op::Move { x, y } => [*x as u128, *y as u128, 0, 0, 0],
            Op::Resolution => [0; 5], Op::GetEdid { scanout } => [*scanout as u128, 0, 0, 0, 0] };
        let code = match op { Op::Change { .. } => 1, Op::Flush { .. } => 2, Op::SetupCursor { .. } => 3, Op::Move { .. } => 4, Op::Resolution => 5, Op::GetEdid { .. } => 6 };
        let mut m = vec![code as u128]; m.extend(p); m.push(class);
        for r in &o.recvs { m.extend([r.q as u128, r.bytes.len() as u128]); m.extend(r.bytes.iter().map(|b| *b as u128)); }
        ctx.tr.line(2021, &m, &[1]);
    }
}

fn scanout_state() -> (bool, u32, u32, u32) { with_sim(|s| match s.scanout { Some(r) => { let x = &s.res[&r]; (true, r, x.w, x.h) } None => (false, 0, 0, 0) }) }

fn op_change(life: &mut Life, ctx: &mut Ctx, w: u32, h: u32, script: Vec<Ans>, fail_alloc: bool) -> bool {
    let (had, old, _, _) = scanout_state();
    if fail_alloc { hal::fail_alloc_at(Some(0)); }
    let (r, o) = run_op(life, ctx, script, |g| g.change_resolution(w, h).map(|b| b.len()));
    hal::fail_alloc_at(None);
    let mut ins = vec![w as u128, h as u128, alloc_addr(&o) as u128]; ins.extend(enc_answers(&o));
    let (class, code) = class_of(&r);
    let mut outs = vec![class, match &r { Ok(Ok(v)) => *v as u128, _ => code }]; outs.extend(enc_effects(life, &o));
    ctx.tr.line(2001, &ins, &outs);
    let bytes = 4u64 * w as u64 * h as u64;
    ctx.tr.note(&format!("change_class{}{}", class, if bytes >= 1 << 32 { "_size_overflow" } else if bytes == 0 { "_size_zero" } else { "" }));
    monitors(life, ctx, &Op::Change { had, old, w, h }, &o, class, fail_alloc && alloc_seen(&o));
    // a failed dma_alloc (a platform failure, outside the property's quantifier) leaves a resource without backing
    if fail_alloc && alloc_seen(&o) { life.tainted = true; ctx.tr.note("dma_alloc_failure_injected"); }
    class != 2
}
fn op_setup_fb(life: &mut Life, ctx: &mut Ctx, script: Vec<Ans>) -> bool {
    let (had, old, _, _) = scanout_state();
    let (dw, dh) = with_sim(|s| (s.modes[0].2, s.modes[0].3));
    let (r, o) = run_op(life, ctx, script, |g| g.setup_framebuffer().map(|b| b.len()));
    let mut ins = vec![alloc_addr(&o) as u128]; ins.extend(enc_answers(&o));
    let (class, code) = class_of(&r);
    let mut outs = vec![class, match &r { Ok(Ok(v)) => *v as u128, _ => code }]; outs.extend(enc_effects(life, &o));
    ctx.tr.line(2009, &ins, &outs);
    ctx.tr.note(&format!("setup_framebuffer_class{}", class));
    // the same property as change_resolution(device width, device height) after the display query
    if let Some(first) = o.recvs.first() {
        let q = Obs { evs: vec![], mark: 0, recvs: vec![first.clone()] };
        monitors(life, ctx, &Op::Resolution, &q, if o.recvs.len() > 1 || class == 0 { 0 } else { class }, false);
        let rest = Obs { evs: o.evs.clone(), mark: o.mark, recvs: o.recvs[1..].to_vec() };
        if all_ok(&q) { monitors(life, ctx, &Op::Change { had, old, w: dw, h: dh }, &rest, class, false); }
    }
    class != 2
}
fn op_flush(life: &mut Life, ctx: &mut Ctx, script: Vec<Ans>) -> bool {
    let (_, rid, w, h) = scanout_state();
    let (r, o) = run_op(life, ctx, script, |g| g.flush());
    let (class, code) = class_of(&r);
    let mut outs = vec![class, code]; outs.extend(enc_effects(life, &o));
    ctx.tr.line(2002, &enc_answers(&o), &outs);
    ctx.tr.note(&format!("flush_class{}", class));
    monitors(life, ctx, &Op::Flush { rid, w, h }, &o, class, false);
    class != 2
}
fn op_setup_cursor(life: &mut Life, ctx: &mut Ctx, len: usize, x: u32, y: u32, hx: u32, hy: u32, script: Vec<Ans>, fail_alloc: bool) -> bool {
    let image = ctx.rng.bytes(len);
    with_sim(|s| s.image_seen = None);
    if fail_alloc { hal::fail_alloc_at(Some(0)); }
    let (r, o) = run_op(life, ctx, script, |g| g.setup_cursor(&image, x, y, hx, hy));
    hal::fail_alloc_at(None);
    let mut ins = vec![len as u128, x as u128, y as u128, hx as u128, hy as u128, alloc_addr(&o) as u128]; ins.extend(enc_answers(&o));
    let (class, code) = class_of(&r);
    let mut outs = vec![class, code]; outs.extend(enc_effects(life, &o));
    ctx.tr.line(2003, &ins, &outs);
    ctx.tr.note(&format!("setup_cursor_class{}", class));
    if len == 16384 {
        monitors(life, ctx, &Op::SetupCursor { x, y, hx, hy }, &o, class, fail_alloc);
        // 2026: what the device read from the backing at TRANSFER_TO_HOST_2D is the caller's image
        if o.recvs.iter().any(|r| matches!(r.cmd, Some(Cmd::Transfer { .. })) && r.resp_type == R_OK_NODATA) {
            let seen = with_sim(|s| s.image_seen.take());
            ctx.tr.line(2026, &[(seen.as_deref() == Some(&image[..])) as u128, seen.map(|s| s.len()).unwrap_or(0) as u128], &[1]);
        }
    } else if !o.recvs.is_empty() || class != 1 { ctx.tr.line(2022, &[0], &[0]); }   // a wrong image length must be refused before anything is sent
    class != 2
}
fn op_move(life: &mut Life, ctx: &mut Ctx, x: u32, y: u32, script: Vec<Ans>) -> bool {
    let (r, o) = run_op(life, ctx, script, |g| g.move_cursor(x, y));
    let (class, code) = class_of(&r);
    let mut ins = vec![x as u128, y as u128]; ins.extend(enc_answers(&o));
    let mut outs = vec![class, code]; outs.extend(enc_effects(life, &o));
    ctx.tr.line(2004, &ins, &outs);
    ctx.tr.note(&format!("move_cursor_class{}", class));
    monitors(life, ctx, &Op::Move { x, y }, &o, class, false);
    class != 2
}
fn op_resolution(life: &mut Life, ctx: &mut Ctx, script: Vec<Ans>) -> bool {
    let (dw, dh) = with_sim(|s| (s.modes[0].2, s.modes[0].3));
    let (r, o) = run_op(life, ctx, script, |g| g.resolution());
    let (class, code) = class_of(&r);
    let (a, b) = match &r { Ok(Ok((w, h))) => (*w as u128, *h as u128), _ => (code, 0) };
    let mut outs = vec![class, a, b]; outs.extend(enc_effects(life, &o));
    ctx.tr.line(2005, &enc_answers(&o), &outs);
    ctx.tr.note(&format!("resolution_class{}", class));
    let ok = all_ok(&o);
    monitors(life, ctx, &Op::Resolution, &o, class, false);
    if ok { ctx.tr.line(2024, &[dw as u128, dh as u128, class, a, b], &[1]); }
    class != 2
}
fn enc_edid_results(e: &Edid) -> Vec<u128> {
    let mut v = match e.preferred_resolution() { Ok((w, h)) => vec![0, w as u128, h as u128], Err(x) => vec![1, err_code(&x), 0] };
    let st = e.standard_timings();
    v.extend([0, 0, st.len() as u128]); for (w, h) in st { v.extend([w as u128, h as u128]); }
    v
}
/// get_edid through the real request path, then the Edid methods on what came back
fn op_get_edid(life: &mut Life, ctx: &mut Ctx, scanout: u32, script: Vec<Ans>) -> bool {
    let (blob, size) = with_sim(|s| (s.edid.clone(), s.edid_size));
    let (r, o) = run_op(life, ctx, script, |g| g.get_edid(scanout));
    let (class, code) = class_of(&r);
    let mut ins = vec![scanout as u128]; ins.extend(enc_answers(&o));
    let mut outs = vec![class, code]; outs.extend(enc_effects(life, &o));
    ctx.tr.line(2006, &ins, &outs);
    ctx.tr.note(&format!("get_edid_class{}", class));
    if life.has_edid { monitors(life, ctx, &Op::GetEdid { scanout }, &o, class, false); }
    else if !o.recvs.is_empty() || class != 1 { ctx.tr.line(2022, &[0], &[0]); }
    if let Ok(Ok(e)) = &r {
        let res = catch_unwind(AssertUnwindSafe(|| enc_edid_results(e)));
        let mut ins = vec![size as u128]; ins.extend(blob.iter().map(|b| *b as u128));
        match res {
            Ok(v) => {
                ctx.tr.line(2011, &ins, &v);
                // 2025: against the E-EDID text: [size; blob; preferred class, w, h; n; pairs]
                let mut m = ins.clone(); m.extend([v[0], v[1], v[2], v[5]]); m.extend(v[6..].iter().cloned());
                ctx.tr.line(2025, &m, &[1]);
                ctx.tr.note(if v[0] == 0 { "edid_preferred_ok" } else { "edid_preferred_none" });
                ctx.tr.note(&format!("edid_standard_{}", v[5]));
            }
            Err(_) => { ctx.tr.line(2011, &ins, &[2, 0, 0, 2, 0, 0]); ctx.tr.line(2025, &[0], &[1]); }
        }
    }
    class != 2
}
fn op_edid_driver(life: &mut Life, ctx: &mut Ctx, which: u8, script: Vec<Ans>) -> bool {
    if which == 0 {
        let (r, o) = run_op(life, ctx, script, |g| g.edid_preferred_resolution());
        let (class, code) = class_of(&r);
        let (a, b) = match &r { Ok(Ok((w, h))) => (*w as u128, *h as u128), _ => (code, 0) };
        let mut outs = vec![class, a, b]; outs.extend(enc_effects(life, &o));
        ctx.tr.line(2007, &enc_answers(&o), &outs);
        if !all_ok(&o) { life.tainted = true; }
        class != 2
    } else {
        let (r, o) = run_op(life, ctx, script, |g| g.edid_supported_resolutions());
        let (class, code) = class_of(&r);
        let mut outs = vec![class, code];
        match &r { Ok(Ok(l)) => { outs.push(l.len() as u128); for (w, h) in l { outs.extend([*w as u128, *h as u128]); } } _ => outs.push(0) }
        outs.push(99); outs.extend(enc_effects(life, &o));
        ctx.tr.line(2008, &enc_answers(&o), &outs);
        if !all_ok(&o) { life.tainted = true; }
        class != 2
    }
}
fn finish(mut life: Life, ctx: &mut Ctx, stuck: bool) {
    life.st.borrow_mut().on_notify = None;
    let mark = hal::log_len();
    drop(life.gpu.take());
    let o = Obs { evs: hal::log_since(mark), mark, recvs: vec![] };
    let outs = enc_effects(&mut life, &o);
    ctx.tr.line(2010, &[], &outs);
    virtio_drivers::verif::set_observer(None);
    SIM.with(|c| *c.borrow_mut() = None);
    // 2023: backing-memory ownership over the whole life (only when the device never answered with an error)
    if !life.tainted { ctx.tr.line(2023, &life.bevs, &[1]); ctx.tr.note("life_without_device_error"); } else { ctx.tr.note("life_with_device_error"); }
    if !stuck { ctx.tr.line(2, &[], &[(hal::live_regions() + hal::live_shares()) as u128]); }
    ledger_line(ctx);
}

// ------------------------------------------------------------------------------------------------
// generators
fn pick_dim(ctx: &mut Ctx) -> u32 {
    match ctx.rng.below(8) { 0 => 1, 1 => 64, 2 => *ctx.rng.pick(&[640u32, 800, 1024, 1280, 1920]), 3 => 1 + ctx.rng.below(32) as u32,
        4 => 1 + ctx.rng.below(2048) as u32, 5 => *ctx.rng.pick(&[255u32, 256, 257, 4095, 4096, 4097]), 6 => 0, _ => 1 + ctx.rng.below(300) as u32 }
}
/// (w, h) with 4*w*h < 64 MiB
fn pick_size(ctx: &mut Ctx) -> (u32, u32) {
    loop { let (w, h) = (pick_dim(ctx), pick_dim(ctx)); if 4u64 * w as u64 * h as u64 <= 64 << 20 { return (w, h); } }
}
/// sizes whose byte count does not fit u32; the wrapped product is small (so that a wrapping build does not
/// ask the platform for gigabytes)
fn pick_overflow(ctx: &mut Ctx) -> (u32, u32) {
    let r = ctx.rng.below(8) as u32; let j = 1 + ctx.rng.below(4) as u32;
    match ctx.rng.below(5) {
        0 => (32768, 32768 * j + r), 1 => (65536, 16384 * j + r), 2 => (32768 * j + r, 32768), 3 => (65536, 65536), _ => (0x4000_0000, 4 + r) }
}
fn err_type(ctx: &mut Ctx) -> u32 {
    match ctx.rng.below(6) { 0 => 0x1200 + ctx.rng.below(6) as u32, 1 => *ctx.rng.pick(&[0x1100u32, 0x1101, 0x1102, 0x1103, 0x1104, 0x1105, 0x1106]),
        2 => *ctx.rng.pick(&[0u32, 1, 0x100, 0x1ff, 0x10ff, 0x1206, 0xffff_ffff]), 3 => (1u32 << (8 + ctx.rng.below(24) as u32)) | 0x1100,
        4 => 0x1100 | ((ctx.rng.below(255) as u32 + 1) << 24), _ => ctx.rng.next() as u32 }
}
/// a script with one disturbed answer among the first n requests
fn error_script(ctx: &mut Ctx, n: usize) -> Vec<Ans> {
    let k = ctx.rng.below(n as u64) as usize;
    let mut v = vec![Ans::Conform; n]; v[k] = Ans::Force(err_type(ctx)); v
}

fn history(ctx: &mut Ctx, feats: u64, nops: usize, errors: bool) {
    let mut life = match make(ctx, feats) { Some(l) => l, None => return };
    // half of the undisturbed lives run against a device that accepts the re-creation of a resource id
    if !errors && nops % 2 == 0 { with_sim(|s| s.dup_replace = true); ctx.tr.note("device_accepts_recreated_ids"); }
    with_sim(|s| { s.modes[0] = (0, 0, 1 + ctx.rng.below(1920) as u32, 1 + ctx.rng.below(1080) as u32, 1, 0); });
    let mut stuck = false;
    for i in 0..nops {
        let script = |ctx: &mut Ctx, n: usize| if errors && ctx.rng.chance(1, 3) { error_script(ctx, n) } else { vec![] };
        let ok = match ctx.rng.below(12) {
            0..=2 => { let (w, h) = if ctx.rng.chance(1, 6) { pick_overflow(ctx) } else { pick_size(ctx) };
                let n = if scanout_state().0 { 6 } else { 3 }; let s = script(ctx, n);
                let fa = errors && ctx.rng.chance(1, 12); op_change(&mut life, ctx, w, h, s, fa) }
            3..=4 => { let s = script(ctx, 2); op_flush(&mut life, ctx, s) }
            5 if errors || !life.cursor_done || i % 3 == 0 => { let len = if ctx.rng.chance(1, 5) { *ctx.rng.pick(&[0usize, 1, 16383, 16385, 4096, 65536]) } else { 16384 };
                let (x, y, hx, hy) = (ctx.rng.boundary(32) as u32, ctx.rng.boundary(32) as u32, ctx.rng.boundary(32) as u32, ctx.rng.boundary(32) as u32);
                let s = script(ctx, 4); let fa = errors && ctx.rng.chance(1, 12); if len == 16384 { life.cursor_done = true; } op_setup_cursor(&mut life, ctx, len, x, y, hx, hy, s, fa) }
            5..=7 => { let (x, y) = (ctx.rng.boundary(32) as u32, ctx.rng.boundary(32) as u32); op_move(&mut life, ctx, x, y, vec![]) }
            8 => { with_sim(|s| s.modes[0] = (ctx.rng.next() as u32, ctx.rng.next() as u32, ctx.rng.boundary(32) as u32, ctx.rng.boundary(32) as u32, ctx.rng.below(2) as u32, ctx.rng.next() as u32));
                let s = script(ctx, 1); op_resolution(&mut life, ctx, s) }
            9 => { with_sim(|s| { s.modes[0] = (0, 0, 1 + ctx.rng.below(1024) as u32, 1 + ctx.rng.below(768) as u32, 1, 0); });
                let n = if scanout_state().0 { 7 } else { 4 }; let s = script(ctx, n); op_setup_fb(&mut life, ctx, s) }
            10 => { set_edid(ctx, None); let sc = if errors && ctx.rng.chance(1, 4) { ctx.rng.boundary(32) as u32 } else if ctx.rng.chance(1, 3) { ctx.rng.below(16) as u32 } else { 0 }; let s = script(ctx, 1); op_get_edid(&mut life, ctx, sc, s) }
            _ => { set_edid(ctx, None); let s = script(ctx, 1); let which = ctx.rng.below(2) as u8; op_edid_driver(&mut life, ctx, which, s) }
        };
        if !ok { ctx.tr.note("op_panicked"); break; }
        // last operation of some lives: the device completes a request under a foreign token
        if errors && i + 2 == nops && ctx.rng.chance(1, 2) {
            match ctx.rng.below(3) { 0 => { op_flush(&mut life, ctx, vec![Ans::WrongToken]); } 1 => { op_resolution(&mut life, ctx, vec![Ans::WrongToken]); }
                _ => { let (w, h) = pick_size(ctx); op_change(&mut life, ctx, w, h, vec![Ans::WrongToken], false); } }
            stuck = true; ctx.tr.note("foreign_token_completion"); break;
        }
    }
    finish(life, ctx, stuck);
}

/// the property's sequences, directed: first set-up, re-size (tear-down first), flush, cursor, drop
fn directed(ctx: &mut Ctx, feats: u64) {
    let mut life = match make(ctx, feats) { Some(l) => l, None => return };
    op_flush(&mut life, ctx, vec![]);                                  // nothing set up yet: NotReady, nothing sent
    op_move(&mut life, ctx, 3, 4, vec![]);
    let (w, h) = pick_size(ctx); op_change(&mut life, ctx, w.max(1), h.max(1), vec![], false);
    op_flush(&mut life, ctx, vec![]);
    let (w, h) = pick_size(ctx); op_change(&mut life, ctx, w.max(1), h.max(1), vec![], false);
    op_flush(&mut life, ctx, vec![]);
    op_setup_cursor(&mut life, ctx, 16384, 1, 2, 3, 4, vec![], false);
    op_move(&mut life, ctx, u32::MAX, 0, vec![]);
    with_sim(|s| s.dup_replace = feats & F_IND != 0);
    // a second cursor image: the first one's backing memory may only go once the resource has been given the new one
    op_setup_cursor(&mut life, ctx, 16384, 9, 8, 7, 6, vec![], false);
    op_move(&mut life, ctx, 5, 5, vec![]);
    op_setup_fb(&mut life, ctx, vec![]);
    op_flush(&mut life, ctx, vec![]);
    let (w, h) = pick_overflow(ctx); op_change(&mut life, ctx, w, h, vec![], false);
    op_flush(&mut life, ctx, vec![]);
    op_resolution(&mut life, ctx, vec![]);
    finish(life, ctx, false);
}

/// one life per error position and answer class, for each operation
fn error_grid(ctx: &mut Ctx, feats: u64, round: u64) {
    for opk in 0..6 {
        let nreq = [3usize, 6, 2, 4, 1, 7][opk];
        for k in 0..nreq {
            ctx.tr.scenario(&format!("c20gpu-errors-{}-op{}-at{}", round, opk, k));
            let mut life = match make(ctx, feats | F_EDID) { Some(l) => l, None => return };
            let mut script = vec![Ans::Conform; nreq]; script[k] = Ans::Force(err_type(ctx));
            match opk {
                0 => { let (w, h) = pick_size(ctx); op_change(&mut life, ctx, w.max(1), h.max(1), script, false); }
                1 => { op_change(&mut life, ctx, 16, 16, vec![], false); let (w, h) = pick_size(ctx); op_change(&mut life, ctx, w.max(1), h.max(1), script, false); }
                2 => { op_change(&mut life, ctx, 8, 8, vec![], false); op_flush(&mut life, ctx, script); }
                3 => { op_setup_cursor(&mut life, ctx, 16384, 5, 6, 7, 8, script, false); }
                4 => { if ctx.rng.chance(1, 2) { op_resolution(&mut life, ctx, script); } else { set_edid(ctx, None); op_get_edid(&mut life, ctx, 0, script); } }
                _ => { op_change(&mut life, ctx, 16, 16, vec![], false); op_setup_fb(&mut life, ctx, script); }
            }
            // the driver stays usable after an error answer
            op_move(&mut life, ctx, 1, 1, vec![]);
            finish(life, ctx, false);
        }
    }
}

// ---- EDID blobs
const QEMU_EDID: [u8; 128] = [
    0x00, 0xff, 0xff, 0xff, 0xff, 0xff, 0xff, 0x00, 0x49, 0x14, 0x34, 0x12, 0x00, 0x00, 0x00, 0x00, 0x2a, 0x18, 0x01, 0x04, 0xa5, 0x30, 0x1b, 0x78,
    0x06, 0xee, 0x91, 0xa3, 0x54, 0x4c, 0x99, 0x26, 0x0f, 0x50, 0x54, 0x21, 0x08, 0x00, 0xe1, 0xc0, 0xd1, 0xc0, 0xd1, 0x00, 0xa9, 0x40, 0xb3, 0x00,
    0x95, 0x00, 0x81, 0x80, 0x81, 0x40, 0xd2, 0x54, 0x80, 0xa0, 0x72, 0x38, 0x25, 0x40, 0xe0, 0x39, 0x55, 0x40, 0xe7, 0x12, 0x11, 0x00, 0x00, 0x18,
    0x00, 0x00, 0x00, 0xf7, 0x00, 0x0a, 0x00, 0x40, 0x82, 0x00, 0x28, 0x20, 0x00, 0x00, 0x00, 0x00, 0x00, 0x00, 0x00, 0x00, 0x00, 0xfd, 0x00, 0x32,
    0x7d, 0x1e, 0xa0, 0xff, 0x01, 0x0a, 0x20, 0x20, 0x20, 0x20, 0x20, 0x20, 0x00, 0x00, 0x00, 0xfc, 0x00, 0x51, 0x45, 0x4d, 0x55, 0x20, 0x4d, 0x6f,
    0x6e, 0x69, 0x74, 0x6f, 0x72, 0x0a, 0x01, 0xb0];
fn pick_edid_size(ctx: &mut Ctx) -> u32 {
    match ctx.rng.below(6) { 0 => *ctx.rng.pick(&[0u32, 1, 126, 127, 128, 129, 255, 256, 1023, 1024, 1025]), 1 => ctx.rng.boundary(32) as u32, 2 => 128, 3 => 256, 4 => ctx.rng.below(300) as u32, _ => 1024 }
}
/// install a blob in the device; grid: Some(i) = the i-th blob of the systematic (byte 0, aspect) sweep
fn set_edid(ctx: &mut Ctx, grid: Option<u32>) {
    let mut b = vec![0u8; 1024];
    let mut size = pick_edid_size(ctx);
    match grid {
        Some(i) => {
            b[..128].copy_from_slice(&QEMU_EDID);
            // 8 standard-timing slots: (first byte, aspect bits) = consecutive points of the 256 x 4 grid
            for s in 0..8u32 { let p = i * 8 + s; b[38 + 2 * s as usize] = (p / 4) as u8; b[39 + 2 * s as usize] = (((p % 4) << 6) as u8) | (ctx.rng.next() as u8 & 0x3f); }
            if size < 128 && ctx.rng.chance(3, 4) { size = 128 + ctx.rng.below(900) as u32; }
        }
        None => match ctx.rng.below(8) {
            0 => { b = ctx.rng.bytes(1024); }
            1 => {}
            2 => { b = vec![0xff; 1024]; }
            3 | 4 => { b[..128].copy_from_slice(&QEMU_EDID); for x in b[128..].iter_mut() { *x = ctx.rng.next() as u8; }
                // detailed timing: the four bytes that carry the active pixel counts, boundary-directed
                for off in [56usize, 58, 59, 61] { if ctx.rng.chance(1, 2) { b[off] = *ctx.rng.pick(&[0u8, 1, 0x0f, 0x10, 0x7f, 0x80, 0xf0, 0xff, 0xef]); } }
                if ctx.rng.chance(1, 3) { b[56] = 0; b[58] &= 0x0f; }
                if ctx.rng.chance(1, 3) { b[59] = 0; b[61] &= 0x0f; } }
            5 => { b[..128].copy_from_slice(&QEMU_EDID);
                // unused markers, duplicates and entries of equal pixel count in several orders
                for s in 0..8usize { match ctx.rng.below(4) { 0 => { b[38 + 2 * s] = 1; b[39 + 2 * s] = 1; } 1 => { b[38 + 2 * s] = 1; b[39 + 2 * s] = ctx.rng.next() as u8; }
                    2 => { b[38 + 2 * s] = *ctx.rng.pick(&[0x81u8, 0x81, 0xd1, 0x00, 0xff]); b[39 + 2 * s] = (ctx.rng.below(4) as u8) << 6; } _ => { b[38 + 2 * s] = ctx.rng.next() as u8; b[39 + 2 * s] = ctx.rng.next() as u8; } } } }
            6 => { b = ctx.rng.bytes(1024); for s in 0..8usize { if ctx.rng.chance(1, 2) { b[38 + 2 * s] = 1; b[39 + 2 * s] = 1; } } }
            _ => { b[..128].copy_from_slice(&QEMU_EDID); }
        },
    }
    with_sim(|s| { s.edid = b; s.edid_size = size; });
}
fn edid_scenario(ctx: &mut Ctx, feats: u64, n: u64, grid0: Option<u32>) {
    let mut life = match make(ctx, feats) { Some(l) => l, None => return };
    for i in 0..n {
        set_edid(ctx, grid0.map(|g| g + i as u32));
        if !op_get_edid(&mut life, ctx, 0, vec![]) { break; }
        if ctx.rng.chance(1, 8) { let which = ctx.rng.below(2) as u8; op_edid_driver(&mut life, ctx, which, vec![]); }
    }
    finish(life, ctx, false);
}

/// the witnesses of the finding C20_gpu_fb_size (corpus/findings), replayed on every run: sizes whose byte count
/// overflows u32 or is zero. Repaired code: refused with InvalidParam before anything is sent.
fn finding_fb_size(ctx: &mut Ctx) {
    for (i, (w, h)) in [(65536u32, 65536u32), (32768, 32769), (0, 27), (27, 0), (65536, 16384), (0x4000_0000, 4)].iter().enumerate() {
        ctx.tr.scenario(&format!("c20gpu-finding-fb-size-{}", i));
        let mut life = match make(ctx, F_V1) { Some(l) => l, None => return };
        if op_change(&mut life, ctx, 4, 4, vec![], false) && op_change(&mut life, ctx, *w, *h, vec![], false) { op_flush(&mut life, ctx, vec![]); }
        finish(life, ctx, false);
    }
}

/// lives of the GPU driver without device errors (also run under C09: memory the device still has attached as the backing
/// of a resource is not returned to the platform; monitor 2023)
pub fn run_backing(ctx: &mut Ctx) {
    let fsets = [F_EDID | F_V1, F_EDID | F_IND | F_V1, F_EDID | F_EV | F_V1, F_EDID | F_IND | F_EV | F_V1 | F_AP, F_V1, F_IND | F_EV, 0];
    for (i, f) in fsets.iter().enumerate() { ctx.tr.scenario(&format!("c20gpu-directed-{}", i)); directed(ctx, *f); }
    let n = ctx.budget(12, 10);
    for h in 0..n { ctx.tr.scenario(&format!("c20gpu-history-{}", h)); let nops = 12 + ctx.rng.below(20) as usize; history(ctx, fsets[h as usize % fsets.len()], nops, false); }
}

pub fn run(ctx: &mut Ctx) {
    finding_fb_size(ctx);
    let fsets = [F_EDID | F_V1, F_EDID | F_IND | F_V1, F_EDID | F_EV | F_V1, F_EDID | F_IND | F_EV | F_V1 | F_AP, F_V1, F_IND | F_EV, F_EDID | F_VIRGL | F_V1 | (1 << 40), 0];
    for (i, f) in fsets.iter().enumerate() { ctx.tr.scenario(&format!("c20gpu-directed-{}", i)); directed(ctx, *f); }
    let n = ctx.budget(48, 20);
    for h in 0..n { ctx.tr.scenario(&format!("c20gpu-history-{}", h)); let nops = 12 + ctx.rng.below(20) as usize; history(ctx, fsets[h as usize % fsets.len()], nops, false); }
    let n = ctx.budget(32, 20);
    for h in 0..n { ctx.tr.scenario(&format!("c20gpu-history-err-{}", h)); let nops = 8 + ctx.rng.below(16) as usize; history(ctx, fsets[h as usize % fsets.len()], nops, true); }
    for r in 0..ctx.budget(2, 10) { error_grid(ctx, fsets[r as usize % 4], r); }
    // EDID: the full (first byte x aspect ratio) grid = 128 blobs, then random / boundary blobs
    for g in 0..8u32 { ctx.tr.scenario(&format!("c20gpu-edid-grid-{}", g)); edid_scenario(ctx, fsets[g as usize % 4], 16, Some(g * 16)); }
    let n = ctx.budget(12, 40);
    for g in 0..n { ctx.tr.scenario(&format!("c20gpu-edid-{}", g)); edid_scenario(ctx, fsets[g as usize % 4], 50, None); }
    // one framebuffer just below the 4 GiB limit (largest expressible length)
    ctx.tr.scenario("c20gpu-large");
    if let Some(mut life) = make(ctx, F_V1) { op_change(&mut life, ctx, 65535, 16384, vec![], false); op_flush(&mut life, ctx, vec![]); op_change(&mut life, ctx, 2, 2, vec![], false); finish(life, ctx, false); }
}
