//! C05 at driver level: "every time a driver operation has made buffers available on queue q, the transport saw
//! notify(q) during that operation exactly when the specification's predicate says the device needs one", evaluated on
//! the REAL drivers (all eleven, built by scen/drivers.rs on the logging ModelTransport behind HookT).
//!  * the scripted device of this file keeps, per queue, the suppression words it wrote (used.flags, avail_event) and
//!    serves queues under one of three policies: never during the operation, on notify only, from the k-th iteration
//!    of a busy-wait on (k = 1: polls; larger: serves late); receive / event queues are completed explicitly with
//!    crafted contents (valid, malformed, short, oversized);
//!  * the observer (hook `verif::set_observer`) reads, at every store of an available index, the available index of
//!    EVERY registered queue from device memory (the hook's own arguments are not trusted) together with the words
//!    the device has there at that moment; `notify(q)` is seen through the transport; both go into one ordered list;
//!  * per operation and queue the list is cut into rounds: a round is the run of publications closed by notify(q) or by
//!    the end of the operation (Proofs/NotifyDrvProofs.v `groups`; `following_driver_passes` shows that a driver that
//!    asks should_notify after every publication passes).  Each round is one MONITOR line 155
//!    `[event_idx; new; old; ev; uflags; observed; size]`; a notify(q) without any publication is a round old = new;
//!  * blocking operations: a wait that does not end within SPIN_LIMIT iterations is given up (that IS the lost
//!    wake-up) and reported by MONITOR line 164 `[gave_up; policy; n; (event_idx; new; old; ev; uflags)*n]`;
//!  * suppression words are chosen INDEPENDENTLY per queue before every operation (flag set / clear / other bits;
//!    event index exactly at the next entry, one behind, inside / at the end of the batch, far ahead, half the ring
//!    away, at the wrap), feature words {0, EVENT_IDX, INDIRECT, both}, and the indices are taken to the 16-bit wrap
//!    by running 65 5xx cheap operations per queue (the drivers own their queues: no set_indices hook).
//!    The device does not change its words during an operation, except in the scenarios `c05-drv-moving-*` where a
//!    specification-following notification-driven device moves its event index when it serves.
use crate::hal;
use crate::scen::drivers::{self, ApHal, Built, Drv, HookT, Params, QScript};
use crate::tport::{ModelTransport, TState};
use crate::Ctx;
use std::cell::RefCell;
use std::collections::VecDeque;
use std::panic::{catch_unwind, AssertUnwindSafe};
use std::rc::Rc;
use virtio_drivers::device::blk::{BlkReq, BlkResp, VirtIOBlk};
use virtio_drivers::device::console::VirtIOConsole;
use virtio_drivers::device::input::VirtIOInput;
use virtio_drivers::device::net::{RxBuffer, TxBuffer, VirtIONet, VirtIONetRaw};
use virtio_drivers::device::socket::{ConnectionInfo, VirtIOSocket, VsockAddr, VsockConnectionManager};
use virtio_drivers::device::sound::{PcmFeatures, PcmFormat, PcmRate, VirtIOSound};
use virtio_drivers::verif::Event;
use virtio_drivers::Error;

type T = HookT<ModelTransport>;
const SPIN_LIMIT: u32 = 300;
const F_INDIRECT: u64 = 1 << 28;
const F_EVENT_IDX: u64 = 1 << 29;
const F_VERSION_1: u64 = 1 << 32;

#[derive(Clone, Copy, PartialEq, Eq, Debug)]
pub enum Policy { Never, OnNotify, Poll(u32) }
impl Policy {
    fn code(self) -> u128 { match self { Policy::OnNotify => 0, Policy::Poll(k) if k <= 1 => 1, Policy::Poll(_) => 2, Policy::Never => 3 } }
}

#[derive(Clone, Copy, Debug)]
struct QD { size: u32, desc: u64, drv: u64, dev: u64, seen: u16, used: u16, cur: u16 }
fn rd16(a: u64) -> u16 { hal::dev_read_u16(a).unwrap_or(0) }
impl QD {
    fn avail_idx(&self) -> u16 { rd16(self.drv + 2) }
    /// (avail_event, used.flags) as they stand in device memory
    fn words(&self) -> (u16, u16) { (rd16(self.dev + 4 + 8 * self.size as u64), rd16(self.dev)) }
    fn set_words(&self, uf: u16, ev: u16) {
        let _ = hal::dev_write_u16(self.dev, uf);
        let _ = hal::dev_write_u16(self.dev + 4 + 8 * self.size as u64, ev);
    }
}

#[derive(Clone, Copy, Debug)]
enum Evt { Pub { q: u16, old: u16, new: u16, ev: u16, uf: u16 }, Notify { q: u16, ev: u16, uf: u16 } }

struct Dev {
    kind: Drv, st: Rc<RefCell<TState>>, qs: Vec<Option<QD>>, policy: Policy, auto: Vec<u16>, evts: Vec<Evt>,
    spins: u32, gave_up: bool, moving: bool, display: (u32, u32),
}
thread_local! { static DEV: RefCell<Option<Dev>> = RefCell::new(None); }

fn rd_desc(b: &[u8]) -> (u64, u32, u16, u16) {
    (u64::from_le_bytes(b[0..8].try_into().unwrap()), u32::from_le_bytes(b[8..12].try_into().unwrap()),
     u16::from_le_bytes([b[12], b[13]]), u16::from_le_bytes([b[14], b[15]]))
}
/// the elements of the chain at `head` as a device reads them: (address, length, writable)
fn walk(q: &QD, head: u16) -> Vec<(u64, u32, bool)> {
    let n = q.size as usize;
    let mut els = vec![];
    if head as usize >= n { return els; }
    let Ok(b) = hal::dev_read(q.desc + 16 * head as u64, 16) else { return els };
    let (addr, len, flags, _) = rd_desc(&b);
    if flags & 4 != 0 {
        if let Ok(tbl) = hal::dev_read(addr, len as usize) {
            let m = len as usize / 16; let mut i = 0usize; let mut steps = 0;
            while i < m && steps <= m {
                let (a, l, f, nx) = rd_desc(&tbl[16 * i..16 * i + 16]);
                els.push((a, l, f & 2 != 0)); steps += 1;
                if f & 1 == 0 { break; }
                i = nx as usize;
            }
        }
    } else {
        let mut cur = head as usize; let mut steps = 0;
        while cur < n && steps <= n {
            let Ok(b) = hal::dev_read(q.desc + 16 * cur as u64, 16) else { break };
            let (a, l, f, nx) = rd_desc(&b);
            els.push((a, l, f & 2 != 0)); steps += 1;
            if f & 1 == 0 { break; }
            cur = nx as usize;
        }
    }
    els
}

impl Dev {
    fn refresh(&mut self, st: &TState) {
        for (i, qi) in st.queues.iter().enumerate() {
            if self.qs.len() <= i { self.qs.resize(i + 1, None); }
            if qi.set {
                let known = matches!(self.qs[i], Some(q) if q.desc == qi.desc && q.drv == qi.drv);
                if !known { self.qs[i] = Some(QD { size: qi.size, desc: qi.desc, drv: qi.drv, dev: qi.dev, seen: 0, used: 0, cur: 0 }); }
            }
        }
    }
    /// a store of an available index has just happened somewhere: which queue moved, and what does the device say there?
    fn scan(&mut self) {
        let st = self.st.clone();
        if let Ok(s) = st.try_borrow() { self.refresh(&s); }
        for i in 0..self.qs.len() {
            if let Some(mut q) = self.qs[i] {
                let a = q.avail_idx();
                if a != q.cur {
                    let (ev, uf) = q.words();
                    self.evts.push(Evt::Pub { q: i as u16, old: q.cur, new: a, ev, uf });
                    q.cur = a; self.qs[i] = Some(q);
                }
            }
        }
    }
    fn notified(&mut self, q: u16, st: &TState) {
        self.refresh(st);
        let (ev, uf) = self.qs.get(q as usize).copied().flatten().map(|q| q.words()).unwrap_or((0, 0));
        self.evts.push(Evt::Notify { q, ev, uf });
        if self.policy == Policy::OnNotify && self.auto.contains(&q) { self.serve_all(q); }
    }
    fn spin(&mut self) -> bool {
        self.spins += 1;
        if let Policy::Poll(k) = self.policy { if self.spins >= k { for q in self.auto.clone() { self.serve_all(q); } } }
        if self.spins > SPIN_LIMIT { self.gave_up = true; true } else { false }
    }
    fn default_resp(&self, q: u16, req: &[u8], wtotal: usize) -> (Vec<u8>, u32) {
        match (self.kind, q) {
            (Drv::Gpu, 0) => {
                let ty = if req.len() >= 4 { u32::from_le_bytes(req[0..4].try_into().unwrap()) } else { 0 };
                let mut r = vec![0u8; 24];
                if ty == 0x100 {
                    r[0..4].copy_from_slice(&0x1101u32.to_le_bytes());
                    r.extend([0u8; 8]); r.extend(self.display.0.to_le_bytes()); r.extend(self.display.1.to_le_bytes());
                    r.extend(1u32.to_le_bytes()); r.extend(0u32.to_le_bytes());
                } else if ty == 0x10a { r[0..4].copy_from_slice(&0x1104u32.to_le_bytes()); r.resize(wtotal.min(24 + 8 + 1024), 0); }
                else { r[0..4].copy_from_slice(&0x1100u32.to_le_bytes()); }
                let l = r.len() as u32; (r, l)
            }
            (Drv::Sound, 0) => (0x8000u32.to_le_bytes().to_vec(), 4),
            (Drv::Sound, 2) => { let mut r = 0x8000u32.to_le_bytes().to_vec(); r.extend(0u32.to_le_bytes()); (r, 8) }
            (Drv::P9, 0) => ((wtotal as u32).to_le_bytes().to_vec(), wtotal as u32),
            (Drv::NetRaw, 0) | (Drv::Net, 0) => { let mut r = vec![0u8; 12]; r.extend(vec![0x5au8; 60]); r.truncate(wtotal); let l = r.len() as u32; (r, l) }
            (Drv::Console, 0) => (vec![b'x'], 1),
            _ => (vec![0u8; wtotal.min(1 << 16)], wtotal as u32),
        }
    }
    /// complete the next available entry of queue q; `data`: what to write into the writable part, `ulen`: the used length
    fn serve_one(&mut self, qi: u16, data: Option<&[u8]>, ulen: Option<u32>) -> bool {
        let Some(mut q) = self.qs.get(qi as usize).copied().flatten() else { return false };
        let n = q.size as usize;
        if n == 0 { return false; }
        let aidx = q.avail_idx();
        if q.seen == aidx { return false; }
        let head = rd16(q.drv + 4 + 2 * ((q.seen as usize) & (n - 1)) as u64);
        let els = walk(&q, head);
        let mut req = vec![];
        for (a, l, w) in &els { if !*w { if let Ok(b) = hal::dev_read(*a, *l as usize) { req.extend(b); } } }
        let wtotal: usize = els.iter().filter(|e| e.2).map(|e| e.1 as usize).sum();
        let (resp, dl) = match data { Some(d) => (d.to_vec(), d.len() as u32), None => self.default_resp(qi, &req, wtotal) };
        let mut off = 0usize;
        for (a, l, w) in &els { if *w && off < resp.len() { let k = (resp.len() - off).min(*l as usize); let _ = hal::dev_write(*a, &resp[off..off + k]); off += k; } }
        let slot = (q.used as usize) & (n - 1);
        let _ = hal::dev_write_u32(q.dev + 4 + 8 * slot as u64, head as u32);
        let _ = hal::dev_write_u32(q.dev + 8 + 8 * slot as u64, ulen.unwrap_or(dl));
        q.used = q.used.wrapping_add(1);
        let _ = hal::dev_write_u16(q.dev + 2, q.used);
        q.seen = q.seen.wrapping_add(1);
        // a specification-following device: "tell me when the entry I have not seen yet becomes available"
        if self.moving { let _ = hal::dev_write_u16(q.dev + 4 + 8 * n as u64, q.seen); }
        self.qs[qi as usize] = Some(q);
        true
    }
    fn serve_all(&mut self, q: u16) { let mut k = 0; while self.serve_one(q, None, None) { k += 1; if k > 70000 { break; } } }
}

fn observer(e: Event) {
    match e {
        Event::Store { what: 2, .. } => DEV.with(|d| { if let Some(d) = d.borrow_mut().as_mut() { d.scan(); } }),
        Event::Spin(_) => {
            let give_up = DEV.with(|d| d.borrow_mut().as_mut().map(|d| d.spin()).unwrap_or(false));
            if give_up { panic!("C05: a blocking driver operation waits on a device that will never serve it"); }
        }
        _ => {}
    }
}
fn with_dev<R>(f: impl FnOnce(&mut Dev) -> R) -> R { DEV.with(|d| f(d.borrow_mut().as_mut().expect("device"))) }
/// the device completes the next buffer of queue q with these bytes (used length `ulen`, default their length)
fn deliver(q: u16, data: &[u8], ulen: Option<u32>) -> bool { with_dev(|d| d.serve_one(q, Some(data), ulen)) }
fn serve(q: u16) { with_dev(|d| d.serve_all(q)) }
fn qd(q: u16) -> Option<QD> { with_dev(|d| d.qs.get(q as usize).copied().flatten()) }
fn pending(q: u16) -> bool { qd(q).map(|q| q.avail_idx() != q.seen).unwrap_or(false) }

/// what the scenario knows of the driver under test
struct Meta { d: Drv, eidx: bool, nq: u16, quiet: bool, opn: u64, broken: bool, moving: bool }

fn prune() {
    hal::LEDGER.with(|l| { let mut l = l.borrow_mut(); l.shares.retain(|s| s.live); l.log.clear(); });
    drivers::clear_records();
}

/// run one driver operation with the device in `policy` for the queues `auto`; emit one 155 line per round and queue,
/// and a 164 line if the operation is a blocking one
fn run_op<R>(ctx: &mut Ctx, m: &mut Meta, name: &str, policy: Policy, auto: &[u16], blocking: bool, f: impl FnOnce() -> R) -> Option<R> {
    m.opn += 1;
    if m.opn % 64 == 0 { prune(); }
    with_dev(|d| {
        d.policy = policy; d.auto = auto.to_vec(); d.evts.clear(); d.spins = 0; d.gave_up = false;
        let st = d.st.clone(); if let Ok(s) = st.try_borrow() { d.refresh(&s); }
        for i in 0..d.qs.len() { if let Some(mut q) = d.qs[i] { q.cur = q.avail_idx(); d.qs[i] = Some(q); } }
    });
    let r = catch_unwind(AssertUnwindSafe(f));
    let (evts, gave_up, spins, sizes) = with_dev(|d| {
        d.scan();
        d.policy = Policy::Never; d.auto.clear();
        (std::mem::take(&mut d.evts), d.gave_up, d.spins, d.qs.iter().map(|q| q.map(|q| q.size).unwrap_or(0)).collect::<Vec<u32>>())
    });
    // rounds per queue: (q, old, new, ev, uf, observed)
    let mut rounds: Vec<(u16, u16, u16, u16, u16, bool)> = vec![];
    for q in 0..sizes.len() as u16 {
        let mut open: Option<(u16, u16, u16, u16)> = None; // old, new, ev, uf
        let mut last_new: Option<u16> = None;
        for e in &evts {
            match *e {
                Evt::Pub { q: qq, old, new, ev, uf } if qq == q => {
                    match open {
                        // the device changed its words since the round began (moving scenarios): the round so far ended silent
                        Some((o, n, e0, u0)) if (e0, u0) != (ev, uf) => { rounds.push((q, o, n, e0, u0, false)); open = Some((old, new, ev, uf)); }
                        Some((o, _, e0, u0)) => open = Some((o, new, e0, u0)),
                        None => open = Some((old, new, ev, uf)),
                    }
                    last_new = Some(new);
                }
                Evt::Notify { q: qq, ev, uf } if qq == q => {
                    match open.take() {
                        Some((o, n, e0, u0)) => rounds.push((q, o, n, e0, u0, true)),
                        // a notification although nothing was made available since the last one
                        None => { let a = last_new.unwrap_or_else(|| qd(q).map(|x| x.cur).unwrap_or(0)); rounds.push((q, a, a, ev, uf, true)); }
                    }
                }
                _ => {}
            }
        }
        if let Some((o, n, e0, u0)) = open { rounds.push((q, o, n, e0, u0, false)); }
    }
    let emit = !m.quiet || m.opn % 97 == 0 || gave_up || r.is_err();
    if emit && (!rounds.is_empty() || blocking) {
        ctx.tr.comment(&format!("drv={} op={} policy={:?} auto={:?} rounds={} spins={}", m.d.name(), name, policy, auto, rounds.len(), spins));
    }
    let eidx = m.eidx as u128;
    if emit {
        for (q, old, new, ev, uf, obs) in &rounds {
            ctx.tr.line(155, &[eidx, *new as u128, *old as u128, *ev as u128, *uf as u128, *obs as u128, sizes[*q as usize] as u128], &[1]);
            let required = if m.eidx { (new.wrapping_sub(*ev).wrapping_sub(1)) < new.wrapping_sub(*old) } else { uf & 1 == 0 };
            ctx.tr.note(if required { "drv_round_required" } else { "drv_round_not_required" });
            if new < old { ctx.tr.note("drv_round_crosses_wrap"); }
            if *old >= 0xffc0 || (*new < 0x40 && *ev >= 0xff00) { ctx.tr.note("drv_round_next_to_the_wrap"); }
            if new == old { ctx.tr.note("drv_notify_without_publication"); }
            if new.wrapping_sub(*old) > 1 { ctx.tr.note("drv_round_of_several_entries"); }
        }
        if rounds.iter().map(|r| r.0).collect::<std::collections::BTreeSet<u16>>().len() > 1 { ctx.tr.note("drv_op_on_several_queues"); }
        if rounds.len() > 1 { ctx.tr.note("drv_op_of_several_rounds"); }
        if blocking {
            let rs: Vec<&(u16, u16, u16, u16, u16, bool)> = rounds.iter().filter(|r| auto.contains(&r.0) && r.1 != r.2).collect();
            let mut ins = vec![gave_up as u128, policy.code(), rs.len() as u128];
            for (_, old, new, ev, uf, _) in rs { ins.extend([eidx, *new as u128, *old as u128, *ev as u128, *uf as u128]); }
            ctx.tr.line(164, &ins, &[1]);
            ctx.tr.note(&format!("drv_blocking_policy_{}", policy.code()));
        }
        ctx.tr.note(&format!("drv_{}_{}", m.d.name(), name));
    }
    if gave_up { ctx.tr.note("drv_gave_up"); }
    match r {
        Ok(v) => Some(v),
        Err(_) => { m.broken = true; if !gave_up { ctx.tr.note("drv_op_panicked"); ctx.tr.comment(&format!("drv={} op={} panicked", m.d.name(), name)); } None }
    }
}

/// suppression words for a queue whose next entry has index a0
fn pick_words(ctx: &mut Ctx, a0: u16, batch: u16) -> (u16, u16) {
    let uf = match ctx.rng.below(10) { 0..=3 => 0, 4..=6 => 1, 7 => *ctx.rng.pick(&[2u16, 0xfffe, 0x8000]), 8 => *ctx.rng.pick(&[3u16, 0xffff, 0x8001]), _ => ctx.rng.next() as u16 };
    let ev = match ctx.rng.below(12) {
        0..=2 => a0,                                  // exactly the next entry
        3 => a0.wrapping_sub(1),                      // the old index: one behind
        4 => a0.wrapping_add(1),
        5 => a0.wrapping_add(batch.saturating_sub(1)),
        6 => a0.wrapping_add(batch),
        7 => a0.wrapping_add(0x4000),                 // far ahead
        8 => a0.wrapping_add(*ctx.rng.pick(&[0x7fffu16, 0x8000, 0x8001])),
        9 => *ctx.rng.pick(&[0u16, 1, 0xffff, 0xfffe, 0x7fff, 0x8000]),
        10 => a0.wrapping_sub(ctx.rng.below(6) as u16),
        _ => ctx.rng.next() as u16,
    };
    (uf, ev)
}
/// new words on every queue, chosen independently; notes whether the queues now disagree
fn randomize_words(ctx: &mut Ctx, m: &Meta, batch: u16) {
    let mut need: Vec<bool> = vec![];
    for q in 0..m.nq {
        if let Some(x) = qd(q) {
            let a0 = x.avail_idx();
            let (uf, ev) = pick_words(ctx, a0, batch);
            x.set_words(uf, ev);
            need.push(if m.eidx { ev == a0 } else { uf & 1 == 0 });
        }
    }
    if need.iter().any(|b| *b) && need.iter().any(|b| !*b) { ctx.tr.note("drv_queues_disagree"); }
}
/// does the specification want a notification for the next entry of q, as the words stand?
fn need_now(m: &Meta, q: u16) -> bool {
    match qd(q) { Some(x) => { let (ev, uf) = x.words(); if m.eidx { ev == x.avail_idx() } else { uf & 1 == 0 } } None => false }
}
/// a policy for a blocking operation that is consistent with the words the device wrote: a device that is not going to
/// be told has to poll; `multi`: the operation publishes more than once on some served queue
fn pick_policy(ctx: &mut Ctx, m: &Meta, auto: &[u16], multi: bool) -> Policy {
    if m.moving { return Policy::OnNotify; }
    let told = auto.iter().all(|q| need_now(m, *q)) && !(m.eidx && multi);
    if told && ctx.rng.chance(2, 3) { Policy::OnNotify } else if ctx.rng.chance(1, 4) { Policy::Poll(2 + ctx.rng.below(40) as u32) } else { Policy::Poll(1) }
}
fn pick_nb_policy(ctx: &mut Ctx) -> Policy { *ctx.rng.pick(&[Policy::Never, Policy::Never, Policy::OnNotify, Policy::Poll(1)]) }

/// lo .. lo+span-1 random bytes
fn rbytes(ctx: &mut Ctx, lo: usize, span: u64) -> Vec<u8> { let n = lo + ctx.rng.below(span) as usize; ctx.rng.bytes(n) }

fn feat_name(f: u64) -> String { format!("{}{}", if f & F_EVENT_IDX != 0 { "e" } else { "-" }, if f & F_INDIRECT != 0 { "i" } else { "-" }) }

/// construct driver `d` (the constructor is the first monitored operation: the device wrote the scripted words when each
/// queue was registered)
fn open(ctx: &mut Ctx, d: Drv, feat: u64, moving: bool) -> Option<(Box<Built<T>>, Meta)> {
    drivers::reset_platform(0x4000_0000_0000);
    virtio_drivers::verif::set_observer(Some(observer));
    let mut st = TState::new(d.device_type(), feat, d.nqueues(), 256);
    st.legacy = ctx.rng.chance(1, 4);
    st.config = match d {
        Drv::Sound => { let mut c = vec![]; for v in [ctx.rng.below(3) as u32, 1 + ctx.rng.below(2) as u32, ctx.rng.below(3) as u32] { c.extend(v.to_le_bytes()); } c }
        _ => d.config(&mut ctx.rng),
    };
    let (mt, tst) = ModelTransport::new(st);
    tst.borrow_mut().on_notify = Some(Box::new(|q, s| DEV.with(|d| { if let Some(d) = d.borrow_mut().as_mut() { d.notified(q, s); } })));
    let (ht, script) = HookT::new(mt);
    let eidx = feat & F_EVENT_IDX != 0;
    for q in 0..d.nqueues() as u16 {
        // a fresh queue: the next entry has index 0
        let (uf, ev) = if moving { (0, 0) } else { pick_words(ctx, 0, 8) };
        script.borrow_mut().q.insert(q, QScript { used: None, max: None, uflags: uf, aevent: ev });
    }
    DEV.with(|dv| *dv.borrow_mut() = Some(Dev { kind: d, st: tst.clone(), qs: vec![], policy: Policy::Never, auto: vec![], evts: vec![], spins: 0,
        gave_up: false, moving, display: (64, 48) }));
    let mut m = Meta { d, eidx, nq: d.nqueues() as u16, quiet: false, opn: 0, broken: false, moving };
    let p = Params::default();
    let r = run_op(ctx, &mut m, "new", Policy::Never, &[], false, move || drivers::build(d, ht, p));
    script.borrow_mut().q.clear();
    match r {
        Some(Ok(b)) => {
            let neg = tst.borrow().driver_features;
            if (neg & F_EVENT_IDX != 0) != eidx { ctx.tr.comment("negotiated EVENT_IDX differs from the offer"); m.eidx = neg & F_EVENT_IDX != 0; }
            Some((b, m))
        }
        _ => { ctx.tr.note("drv_new_failed"); close_platform(); None }
    }
}
fn close_platform() {
    DEV.with(|d| *d.borrow_mut() = None);
    let _ = drivers::take_records();
}
fn close(b: Box<Built<T>>) {
    let _ = catch_unwind(AssertUnwindSafe(move || drop(b)));
    close_platform();
}

// ------------------------------------------------------------------------------------------------
// per-driver operation menus.  `step(.., op)` performs one operation (and the harmless clean-up that keeps the
// queue from filling); ops named in `cycle(q)` publish exactly once on queue q and are used to reach the wrap.
trait Menu {
    fn nops(&self) -> u64;
    /// one operation; words have been chosen by the caller
    fn step(&mut self, ctx: &mut Ctx, m: &mut Meta, op: u64);
    /// operations that, run in this order, publish on queue q and leave the driver idle again
    fn cycle(&self, q: u16) -> Option<Vec<u64>>;
    fn wrap_queues(&self) -> Vec<u16>;
    /// multi-round blocking operations for the moving-words scenario
    fn moving_ops(&self) -> Vec<u64> { vec![] }
}

// ---- VirtIONetRaw ----
struct NetRawM { x: VirtIONetRaw<ApHal, T, 8>, rx: VecDeque<(u16, Vec<u8>)>, tx: VecDeque<(u16, Vec<u8>)> }
impl NetRawM {
    fn rx_complete(&mut self, ctx: &mut Ctx, m: &mut Meta) {
        if let Some((tok, mut buf)) = self.rx.pop_front() {
            let mut pkt = vec![0u8; 12]; pkt.extend(rbytes(ctx, 1, 64));
            deliver(0, &pkt, None);
            let x = &mut self.x;
            let _ = run_op(ctx, m, "receive_complete", Policy::Never, &[], false, || unsafe { x.receive_complete(tok, &mut buf) });
        }
    }
    fn tx_complete(&mut self, ctx: &mut Ctx, m: &mut Meta) {
        if let Some((tok, buf)) = self.tx.pop_front() {
            serve(1);
            let x = &mut self.x;
            let _ = run_op(ctx, m, "transmit_complete", Policy::Never, &[], false, || unsafe { x.transmit_complete(tok, &buf) });
        }
    }
}
impl Menu for NetRawM {
    fn nops(&self) -> u64 { 7 }
    fn step(&mut self, ctx: &mut Ctx, m: &mut Meta, op: u64) {
        match op {
            0 => { // receive_begin
                if self.rx.len() >= 8 { self.rx_complete(ctx, m); }
                let len = if ctx.rng.chance(1, 16) { 100 } else { 1526 + ctx.rng.below(500) as usize };
                let mut buf = vec![0u8; len];
                let x = &mut self.x; let bp: *mut [u8] = &mut buf[..];
                let pol = pick_nb_policy(ctx);
                if let Some(Ok(tok)) = run_op(ctx, m, "receive_begin", pol, &[], false, || unsafe { x.receive_begin(&mut *bp) }) { self.rx.push_back((tok, buf)); }
            }
            1 => self.rx_complete(ctx, m),
            2 => { // transmit_begin
                if self.tx.len() >= 8 { self.tx_complete(ctx, m); }
                let mut buf = vec![0u8; 12 + ctx.rng.below(200) as usize];
                let _ = self.x.fill_buffer_header(&mut buf);
                let x = &mut self.x; let bp: *const [u8] = &buf[..];
                let pol = pick_nb_policy(ctx);
                if let Some(Ok(tok)) = run_op(ctx, m, "transmit_begin", pol, &[1], false, || unsafe { x.transmit_begin(&*bp) }) { self.tx.push_back((tok, buf)); }
            }
            3 => self.tx_complete(ctx, m),
            4 | 5 => { // send (blocking): nothing else may be outstanding on the queue
                while !self.tx.is_empty() { self.tx_complete(ctx, m); }
                let n = *ctx.rng.pick(&[0usize, 1, 60, 1514]);
                let data = ctx.rng.bytes(n);
                let pol = pick_policy(ctx, m, &[1], false);
                let x = &mut self.x;
                let _ = run_op(ctx, m, "send", pol, &[1], true, || x.send(&data));
            }
            _ => { // receive_wait (blocking on the receive queue)
                while !self.rx.is_empty() { self.rx_complete(ctx, m); }
                let mut buf = vec![0u8; 1600];
                let pol = pick_policy(ctx, m, &[0], false);
                let x = &mut self.x;
                let _ = run_op(ctx, m, "receive_wait", pol, &[0], true, || x.receive_wait(&mut buf));
            }
        }
    }
    fn cycle(&self, q: u16) -> Option<Vec<u64>> { Some(if q == 0 { vec![0, 1] } else { vec![2, 3] }) }
    fn wrap_queues(&self) -> Vec<u16> { vec![0, 1] }
    fn moving_ops(&self) -> Vec<u64> { vec![4, 6] }
}

// ---- VirtIONet (buffered) ----
struct NetM { x: VirtIONet<ApHal, T, 8>, held: Vec<RxBuffer> }
impl Menu for NetM {
    fn nops(&self) -> u64 { 4 }
    fn step(&mut self, ctx: &mut Ctx, m: &mut Meta, op: u64) {
        match op {
            0 => { // a packet arrives and is received
                if self.held.len() >= 8 { return self.step(ctx, m, 1); }
                let mut pkt = vec![0u8; 12]; pkt.extend(rbytes(ctx, 1, 64));
                if !deliver(0, &pkt, None) { return; }
                let x = &mut self.x;
                if let Some(Ok(b)) = run_op(ctx, m, "receive", Policy::Never, &[], false, || x.receive()) { self.held.push(b); }
            }
            1 => { // recycle_rx_buffer
                if self.held.is_empty() { self.step(ctx, m, 0); }
                if let Some(b) = self.held.pop() {
                    let x = &mut self.x;
                    let pol = pick_nb_policy(ctx);
                    let _ = run_op(ctx, m, "recycle_rx_buffer", pol, &[], false, || x.recycle_rx_buffer(b));
                }
            }
            _ => {
                let n = *ctx.rng.pick(&[0usize, 1, 61, 1514]);
                let data = ctx.rng.bytes(n);
                let pol = pick_policy(ctx, m, &[1], false);
                let x = &mut self.x;
                let _ = run_op(ctx, m, "send", pol, &[1], true, || x.send(TxBuffer::from(&data)));
            }
        }
    }
    fn cycle(&self, q: u16) -> Option<Vec<u64>> { Some(if q == 0 { vec![0, 1] } else { vec![2] }) }
    fn wrap_queues(&self) -> Vec<u16> { vec![0] }
    fn moving_ops(&self) -> Vec<u64> { vec![2] }
}

// ---- vsock ----
fn vsock_hdr(src_cid: u64, dst_cid: u64, src_port: u32, dst_port: u32, len: u32, ty: u16, op: u16, buf_alloc: u32, fwd_cnt: u32) -> Vec<u8> {
    let mut v = vec![];
    v.extend(src_cid.to_le_bytes()); v.extend(dst_cid.to_le_bytes()); v.extend(src_port.to_le_bytes()); v.extend(dst_port.to_le_bytes());
    v.extend(len.to_le_bytes()); v.extend(ty.to_le_bytes()); v.extend(op.to_le_bytes()); v.extend(0u32.to_le_bytes());
    v.extend(buf_alloc.to_le_bytes()); v.extend(fwd_cnt.to_le_bytes());
    v
}
/// an rx completion: kind 0 valid, 1 invalid operation, 2 header/length mismatch, 3 shorter than a header, 4 used length
/// above the buffer, 5 data in a packet that must not carry any; returns (bytes written, used length)
fn vsock_packet(ctx: &mut Ctx, guest: u64, kind: u64, op: u16, peer_port: u32, local_port: u32) -> (Vec<u8>, Option<u32>) {
    match kind {
        0 => {
            if op == 5 { let body = rbytes(ctx, 1, 32); let mut p = vsock_hdr(2, guest, peer_port, local_port, body.len() as u32, 1, 5, 65536, 0); p.extend(body); (p, None) }
            else { (vsock_hdr(2, guest, peer_port, local_port, 0, 1, op, 65536, 0), None) }
        }
        1 => (vsock_hdr(2, guest, peer_port, local_port, 0, 1, *ctx.rng.pick(&[0u16, 8, 99, 0xffff]), 65536, 0), None),
        2 => (vsock_hdr(2, guest, peer_port, local_port, 100 + ctx.rng.below(400) as u32, 1, 5, 65536, 0), Some(44 + ctx.rng.below(20) as u32)),
        3 => { let n = ctx.rng.below(44) as usize; (ctx.rng.bytes(n), Some(n as u32)) }
        4 => (vsock_hdr(2, guest, peer_port, local_port, 0, 1, 2, 65536, 0), Some(*ctx.rng.pick(&[513u32, 600, 0xffff, 0x10000, u32::MAX]))),
        _ => (vsock_hdr(2, guest, peer_port, local_port, 7, 1, *ctx.rng.pick(&[1u16, 2, 3, 4, 6, 7]), 65536, 0), Some(44 + 7)),
    }
}
struct SockM { x: VirtIOSocket<ApHal, T, 512> }
impl Menu for SockM {
    fn nops(&self) -> u64 { 8 }
    fn step(&mut self, ctx: &mut Ctx, m: &mut Meta, op: u64) {
        let guest = self.x.guest_cid();
        match op {
            0 => { // connect
                let info = ConnectionInfo::new(VsockAddr { cid: 2, port: 1000 + ctx.rng.below(50) as u32 }, 4000 + ctx.rng.below(50) as u32);
                let pol = pick_policy(ctx, m, &[1], false);
                let x = &mut self.x;
                let _ = run_op(ctx, m, "connect", pol, &[1], true, || x.connect(&info));
            }
            1 | 2 => { // send: with credit, without credit (a credit request goes out instead), empty
                let mut info = ConnectionInfo::new(VsockAddr { cid: 2, port: 1001 }, 4001);
                let n = *ctx.rng.pick(&[0usize, 1, 17, 400]);
                let credit = op == 1 || ctx.rng.chance(1, 2);
                info.verif_set_counters(if credit { 65536 } else { 0 }, 0, 0, 0, ctx.rng.chance(1, 4));
                let data = ctx.rng.bytes(n);
                let pol = pick_policy(ctx, m, &[1], false);
                let x = &mut self.x;
                let _ = run_op(ctx, m, if credit { "send" } else { "send_without_credit" }, pol, &[1], true, || x.send(&data, &mut info));
            }
            3 => { // shutdown / force_close / credit_update
                let info = ConnectionInfo::new(VsockAddr { cid: 2, port: 1001 }, 4001);
                let pol = pick_policy(ctx, m, &[1], false);
                let x = &mut self.x; let which = ctx.rng.below(3);
                let _ = run_op(ctx, m, "control_packet", pol, &[1], true, || match which { 0 => x.shutdown(&info), 1 => x.force_close(&info), _ => x.credit_update(&info) });
            }
            _ => { // poll after the device completed an rx buffer
                let kind = match op { 4 => 0, 5 => 1 + ctx.rng.below(5), _ => ctx.rng.below(6) };
                let vop = *ctx.rng.pick(&[1u16, 2, 3, 4, 5, 5, 6, 7]);
                let (bytes, ulen) = vsock_packet(ctx, guest, kind, vop, 1001, 4001);
                if op != 7 || ctx.rng.chance(3, 4) { deliver(0, &bytes, ulen); }
                let hres = ctx.rng.below(3);
                let pol = pick_nb_policy(ctx);
                let x = &mut self.x;
                let r = run_op(ctx, m, match kind { 0 => "poll", 1 => "poll_invalid_op", 2 => "poll_len_mismatch", 3 => "poll_short", 4 => "poll_oversized", _ => "poll_unexpected_data" },
                    pol, &[], false, || x.poll(|ev, _body| match hres { 0 => Ok(Some(ev)), 1 => Ok(None), _ => Err(Error::IoError) }));
                match r { Some(Ok(_)) => ctx.tr.note("drv_vsock_poll_ok"), Some(Err(_)) => ctx.tr.note("drv_vsock_poll_err"), None => {} }
            }
        }
    }
    fn cycle(&self, q: u16) -> Option<Vec<u64>> { Some(if q == 0 { vec![4] } else { vec![0] }) }
    fn wrap_queues(&self) -> Vec<u16> { vec![0, 1] }
    fn moving_ops(&self) -> Vec<u64> { vec![0, 1] }
}
struct MgrM { x: VsockConnectionManager<ApHal, T, 512>, guest: u64, conns: Vec<(u32, u32)> }
impl Menu for MgrM {
    fn nops(&self) -> u64 { 6 }
    fn step(&mut self, ctx: &mut Ctx, m: &mut Meta, op: u64) {
        let guest = self.guest;
        match op {
            0 => { // connect (blocking on tx)
                let (pp, lp) = (2000 + ctx.rng.below(1000) as u32, 5000 + ctx.rng.below(1000) as u32);
                let pol = pick_policy(ctx, m, &[1], false);
                let x = &mut self.x;
                if let Some(Ok(())) = run_op(ctx, m, "mgr_connect", pol, &[1], true, || x.connect(VsockAddr { cid: 2, port: pp }, lp)) { self.conns.push((pp, lp)); }
            }
            1 => { // send on a connection (established or not: the driver does not check)
                if self.conns.is_empty() { return self.step(ctx, m, 0); }
                let (pp, lp) = *ctx.rng.pick(&self.conns);
                let data = rbytes(ctx, 1, 40);
                let pol = pick_policy(ctx, m, &[1], false);
                let x = &mut self.x;
                let _ = run_op(ctx, m, "mgr_send", pol, &[1], true, || x.send(VsockAddr { cid: 2, port: pp }, lp, &data));
            }
            _ => { // poll: the re-queue on rx, and for some events a packet on tx in the same call
                let (bytes, ulen, name): (Vec<u8>, Option<u32>, &str) = match ctx.rng.below(9) {
                    0 => (vsock_hdr(2, guest, 3000 + ctx.rng.below(100) as u32, 1234, 0, 1, 1, 65536, 0), None, "mgr_poll_request_listening"),
                    1 => (vsock_hdr(2, guest, 3000 + ctx.rng.below(100) as u32, 99, 0, 1, 1, 65536, 0), None, "mgr_poll_request_not_listening"),
                    2 if !self.conns.is_empty() => { let (pp, lp) = *ctx.rng.pick(&self.conns); (vsock_hdr(2, guest, pp, lp, 0, 1, 7, 65536, 0), None, "mgr_poll_credit_request") }
                    3 if !self.conns.is_empty() => { let (pp, lp) = *ctx.rng.pick(&self.conns); (vsock_hdr(2, guest, pp, lp, 0, 1, 2, 65536, 0), None, "mgr_poll_connected") }
                    4 if !self.conns.is_empty() => { let (pp, lp) = *ctx.rng.pick(&self.conns); let body = rbytes(ctx, 1, 30);
                        let mut p = vsock_hdr(2, guest, pp, lp, body.len() as u32, 1, 5, 65536, 0); p.extend(body); (p, None, "mgr_poll_data") }
                    5 if !self.conns.is_empty() => { let k = ctx.rng.below(self.conns.len() as u64) as usize; let (pp, lp) = self.conns.remove(k);
                        (vsock_hdr(2, guest, pp, lp, 0, 1, 4, 65536, 0), None, "mgr_poll_shutdown") }
                    6 => { let k = 1 + ctx.rng.below(5); let (b, u) = vsock_packet(ctx, guest, k, 2, 1, 1); (b, u, "mgr_poll_malformed") }
                    7 => (vec![], None, "mgr_poll_nothing"),
                    _ => (vsock_hdr(2, guest, 77, 78, 0, 1, 6, 65536, 0), None, "mgr_poll_unknown_connection"),
                };
                if name != "mgr_poll_nothing" { deliver(0, &bytes, ulen); }
                let pol = pick_policy(ctx, m, &[1], false);
                let x = &mut self.x;
                let _ = run_op(ctx, m, name, pol, &[1], true, || x.poll());
            }
        }
    }
    fn cycle(&self, _q: u16) -> Option<Vec<u64>> { None }
    fn wrap_queues(&self) -> Vec<u16> { vec![] }
}

// ---- sound ----
struct SoundM { x: VirtIOSound<ApHal, T>, toks: VecDeque<u16>, ready: bool }
impl SoundM {
    fn ensure(&mut self, ctx: &mut Ctx, m: &mut Meta) {
        if self.ready { return; }
        // the first request also runs set_up(): up to four requests on the control queue in one operation
        let pol = pick_policy(ctx, m, &[0], true);
        let x = &mut self.x;
        if let Some(Ok(())) = run_op(ctx, m, "pcm_set_params", pol, &[0], true, || x.pcm_set_params(0, 128, 32, PcmFeatures::empty(), 2, PcmFormat::U8, PcmRate::Rate8000)) { self.ready = true; }
    }
    fn xfer_done(&mut self, ctx: &mut Ctx, m: &mut Meta) {
        if let Some(t) = self.toks.pop_front() {
            serve(2);
            let x = &mut self.x;
            let _ = run_op(ctx, m, "pcm_xfer_ok", Policy::Never, &[], false, || x.pcm_xfer_ok(t));
        }
    }
}
impl Menu for SoundM {
    fn nops(&self) -> u64 { 7 }
    fn step(&mut self, ctx: &mut Ctx, m: &mut Meta, op: u64) {
        self.ensure(ctx, m);
        if !self.ready || m.broken { return; }
        match op {
            0 | 1 => { // latest_notification after an event: valid, unknown code, short, oversized
                let (bytes, ulen, name): (Vec<u8>, Option<u32>, &str) = match if op == 0 { 0 } else { 1 + ctx.rng.below(4) } {
                    0 => { let mut b = ctx.rng.pick(&[0x1000u32, 0x1001, 0x1100, 0x1101]).to_le_bytes().to_vec(); b.extend((ctx.rng.below(4) as u32).to_le_bytes()); (b, None, "latest_notification") }
                    1 => { let mut b = ctx.rng.pick(&[0u32, 0x1002, 0x10ff, 0x1102, 0x8000, u32::MAX]).to_le_bytes().to_vec(); b.extend(0u32.to_le_bytes()); (b, None, "latest_notification_unknown_code") }
                    2 => { let n = ctx.rng.below(8) as usize; (ctx.rng.bytes(n), Some(n as u32), "latest_notification_short") }
                    3 => (vec![0, 0x10, 0, 0, 1, 0, 0, 0], Some(*ctx.rng.pick(&[9u32, 16, 0xffff, u32::MAX])), "latest_notification_oversized"),
                    _ => (vec![], None, "latest_notification_nothing"),
                };
                if name != "latest_notification_nothing" { deliver(1, &bytes, ulen); }
                let pol = pick_nb_policy(ctx);
                let x = &mut self.x;
                let r = run_op(ctx, m, name, pol, &[], false, || x.latest_notification());
                match r { Some(Ok(_)) => ctx.tr.note("drv_sound_event_ok"), Some(Err(_)) => ctx.tr.note("drv_sound_event_err"), None => {} }
            }
            2 => { // pcm_xfer_nb
                if self.toks.len() >= 8 { self.xfer_done(ctx, m); }
                let frames = ctx.rng.bytes(32);
                let pol = pick_nb_policy(ctx);
                let x = &mut self.x;
                if let Some(Ok(t)) = run_op(ctx, m, "pcm_xfer_nb", pol, &[2], false, || x.pcm_xfer_nb(0, &frames)) { self.toks.push_back(t); }
            }
            3 => self.xfer_done(ctx, m),
            4 => { // pcm_xfer (blocking, one add + check per period)
                while !self.toks.is_empty() { self.xfer_done(ctx, m); }
                let k = 1 + ctx.rng.below(6) as usize;
                let cut = ctx.rng.below(2) as usize * 5; let frames = ctx.rng.bytes(32 * k - cut);
                let pol = pick_policy(ctx, m, &[2], k > 1);
                let x = &mut self.x;
                let _ = run_op(ctx, m, "pcm_xfer", pol, &[2], true, || x.pcm_xfer(0, &frames));
            }
            _ => { // one control request
                let pol = pick_policy(ctx, m, &[0], false);
                let x = &mut self.x; let which = ctx.rng.below(4);
                let _ = run_op(ctx, m, "pcm_control", pol, &[0], true, || match which { 0 => x.pcm_prepare(0), 1 => x.pcm_start(0), 2 => x.pcm_stop(0), _ => x.pcm_release(0) });
            }
        }
    }
    fn cycle(&self, q: u16) -> Option<Vec<u64>> { match q { 0 => Some(vec![5]), 1 => Some(vec![0]), 2 => Some(vec![2, 3]), _ => None } }
    fn wrap_queues(&self) -> Vec<u16> { vec![1, 2] }
    fn moving_ops(&self) -> Vec<u64> { vec![4, 5] }
}

// ---- input ----
struct InputM { x: VirtIOInput<ApHal, T> }
impl Menu for InputM {
    fn nops(&self) -> u64 { 3 }
    fn step(&mut self, ctx: &mut Ctx, m: &mut Meta, op: u64) {
        // zero, one or several events arrive; one is popped (and its buffer re-queued)
        let n = match op { 0 => 1, 1 => ctx.rng.below(4), _ => 0 };
        for _ in 0..n { let ev = ctx.rng.bytes(8); deliver(0, &ev, if ctx.rng.chance(1, 10) { Some(ctx.rng.below(20) as u32) } else { None }); }
        let pol = pick_nb_policy(ctx);
        let x = &mut self.x;
        let _ = run_op(ctx, m, "pop_pending_event", pol, &[], false, || x.pop_pending_event());
    }
    fn cycle(&self, _q: u16) -> Option<Vec<u64>> { Some(vec![0]) }
    fn wrap_queues(&self) -> Vec<u16> { vec![0] }
}

// ---- console ----
struct ConsoleM { x: VirtIOConsole<ApHal, T> }
impl Menu for ConsoleM {
    fn nops(&self) -> u64 { 4 }
    fn step(&mut self, ctx: &mut Ctx, m: &mut Meta, op: u64) {
        match op {
            0 => { // bytes arrive; they are read one by one; the last read re-posts the receive buffer
                let n = if pending(0) { 1 + ctx.rng.below(3) as usize } else { 0 };
                if n > 0 { let b = ctx.rng.bytes(n); deliver(0, &b, None); }
                for _ in 0..n.max(1) {
                    let pol = pick_nb_policy(ctx);
                    let x = &mut self.x;
                    let _ = run_op(ctx, m, "recv", pol, &[], false, || x.recv(true));
                }
            }
            1 => { let x = &mut self.x; let _ = run_op(ctx, m, "recv_peek", Policy::Never, &[], false, || x.recv(false)); }
            2 => { let pol = pick_policy(ctx, m, &[1], false); let x = &mut self.x; let c = ctx.rng.next() as u8; let _ = run_op(ctx, m, "send", pol, &[1], true, || x.send(c)); }
            _ => { let pol = pick_policy(ctx, m, &[1], false); let x = &mut self.x; let b = rbytes(ctx, 1, 40); let _ = run_op(ctx, m, "send_bytes", pol, &[1], true, || x.send_bytes(&b)); }
        }
    }
    fn cycle(&self, q: u16) -> Option<Vec<u64>> { Some(if q == 0 { vec![0] } else { vec![2] }) }
    fn wrap_queues(&self) -> Vec<u16> { vec![0, 1] }
    fn moving_ops(&self) -> Vec<u64> { vec![2, 3] }
}

// ---- blk ----
struct BlkSlot { tok: u16, write: bool, req: Box<BlkReq>, buf: Vec<u8>, resp: Box<BlkResp> }
struct BlkM { x: VirtIOBlk<ApHal, T>, out: VecDeque<BlkSlot> }
impl BlkM {
    fn complete(&mut self, ctx: &mut Ctx, m: &mut Meta) {
        if let Some(mut s) = self.out.pop_front() {
            serve(0);
            let x = &mut self.x;
            let _ = run_op(ctx, m, "complete_blocks", Policy::Never, &[], false, || unsafe {
                if s.write { x.complete_write_blocks(s.tok, &s.req, &s.buf, &mut s.resp) } else { x.complete_read_blocks(s.tok, &s.req, &mut s.buf, &mut s.resp) } });
        }
    }
}
impl Menu for BlkM {
    fn nops(&self) -> u64 { 6 }
    fn step(&mut self, ctx: &mut Ctx, m: &mut Meta, op: u64) {
        match op {
            0 | 1 => { // read_blocks_nb / write_blocks_nb
                if self.out.len() >= 4 { self.complete(ctx, m); }
                let write = op == 1;
                let mut s = BlkSlot { tok: 0, write, req: Box::new(BlkReq::default()), buf: vec![0x33u8; 512 * (1 + ctx.rng.below(2) as usize)], resp: Box::new(BlkResp::default()) };
                let pol = pick_nb_policy(ctx);
                let x = &mut self.x;
                let (rp, bp, sp): (*mut BlkReq, *mut [u8], *mut BlkResp) = (&mut *s.req, &mut s.buf[..], &mut *s.resp);
                let r = run_op(ctx, m, if write { "write_blocks_nb" } else { "read_blocks_nb" }, pol, &[0], false, || unsafe {
                    if write { x.write_blocks_nb(7, &mut *rp, &*bp, &mut *sp) } else { x.read_blocks_nb(7, &mut *rp, &mut *bp, &mut *sp) } });
                if let Some(Ok(t)) = r { s.tok = t; self.out.push_back(s); }
            }
            2 => self.complete(ctx, m),
            _ => { // blocking requests
                while !self.out.is_empty() { self.complete(ctx, m); }
                let pol = pick_policy(ctx, m, &[0], false);
                let x = &mut self.x; let mut buf = vec![0u8; 512]; let mut id = [0u8; 20];
                let which = ctx.rng.below(4);
                let _ = run_op(ctx, m, match which { 0 => "read_blocks", 1 => "write_blocks", 2 => "flush", _ => "device_id" }, pol, &[0], true,
                    || match which { 0 => x.read_blocks(3, &mut buf), 1 => x.write_blocks(3, &buf), 2 => x.flush(), _ => x.device_id(&mut id).map(|_| ()) });
            }
        }
    }
    fn cycle(&self, _q: u16) -> Option<Vec<u64>> { Some(vec![0, 2]) }
    fn wrap_queues(&self) -> Vec<u16> { vec![0] }
    fn moving_ops(&self) -> Vec<u64> { vec![3] }
}

// ---- single-request drivers and the GPU ----
struct ReqM { b: Box<Built<T>>, fb: bool }
impl Menu for ReqM {
    fn nops(&self) -> u64 { match &*self.b { Built::Gpu(_) => 8, _ => 2 } }
    fn step(&mut self, ctx: &mut Ctx, m: &mut Meta, op: u64) {
        match &mut *self.b {
            Built::Rng(x) => { let pol = pick_policy(ctx, m, &[0], false); let mut b = vec![0u8; 1 + ctx.rng.below(64) as usize]; let _ = run_op(ctx, m, "request_entropy", pol, &[0], true, || x.request_entropy(&mut b)); }
            Built::P9(x) => { let pol = pick_policy(ctx, m, &[0], false); let req = rbytes(ctx, 7, 20); let mut resp = vec![0u8; 16 + ctx.rng.below(64) as usize];
                let _ = run_op(ctx, m, "request", pol, &[0], true, || x.request(&req, &mut resp)); }
            Built::Rtc(x) => { let pol = pick_policy(ctx, m, &[0], false); let which = op % 2; let _ = run_op(ctx, m, if which == 0 { "read" } else { "num_clocks" }, pol, &[0], true, || if which == 0 { x.read(0).map(|_| ()) } else { x.num_clocks().map(|_| ()) }); }
            Built::Gpu(x) => match op {
                0 => { let pol = pick_policy(ctx, m, &[0], false); let _ = run_op(ctx, m, "resolution", pol, &[0], true, || x.resolution().map(|_| ())); }
                1 => { let pol = pick_policy(ctx, m, &[0], true); if let Some(Ok(())) = run_op(ctx, m, "setup_framebuffer", pol, &[0], true, || x.setup_framebuffer().map(|_| ())) { self.fb = true; } }
                2 => { let pol = pick_policy(ctx, m, &[0], true); let (w, h) = *ctx.rng.pick(&[(16u32, 16u32), (32, 8), (1, 1), (0, 4)]);
                    if let Some(Ok(())) = run_op(ctx, m, "change_resolution", pol, &[0], true, || x.change_resolution(w, h).map(|_| ())) { self.fb = true; } }
                3 => { let pol = pick_policy(ctx, m, &[0], true); let _ = run_op(ctx, m, "flush", pol, &[0], true, || x.flush()); }
                4 => { let pol = pick_policy(ctx, m, &[0, 1], true); let img = vec![0x77u8; 64 * 64 * 4]; let _ = run_op(ctx, m, "setup_cursor", pol, &[0, 1], true, || x.setup_cursor(&img, 1, 2, 3, 4)); }
                5 | 6 => { let pol = pick_policy(ctx, m, &[1], false); let _ = run_op(ctx, m, "move_cursor", pol, &[1], true, || x.move_cursor(5, 6)); }
                _ => { let pol = pick_policy(ctx, m, &[0], false); let _ = run_op(ctx, m, "get_edid", pol, &[0], true, || x.get_edid(0).map(|_| ())); }
            },
            _ => {}
        }
    }
    fn cycle(&self, q: u16) -> Option<Vec<u64>> { match (&*self.b, q) { (Built::Gpu(_), 1) => Some(vec![5]), (_, 0) => Some(vec![0]), _ => None } }
    fn wrap_queues(&self) -> Vec<u16> { match &*self.b { Built::Gpu(_) => vec![0, 1], Built::Rtc(_) => vec![], _ => vec![0] } }
    fn moving_ops(&self) -> Vec<u64> { match &*self.b { Built::Gpu(_) => vec![1, 3, 4, 2], _ => vec![0] } }
}

// ------------------------------------------------------------------------------------------------
#[derive(Clone, Copy, PartialEq, Eq, Debug)]
enum Kind { NetRaw, Net, Sock, Mgr, Sound, Input, Console, Blk, Rng, P9, Rtc, Gpu }
impl Kind {
    fn drv(self) -> Drv { match self { Kind::NetRaw => Drv::NetRaw, Kind::Net => Drv::Net, Kind::Sock | Kind::Mgr => Drv::Socket, Kind::Sound => Drv::Sound, Kind::Input => Drv::Input,
        Kind::Console => Drv::Console, Kind::Blk => Drv::Blk, Kind::Rng => Drv::Rng, Kind::P9 => Drv::P9, Kind::Rtc => Drv::Rtc, Kind::Gpu => Drv::Gpu } }
    fn name(self) -> &'static str { match self { Kind::Mgr => "vsockmgr", k => k.drv().name() } }
}
const KINDS: [Kind; 12] = [Kind::NetRaw, Kind::Net, Kind::Sock, Kind::Mgr, Kind::Sound, Kind::Input, Kind::Console, Kind::Blk, Kind::Rng, Kind::P9, Kind::Rtc, Kind::Gpu];

fn menu_of(k: Kind, b: Box<Built<T>>) -> Option<Box<dyn Menu>> {
    Some(match (k, *b) {
        (Kind::NetRaw, Built::NetRaw8(x)) => Box::new(NetRawM { x, rx: VecDeque::new(), tx: VecDeque::new() }),
        (Kind::Net, Built::Net8(x)) => Box::new(NetM { x, held: vec![] }),
        (Kind::Sock, Built::Socket512(x)) => Box::new(SockM { x }),
        (Kind::Mgr, Built::Socket512(x)) => { let guest = x.guest_cid(); let mut mg = VsockConnectionManager::new(x); mg.listen(1234); Box::new(MgrM { x: mg, guest, conns: vec![] }) }
        (Kind::Sound, Built::Sound(x)) => Box::new(SoundM { x, toks: VecDeque::new(), ready: false }),
        (Kind::Input, Built::Input(x)) => Box::new(InputM { x }),
        (Kind::Console, Built::Console(x)) => Box::new(ConsoleM { x }),
        (Kind::Blk, Built::Blk(x)) => Box::new(BlkM { x, out: VecDeque::new() }),
        (_, other @ (Built::Rng(_) | Built::P9(_) | Built::Rtc(_) | Built::Gpu(_))) => Box::new(ReqM { b: Box::new(other), fb: false }),
        _ => return None,
    })
}

fn close_menu(mn: Box<dyn Menu>) {
    let _ = catch_unwind(AssertUnwindSafe(move || drop(mn)));
    close_platform();
}

/// random operations with freshly chosen, per-queue independent words before each
fn random_cases(ctx: &mut Ctx, m: &mut Meta, mn: &mut Box<dyn Menu>, n: u64) {
    for _ in 0..n {
        if m.broken { break; }
        let batch = 1 + ctx.rng.below(6) as u16;
        randomize_words(ctx, m, batch);
        let op = ctx.rng.below(mn.nops());
        mn.step(ctx, m, op);
    }
}

/// run cheap operations until the available index of queue q stands `margin` entries before the 16-bit wrap
fn fast_forward(ctx: &mut Ctx, m: &mut Meta, mn: &mut Box<dyn Menu>, q: u16, margin: u16) -> bool {
    let Some(cyc) = mn.cycle(q) else { return false };
    m.quiet = true;
    // fixed words while forwarding: flags clear; the event index is crossed once on the way
    for i in 0..m.nq { if let Some(x) = qd(i) { x.set_words(0, 0x7fff); } }
    let target = 0u16.wrapping_sub(margin);
    let mut guard = 0u32;
    let mut stuck = 0u32;
    while let Some(x) = qd(q) {
        let a = x.avail_idx();
        if a == target || m.broken { break; }
        for op in &cyc { mn.step(ctx, m, *op); }
        if qd(q).map(|x| x.avail_idx()) == Some(a) { stuck += 1; if stuck > 64 { break; } } else { stuck = 0; }
        guard += 1; if guard > 70_000 { break; }
    }
    m.quiet = false;
    prune();
    qd(q).map(|x| x.avail_idx()) == Some(target) && !m.broken
}

fn session(ctx: &mut Ctx, k: Kind, feat: u64, ncases: u64, wrap: bool) {
    ctx.tr.scenario(&format!("c05-drv-{}-f{}", k.name(), feat_name(feat)));
    let Some((b, mut m)) = open(ctx, k.drv(), feat, false) else { return };
    let Some(mut mn) = menu_of(k, b) else { close_platform(); return };
    random_cases(ctx, &mut m, &mut mn, ncases);
    if wrap && !m.broken {
        for q in mn.wrap_queues() {
            ctx.tr.scenario(&format!("c05-drv-{}-f{}-wrap-q{}", k.name(), feat_name(feat), q));
            let margin = 3 + ctx.rng.below(30) as u16;
            if fast_forward(ctx, &mut m, &mut mn, q, margin) {
                ctx.tr.note("drv_reached_the_wrap");
                random_cases(ctx, &mut m, &mut mn, ncases.min(80) + margin as u64);
            } else { ctx.tr.note("drv_wrap_not_reached"); }
            if m.broken { break; }
        }
    }
    if m.broken { ctx.tr.note("drv_session_ended_by_a_failed_operation"); }
    close_menu(mn);
}

/// a specification-following notification-driven device: serves when notified, then publishes "tell me about the entry
/// I have not seen yet" (event index := seen); blocking multi-round operations must get through every round
fn moving_session(ctx: &mut Ctx, k: Kind, feat: u64, n: u64) {
    ctx.tr.scenario(&format!("c05-drv-moving-{}-f{}", k.name(), feat_name(feat)));
    let Some((b, mut m)) = open(ctx, k.drv(), feat, true) else { return };
    let Some(mut mn) = menu_of(k, b) else { close_platform(); return };
    let ops = mn.moving_ops();
    if !ops.is_empty() {
        for _ in 0..n {
            if m.broken { break; }
            // the device is idle and has said where it stands: flags clear, event index = the next entry, on every queue
            for q in 0..m.nq { if let Some(x) = qd(q) { x.set_words(0, x.avail_idx()); } }
            let op = *ctx.rng.pick(&ops);
            mn.step(ctx, &mut m, op);
        }
    }
    close_menu(mn);
}

pub fn run(ctx: &mut Ctx) {
    let feats = [0u64, F_EVENT_IDX, F_INDIRECT, F_EVENT_IDX | F_INDIRECT];
    let ncases = ctx.budget(150, 8);
    for k in KINDS.iter() {
        for f in feats.iter() {
            let feat = *f | if ctx.rng.chance(1, 2) { F_VERSION_1 } else { 0 } | if *k == Kind::Gpu { 2 } else { 0 };
            session(ctx, *k, feat, ncases, true);
        }
        for f in [F_EVENT_IDX, 0, F_EVENT_IDX | F_INDIRECT] { moving_session(ctx, *k, f | if *k == Kind::Gpu { 2 } else { 0 }, ctx.budget(25, 8)); }
    }
    drivers::release_observers();
    DEV.with(|d| *d.borrow_mut() = None);
    hal::reset();
}
