//! C17: vsock credit-based flow control and the per-connection receive buffer.
//!  (a) RingBuffer (through the cfg-gated wrapper) for every capacity 1..=64 and a few larger ones, every
//!      wrap position, in lock-step with the Coq model and judged by a bounded-FIFO monitor;
//!  (b) read_header_and_body on generated rx buffers;
//!  (c) VirtIOSocket::send / ConnectionInfo::done_forwarding on preset counters (boundaries of the credit
//!      comparison, of 2^32, shrunk peer buffers), judged by the 32-bit credit rule;
//!  (d) whole connections through VsockConnectionManager against a reference vsock peer that keeps both
//!      credit windows and both byte streams: random interleavings of sends, peer data, credit updates /
//!      requests, recvs of every size, with the counters started next to 2^32.
use crate::hal::{self, LedgerHal};
use crate::scen::common::*;
use crate::scen::qrig::{read_desc, QAddr};
use crate::tport::{ModelTransport, TState};
use crate::Ctx;
use std::cell::RefCell;
use std::panic::{catch_unwind, AssertUnwindSafe};
use virtio_drivers::device::socket::{
    verif_read_header_and_body, ConnectionInfo, DisconnectReason, SocketError, VerifRingBuffer, VirtIOSocket, VsockAddr,
    VsockConnectionManager, VsockEvent, VsockEventType,
};
use virtio_drivers::transport::DeviceType;
use virtio_drivers::verif::Event;
use virtio_drivers::Error;

fn se_code(e: &SocketError) -> u128 {
    1100 + match e {
        SocketError::ConnectionExists => 0, SocketError::NotConnected => 1, SocketError::PeerSocketShutdown => 2,
        SocketError::BufferTooShort => 3, SocketError::OutputBufferTooShort(_) => 4, SocketError::BufferTooLong(..) => 5,
        SocketError::UnknownOperation(_) => 6, SocketError::InvalidOperation => 7, SocketError::InvalidNumber => 8,
        SocketError::UnexpectedDataInPacket => 9, SocketError::InsufficientBufferSpaceInPeer => 10,
        SocketError::RecycledWrongBuffer => 11,
    }
}
fn ecode(e: &Error) -> u128 { match e { Error::SocketDeviceError(s) => se_code(s), o => err_code(o) } }
/// [class, code]
fn enc_res<T>(r: &std::thread::Result<Result<T, Error>>) -> [u128; 2] {
    match r { Ok(Ok(_)) => [0, 0], Ok(Err(e)) => [1, ecode(e)], Err(_) => [2, 0] }
}

// ------------------------------------------------------------------------------------------------
// the device side of the socket: serves the transmit queue (capturing every packet) and fills rx buffers
struct VDev { rx: QAddr, tx: QAddr, rx_seen: u16, rx_used: u16, tx_seen: u16, tx_used: u16, event_idx: bool,
    pkts: Vec<(Vec<u8>, Vec<u8>)>, spins: u64 }
thread_local! { static VDEV: RefCell<Option<VDev>> = RefCell::new(None); }

/// the descriptors a device reaches from `head`: (addr, len, flags)
fn chain(a: &QAddr, head: u16) -> Vec<(u64, u32, u16)> {
    let n = a.size; let mut out = vec![];
    let Some((addr, len, flags, next)) = read_desc(a, head as usize % n) else { return out };
    if flags & 4 != 0 {
        if let Ok(b) = hal::dev_read(addr, len as usize) {
            let cnt = len as usize / 16; let mut i = 0usize; let mut steps = 0;
            while i < cnt && steps <= cnt {
                let d = &b[16 * i..16 * i + 16];
                let f = u16::from_le_bytes([d[12], d[13]]);
                out.push((u64::from_le_bytes(d[0..8].try_into().unwrap()), u32::from_le_bytes(d[8..12].try_into().unwrap()), f));
                if f & 1 == 0 { break; }
                i = u16::from_le_bytes([d[14], d[15]]) as usize; steps += 1;
            }
        }
    } else {
        out.push((addr, len, flags));
        let (mut f, mut nx, mut steps) = (flags, next, 0);
        while f & 1 != 0 && steps < n {
            let Some((a2, l2, f2, n2)) = read_desc(a, nx as usize % n) else { break };
            out.push((a2, l2, f2)); f = f2; nx = n2; steps += 1;
        }
    }
    out
}

impl VDev {
    fn service_tx(&mut self) {
        let n = self.tx.size;
        let aidx = hal::dev_read_u16(self.tx.drv + 2).unwrap();
        while self.tx_seen != aidx {
            let slot = (self.tx_seen as usize) & (n - 1);
            let head = hal::dev_read_u16(self.tx.drv + 4 + 2 * slot as u64).unwrap();
            let mut bytes = vec![];
            for (addr, len, flags) in chain(&self.tx, head) {
                if flags & 2 == 0 { match hal::dev_read(addr, len as usize) { Ok(b) => bytes.extend(b), Err(e) => hal::violate(e) } }
                else { hal::violate("device-writable descriptor on the transmit queue".into()); }
            }
            let k = bytes.len().min(44);
            self.pkts.push((bytes[..k].to_vec(), bytes[k..].to_vec()));
            let us = (self.tx_used as usize) & (n - 1);
            hal::dev_write_u32(self.tx.dev + 4 + 8 * us as u64, head as u32).unwrap();
            hal::dev_write_u32(self.tx.dev + 8 + 8 * us as u64, 0).unwrap();
            self.tx_used = self.tx_used.wrapping_add(1);
            hal::dev_write_u16(self.tx.dev + 2, self.tx_used).unwrap();
            self.tx_seen = self.tx_seen.wrapping_add(1);
        }
        if self.event_idx { hal::dev_write_u16(self.tx.dev + 4 + 8 * n as u64, self.tx_seen).unwrap(); }
    }
    /// put one packet into the next available rx buffer
    fn deliver(&mut self, data: &[u8]) -> bool {
        let n = self.rx.size;
        let aidx = hal::dev_read_u16(self.rx.drv + 2).unwrap();
        if self.rx_seen == aidx { return false; }
        let slot = (self.rx_seen as usize) & (n - 1);
        let head = hal::dev_read_u16(self.rx.drv + 4 + 2 * slot as u64).unwrap();
        let ch = chain(&self.rx, head);
        let Some((addr, len, flags)) = ch.first().copied() else { return false };
        if flags & 2 == 0 || (len as usize) < data.len() { hal::violate("rx buffer not writable / too small".into()); return false; }
        if let Err(e) = hal::dev_write(addr, data) { hal::violate(e); }
        let us = (self.rx_used as usize) & (n - 1);
        hal::dev_write_u32(self.rx.dev + 4 + 8 * us as u64, head as u32).unwrap();
        hal::dev_write_u32(self.rx.dev + 8 + 8 * us as u64, data.len() as u32).unwrap();
        self.rx_used = self.rx_used.wrapping_add(1);
        hal::dev_write_u16(self.rx.dev + 2, self.rx_used).unwrap();
        self.rx_seen = self.rx_seen.wrapping_add(1);
        if self.event_idx { hal::dev_write_u16(self.rx.dev + 4 + 8 * n as u64, self.rx_seen).unwrap(); }
        true
    }
}
fn dev_service_tx() { VDEV.with(|d| { if let Some(d) = d.borrow_mut().as_mut() { d.service_tx(); } }); }
fn take_pkts() -> Vec<(Vec<u8>, Vec<u8>)> { VDEV.with(|d| d.borrow_mut().as_mut().map(|d| std::mem::take(&mut d.pkts)).unwrap_or_default()) }
fn deliver(data: &[u8]) -> bool { VDEV.with(|d| d.borrow_mut().as_mut().map(|d| d.deliver(data)).unwrap_or(false)) }

fn vs_observer(e: Event) {
    if let Event::Spin(_) = e {
        let hopeless = VDEV.with(|d| { if let Some(d) = d.borrow_mut().as_mut() { d.service_tx(); d.spins += 1; d.spins > 100_000 } else { true } });
        if hopeless { panic!("busy-wait can never end"); }
    }
}

fn mk_socket<const RXB: usize>(features: u64, guest_cid: u64) -> Option<VirtIOSocket<LedgerHal, ModelTransport, RXB>> {
    hal::reset();
    VDEV.with(|d| *d.borrow_mut() = None);
    let mut ts = TState::new(DeviceType::Socket, features, 3, 8);
    ts.config = guest_cid.to_le_bytes().to_vec();
    ts.on_notify = Some(Box::new(|q, _s| { if q == 1 { dev_service_tx(); } }));
    let (t, st) = ModelTransport::new(ts);
    virtio_drivers::verif::set_observer(Some(vs_observer));
    let s = catch_unwind(AssertUnwindSafe(move || VirtIOSocket::<LedgerHal, ModelTransport, RXB>::new(t))).ok()?.ok()?;
    let q = st.borrow().queues.clone();
    let neg = st.borrow().driver_features;
    VDEV.with(|d| *d.borrow_mut() = Some(VDev {
        rx: QAddr { desc: q[0].desc, drv: q[0].drv, dev: q[0].dev, size: 8 },
        tx: QAddr { desc: q[1].desc, drv: q[1].drv, dev: q[1].dev, size: 8 },
        rx_seen: 0, rx_used: 0, tx_seen: 0, tx_used: 0, event_idx: neg & (1 << 29) != 0, pkts: vec![], spins: 0 }));
    hal::take_log();
    Some(s)
}
fn end_socket() { VDEV.with(|d| *d.borrow_mut() = None); virtio_drivers::verif::set_observer(None); }

// ------------------------------------------------------------------------------------------------
fn hdr_bytes(f: &[u64; 10]) -> Vec<u8> {
    let mut b = vec![];
    b.extend(f[0].to_le_bytes()); b.extend(f[1].to_le_bytes());
    for i in 2..5 { b.extend((f[i] as u32).to_le_bytes()); }
    b.extend((f[5] as u16).to_le_bytes()); b.extend((f[6] as u16).to_le_bytes());
    for i in 7..10 { b.extend((f[i] as u32).to_le_bytes()); }
    b
}
fn hdr_fields(b: &[u8]) -> [u64; 10] {
    let mut p = [0u8; 44]; let k = b.len().min(44); p[..k].copy_from_slice(&b[..k]);
    let u32at = |o: usize| u32::from_le_bytes(p[o..o + 4].try_into().unwrap()) as u64;
    let u16at = |o: usize| u16::from_le_bytes(p[o..o + 2].try_into().unwrap()) as u64;
    [u64::from_le_bytes(p[0..8].try_into().unwrap()), u64::from_le_bytes(p[8..16].try_into().unwrap()),
     u32at(16), u32at(20), u32at(24), u16at(28), u16at(30), u32at(32), u32at(36), u32at(40)]
}
/// model-side encoding: [n] ++ (10 fields, payload length)*
fn enc_pkts(p: &[(Vec<u8>, Vec<u8>)]) -> Vec<u128> {
    let mut o = vec![p.len() as u128];
    for (h, pl) in p { o.extend(hdr_fields(h).iter().map(|x| *x as u128)); o.push(pl.len() as u128); }
    o
}
/// monitor-side encoding: [n] ++ (44 raw bytes, payload length, intact)*
fn enc_opkts(p: &[(Vec<u8>, Vec<u8>)], data: &[u8]) -> Vec<u128> {
    let mut o = vec![p.len() as u128];
    for (h, pl) in p {
        let mut hb = h.clone(); hb.resize(44, 0xFF);
        o.extend(hb.iter().map(|x| *x as u128)); o.push(pl.len() as u128); o.push((h.len() == 44 && pl[..] == data[..]) as u128);
    }
    o
}
fn enc_counters(c: (u32, u32, u32, u32, bool)) -> [u128; 5] { [c.0 as u128, c.1 as u128, c.2 as u128, c.3 as u128, c.4 as u128] }
fn enc_event(e: &Option<VsockEvent>) -> [u128; 8] {
    match e {
        None => [0; 8],
        Some(e) => {
            let (t, x) = match e.event_type {
                VsockEventType::ConnectionRequest => (1, 0), VsockEventType::Connected => (2, 0),
                VsockEventType::Disconnected { reason } => (3, (reason == DisconnectReason::Reset) as u128),
                VsockEventType::Received { length } => (4, length as u128),
                VsockEventType::CreditRequest => (5, 0), VsockEventType::CreditUpdate => (6, 0),
            };
            [e.source.cid as u128, e.source.port as u128, e.destination.cid as u128, e.destination.port as u128,
             e.buffer_status.buffer_allocation as u128, e.buffer_status.forward_count as u128, t, x]
        }
    }
}
fn b128(b: &[u8]) -> Vec<u128> { b.iter().map(|x| *x as u128).collect() }

// ------------------------------------------------------------------------------------------------
// (a) RingBuffer
fn ringbuffer(ctx: &mut Ctx, cap: usize, nops: usize) {
    let mut rb = VerifRingBuffer::new(cap);
    ctx.tr.line(1720, &[cap as u128], &[0, 0, cap as u128]);
    ctx.tr.line(1751, &[cap as u128], &[1]);
    ctx.tr.note("rb_capacity");
    let mut wrapped = false;
    for op in 0..nops {
        let (_, used, start) = rb.snapshot();
        let free = cap - used;
        // every wrap position: when empty, move the cursor (hook) so that the next add starts anywhere
        if used == 0 && (op % 7 == 3) {
            let s = if cap <= 64 { (op / 7) % cap } else { ctx.rng.below(cap as u64) as usize };
            rb.set_cursor(0, s);
            ctx.tr.line(1723, &[0, s as u128], &[]);
        }
        if ctx.rng.chance(1, 2) {
            let n = match ctx.rng.below(8) { 0 => 0, 1 => 1, 2 => free, 3 => free + 1, 4 => cap, 5 => cap + 1,
                6 => free.saturating_sub(1), _ => ctx.rng.below(cap as u64 + 2) as usize };
            let bytes = ctx.rng.bytes(n);
            let r = { let rb = &mut rb; let b = &bytes; catch_unwind(AssertUnwindSafe(move || rb.add(b))) };
            let (buf, used2, start2) = rb.snapshot();
            let mut o = match &r { Ok(b) => vec![0, *b as u128], Err(_) => vec![2, 0] };
            o.extend([used2 as u128, start2 as u128]); o.extend(b128(&buf));
            ctx.tr.line(1721, &b128(&bytes), &o);
            let mut m = vec![matches!(r, Ok(true)) as u128]; m.extend(b128(&bytes));
            if r.is_err() { m[0] = 2; }
            ctx.tr.line(1752, &m, &[1]);
            if matches!(r, Ok(true)) && start + used < cap && start + used + n > cap { wrapped = true; ctx.tr.note("rb_add_split"); }
            ctx.tr.note(match r { Ok(true) => "rb_add_ok", Ok(false) => "rb_add_refused", Err(_) => "rb_add_panic" });
        } else {
            let n = match ctx.rng.below(7) { 0 => 0, 1 => 1, 2 => used, 3 => used + 1, 4 => cap + 3, 5 => used.saturating_sub(1),
                _ => ctx.rng.below(cap as u64 + 2) as usize };
            let mut out = vec![0xEEu8; n];
            let r = { let rb = &mut rb; let o = &mut out; catch_unwind(AssertUnwindSafe(move || rb.drain(o))) };
            let (_, used2, start2) = rb.snapshot();
            let k = match &r { Ok(k) => (*k).min(n), Err(_) => 0 };
            let untouched = out[k..].iter().all(|x| *x == 0xEE);
            let mut o = match &r { Ok(k) => vec![0, *k as u128], Err(_) => vec![2, 0] };
            o.extend(b128(&out[..k])); o.extend([used2 as u128, start2 as u128, untouched as u128]);
            ctx.tr.line(1722, &[n as u128], &o);
            let mut m = vec![n as u128, match &r { Ok(k) => *k as u128, Err(_) => u64::MAX as u128 }]; m.extend(b128(&out[..k]));
            ctx.tr.line(1753, &m, &[1]);
            if k > 0 && start + k > cap { ctx.tr.note("rb_drain_split"); }
            ctx.tr.note("rb_drain");
        }
    }
    if wrapped { ctx.tr.note("rb_capacity_with_split_add"); }
}

// (b) read_header_and_body
/// read_header_and_body on received bytes of every shape (also run under C19: a delivery exposes exactly the packet's bytes)
pub fn run_read_header(ctx: &mut Ctx) { ctx.tr.scenario("c17-read-header"); let n = ctx.budget(400, 10); read_header(ctx, n); }
fn read_header(ctx: &mut Ctx, cases: u64) {
    for _ in 0..cases {
        let total = match ctx.rng.below(8) { 0 => ctx.rng.below(44) as usize, 1 => 43, 2 => 44, 3 => 45, 4 => 512, _ => 44 + ctx.rng.below(120) as usize };
        let mut b = ctx.rng.bytes(total);
        if total >= 44 {
            let body = (total - 44) as u32;
            let len: u32 = match ctx.rng.below(8) { 0 => body, 1 => body.wrapping_add(1), 2 => body.saturating_sub(1), 3 => 0, 4 => u32::MAX,
                5 => ctx.rng.boundary(32) as u32, 6 => ctx.rng.below(body as u64 + 1) as u32, _ => body };
            b[24..28].copy_from_slice(&len.to_le_bytes());
        }
        let r = { let b = &b; catch_unwind(AssertUnwindSafe(move || verif_read_header_and_body(b).map(|(h, body)| (h, body.to_vec())))) };
        let mut o = enc_res(&r).to_vec();
        if let Ok(Ok((h, body))) = &r {
            o.extend(h.iter().map(|x| *x as u128)); o.push(body.len() as u128); o.extend(b128(body));
            // the fields the crate decoded against the specification's layout of the same bytes
            let mut m: Vec<u128> = h.iter().map(|x| *x as u128).collect(); m.extend(b128(&b[..44]));
            ctx.tr.line(1767, &m, &[1]);
            // C19 (kind 1952): the body handed on is exactly the packet's payload: header.len bytes, the bytes after the header
            let same = body[..] == b[44..44 + body.len().min(b.len() - 44)];
            ctx.tr.line(1952, &[h[4] as u128, body.len() as u128, same as u128], &[1]);
            ctx.tr.note("rhb_ok");
        } else { ctx.tr.note("rhb_refused"); }
        ctx.tr.line(1711, &b128(&b), &o);
    }
}

// (c) VirtIOSocket::send and done_forwarding on preset counters
/// one VirtIOSocket::send on a ConnectionInfo with preset counters `(pba, pfc, tx, fwd, pend)`: correspondence line 1710,
/// the 32-bit credit rule (1770) and the header layout (1767) on what the implementation did
fn send_case(ctx: &mut Ctx, sock: &mut VirtIOSocket<LedgerHal, ModelTransport, 512>, guest: u64, peer: VsockAddr, sp: u32,
             counters: (u32, u32, u32, u32, bool), ba: u32, len: usize) {
    let mode = ctx.release as u128;
    let (pba, pfc, tx, fwd, pend) = counters;
    let inflight = tx.wrapping_sub(pfc);
    let free = pba.saturating_sub(inflight);
    {
        let mut info = ConnectionInfo::new(peer, sp);
        info.buf_alloc = ba;
        info.verif_set_counters(pba, pfc, tx, fwd, pend);
        let data = ctx.rng.bytes(len);
        VDEV.with(|d| { if let Some(d) = d.borrow_mut().as_mut() { d.spins = 0; } });
        let r = { let s = &mut *sock; let i = &mut info; let d = &data; catch_unwind(AssertUnwindSafe(move || s.send(d, i))) };
        let pk = take_pkts();
        let c = info.verif_counters();
        let mut o = enc_res(&r).to_vec(); o.extend(enc_counters(c)); o.extend(enc_pkts(&pk));
        ctx.tr.line(1710, &[mode, peer.cid as u128, peer.port as u128, sp as u128, pba as u128, pfc as u128, tx as u128, ba as u128, fwd as u128,
            pend as u128, guest as u128, len as u128], &o);
        // the 32-bit credit rule evaluated on what the implementation did
        let [class, code] = enc_res(&r);
        let (npk, op, hlen, plen) = match pk.first() { Some((h, p)) => { let f = hdr_fields(h); (pk.len() as u128, f[6] as u128, f[4] as u128, p.len() as u128) } None => (0, 0, 0, 0) };
        ctx.tr.line(1770, &[pba as u128, pfc as u128, tx as u128, pend as u128, len as u128, class, code, c.2 as u128, c.4 as u128, npk, op, hlen, plen], &[1]);
        // header layout of what went out, and payload integrity
        for (h, p) in &pk {
            let f = hdr_fields(h);
            let is_rw = f[6] == 5;
            let mut m: Vec<u128> = vec![guest as u128, peer.cid as u128, sp as u128, peer.port as u128, if is_rw { len as u128 } else { 0 }, 1,
                if is_rw { 5 } else { 7 }, 0, ba as u128, fwd as u128];
            let mut hb = h.clone(); hb.resize(44, 0xFF); m.extend(b128(&hb));
            ctx.tr.line(1767, &m, &[1]);
            if is_rw && p[..] != data[..] { hal::violate("payload on the transmit queue differs from the caller's buffer".into()); }
        }
        ctx.tr.note(match class { 0 => "dsend_ok", 1 => "dsend_refused", _ => "dsend_panic" });
        if (tx as u64) + (len as u64) >= 1 << 32 && len as u64 <= free as u64 { ctx.tr.note("dsend_tx_cnt_crosses_2^32"); }
        if tx < pfc { ctx.tr.note("dsend_tx_cnt_already_wrapped"); }
        if inflight > pba { ctx.tr.note("dsend_peer_buffer_shrunk_below_inflight"); }
    }
}

fn directed_send(ctx: &mut Ctx, features: u64, cases: u64) {
    let guest = 0x1_0000_0042u64;
    let Some(mut sock) = mk_socket::<512>(features, guest) else { return };
    for case in 0..cases {
        let pba: u32 = match ctx.rng.below(8) { 0 => 0, 1 => 1, 2 => 64, 3 => 4096, 4 => 65536, 5 => 1 << 31, 6 => u32::MAX, _ => ctx.rng.below(2000) as u32 };
        let inflight: u32 = match ctx.rng.below(9) { 0 => 0, 1 => 1, 2 => pba.wrapping_sub(1), 3 => pba, 4 => pba.wrapping_add(1),
            5 => pba / 2, 6 => ctx.rng.boundary(32) as u32, 7 => pba.wrapping_add(ctx.rng.below(5000) as u32), _ => ctx.rng.below(pba as u64 + 1) as u32 };
        let free = pba.saturating_sub(inflight);
        let len: usize = match ctx.rng.below(7) { 0 => 0, 1 => 1, 2 => free as usize, 3 => free as usize + 1, 4 => (free as usize).saturating_sub(1),
            5 => ctx.rng.below(600) as usize, _ => ctx.rng.below(free as u64 + 2) as usize };
        let len = if len > 6000 { 1 + ctx.rng.below(3000) as usize } else { len };
        // the transmit counter: anywhere, next to the wrap, or so that tx_cnt + len crosses 2^32
        let tx: u32 = match ctx.rng.below(5) { 0 => ctx.rng.boundary(32) as u32, 1 => u32::MAX - ctx.rng.below(4) as u32,
            2 => (0u32).wrapping_sub(len as u32).wrapping_add(ctx.rng.below(3) as u32).wrapping_sub(1), 3 => inflight.wrapping_add(ctx.rng.below(3) as u32).wrapping_sub(1),
            _ => ctx.rng.next() as u32 };
        let pfc = tx.wrapping_sub(inflight);
        let pend = ctx.rng.chance(1, 3);
        let (ba, fwd) = (ctx.rng.boundary(32) as u32, ctx.rng.boundary(32) as u32);
        let peer = VsockAddr { cid: if case % 3 == 0 { ctx.rng.next() } else { 2 }, port: ctx.rng.boundary(32) as u32 };
        let sp = ctx.rng.boundary(32) as u32;
        send_case(ctx, &mut sock, guest, peer, sp, (pba, pfc, tx, fwd, pend), ba, len);
        hal::take_log();
    }
    drop(sock);
    end_socket();
    ledger_line(ctx);
}

fn directed_done_forwarding(ctx: &mut Ctx, cases: u64, fixed: &[(u32, usize)]) {
    let mode = ctx.release as u128;
    for case in 0..cases.max(fixed.len() as u64) {
        let fwd: u32 = match ctx.rng.below(4) { 0 => u32::MAX - ctx.rng.below(2000) as u32, 1 => ctx.rng.boundary(32) as u32, 2 => 0, _ => ctx.rng.next() as u32 };
        let n: usize = match ctx.rng.below(6) { 0 => 0, 1 => 1, 2 => (u32::MAX - fwd) as usize, 3 => (u32::MAX - fwd) as usize + 1,
            4 => ctx.rng.boundary(32) as usize + if ctx.rng.chance(1, 4) { 1usize << 32 } else { 0 }, _ => ctx.rng.below(4096) as usize };
        let (fwd, n) = fixed.get(case as usize).copied().unwrap_or((fwd, n));
        let mut info = ConnectionInfo::new(VsockAddr { cid: 2, port: 1 }, 2);
        info.verif_set_counters(0, 0, 0, fwd, false);
        let r = { let i = &mut info; catch_unwind(AssertUnwindSafe(move || i.done_forwarding(n))) };
        let f2 = info.verif_counters().3;
        let class = if r.is_ok() { 0u128 } else { 2 };
        ctx.tr.line(1712, &[mode, fwd as u128, n as u128], &[class, if class == 0 { f2 as u128 } else { 0 }]);
        ctx.tr.line(1771, &[fwd as u128, n as u128, class, f2 as u128], &[1]);
        if fwd as u64 + (n as u32) as u64 >= 1 << 32 { ctx.tr.note("fwd_cnt_crosses_2^32"); }
    }
}

// ------------------------------------------------------------------------------------------------
// (d) a whole connection against the reference peer
struct Peer { addr: VsockAddr, alloc: u32, rx_total: u64, fwd_total: u64, tx_base: u32, tx_cnt: u32, seen_alloc: u32, seen_fwd: u32,
    drv_alloc: u32, drv_fwd: u64 }

#[allow(clippy::too_many_arguments)]
/// `script`: forced operations (kind, argument): 0 send(len), 1 peer credit update reporting everything consumed, 2 one peer data packet of n bytes,
/// 3 recv(n), 4 update_credit, 5 peer credit request, 6 peer credit update with buf_alloc := n; empty = a generated history of `steps` operations
fn stream<const RXB: usize>(ctx: &mut Ctx, features: u64, guest: u64, cap: u32, rx_base: u32, tx_base: u32, steps: usize, honest: bool, script: &[(u8, usize)], alloc_init: Option<u32>) {
    let Some(sock) = mk_socket::<RXB>(features, guest) else { return };
    let mut mgr = VsockConnectionManager::new_with_capacity(sock, cap);
    let mode = ctx.release as u128;
    let paddr = VsockAddr { cid: if ctx.rng.chance(1, 2) { 2 } else { ctx.rng.next() | 3 }, port: ctx.rng.boundary(32) as u32 };
    let lp = ctx.rng.boundary(32) as u32;
    let alloc0: u32 = alloc_init.unwrap_or(*ctx.rng.pick(&[0u32, 1, 16, 64, 300, 1000, 5000]));
    let mut p = Peer { addr: paddr, alloc: alloc0, rx_total: 0, fwd_total: 0, tx_base, tx_cnt: rx_base, seen_alloc: cap, seen_fwd: rx_base,
        drv_alloc: alloc0, drv_fwd: 0 };
    let mon = honest;
    // connect: the request must already carry the addressing and the buffer allocation
    if mon { ctx.tr.line(1760, &[guest as u128, paddr.cid as u128, paddr.port as u128, lp as u128, cap as u128, 0, 0, 0, 0, 0], &[1]); }
    let r = { let m = &mut mgr; catch_unwind(AssertUnwindSafe(move || m.connect(paddr, lp))) };
    let pk = take_pkts();
    if !matches!(r, Ok(Ok(()))) { end_socket(); return; }
    if mon { ctx.tr.line(1766, &enc_opkts(&pk, &[]), &[1]); }
    let peer_hdr = |p: &Peer, op: u64, len: u32| -> Vec<u8> {
        hdr_bytes(&[p.addr.cid, guest, p.addr.port as u64, lp as u64, len as u64, 1, op, 0, p.alloc as u64, p.tx_base.wrapping_add(p.fwd_total as u32) as u64])
    };
    // response, then start the free-running counters wherever this scenario wants them
    if !deliver(&peer_hdr(&p, 2, 0)) { end_socket(); return; }
    let r = { let m = &mut mgr; catch_unwind(AssertUnwindSafe(move || m.poll())) };
    if !matches!(r, Ok(Ok(Some(_)))) { end_socket(); return; }
    mgr.verif_set_counters(paddr, lp, (alloc0, tx_base, tx_base, rx_base, false));
    let Some((c0, ba0, _)) = mgr.verif_connection(paddr, lp) else { end_socket(); return };
    ctx.tr.line(1700, &[mode, guest as u128, paddr.cid as u128, paddr.port as u128, lp as u128, ba0 as u128, c0.0 as u128, c0.1 as u128, c0.2 as u128,
        c0.3 as u128, c0.4 as u128], &[]);
    if mon { ctx.tr.line(1760, &[guest as u128, paddr.cid as u128, paddr.port as u128, lp as u128, cap as u128, rx_base as u128, tx_base as u128, 0,
        alloc0 as u128, 0], &[1]); }
    let mut tx_total: u64 = 0;         // payload bytes the driver has sent
    let mut buffered: usize = 0;       // bytes in the driver's ring buffer (as the reference believes)
    let maxbody = RXB - 44;
    let state = |mgr: &mut VsockConnectionManager<LedgerHal, ModelTransport, RXB>| -> ([u128; 5], u128, u128, Vec<u8>) {
        match mgr.verif_connection(paddr, lp) { Some((c, _, (b, u, s))) => (enc_counters(c), u as u128, s as u128, b), None => ([9; 5], 9, 9, vec![]) }
    };
    let see = |p: &mut Peer, pk: &[(Vec<u8>, Vec<u8>)]| { for (h, pl) in pk { let f = hdr_fields(h); p.seen_alloc = f[8] as u32; p.seen_fwd = f[9] as u32; if f[6] == 5 { p.rx_total += pl.len() as u64; } } };
    let steps = if script.is_empty() { steps } else { script.len() };
    for step in 0..steps {
        VDEV.with(|d| { if let Some(d) = d.borrow_mut().as_mut() { d.spins = 0; } });
        hal::take_log();
        let forced = script.get(step).copied();
        let which = match forced { Some((0, _)) => 0, Some((1, _)) | Some((5, _)) | Some((6, _)) => 30, Some((2, _)) => 50, Some((3, _)) => 80, Some((4, _)) => 95, _ => ctx.rng.below(100) };
        if which < 28 {
            // the application sends
            let free = (p.drv_alloc as u64).saturating_sub(tx_total - p.drv_fwd);
            let len = match ctx.rng.below(7) { 0 => 0, 1 => 1, 2 => free, 3 => free + 1, 4 => free.saturating_sub(1), 5 => ctx.rng.below(700), _ => ctx.rng.below(free + 2) };
            let len = if len > 3000 { 1 + ctx.rng.below(1500) } else { len } as usize;
            let len = if let Some((_, a)) = forced { a } else { len };
            let data = ctx.rng.bytes(len);
            let r = { let m = &mut mgr; let d = &data; catch_unwind(AssertUnwindSafe(move || m.send(paddr, lp, d))) };
            let pk = take_pkts();
            let (c, _, _, _) = state(&mut mgr);
            let mut o = enc_res(&r).to_vec(); o.extend(c); o.extend(enc_pkts(&pk));
            ctx.tr.line(1701, &[len as u128], &o);
            if mon { let [class, code] = enc_res(&r); let mut m = vec![len as u128, class, code]; m.extend(enc_opkts(&pk, &data)); ctx.tr.line(1761, &m, &[1]); }
            if matches!(r, Ok(Ok(()))) { tx_total += len as u64; if tx_base as u64 + tx_total >= 1 << 32 { ctx.tr.note("stream_tx_cnt_beyond_2^32"); } }
            see(&mut p, &pk);
            ctx.tr.note(match &r { Ok(Ok(_)) => "stream_send_ok", Ok(Err(_)) => "stream_send_refused", Err(_) => "stream_send_panic" });
        } else if which < 45 {
            // control packet from the peer: credit update, credit request or a second response, reporting consumption
            let k = ctx.rng.below(p.rx_total - p.fwd_total + 1);
            let k = if ctx.rng.chance(1, 3) { p.rx_total - p.fwd_total } else { k };
            let k = match forced { Some((1, _)) => p.rx_total - p.fwd_total, Some(_) => 0, None => k };
            p.fwd_total += k;
            if let Some((6, a)) = forced { p.alloc = a as u32; }
            if forced.is_none() && ctx.rng.chance(1, 6) { p.alloc = match ctx.rng.below(4) { 0 => p.alloc / 2, 1 => p.alloc.saturating_add(100), 2 => ctx.rng.below(p.alloc as u64 + 1) as u32, _ => alloc0 }; ctx.tr.note("stream_peer_alloc_changed"); }
            let op = *ctx.rng.pick(&[6u64, 6, 7, 7, 2]);
            let op = match forced { Some((5, _)) => 7, Some(_) => 6, None => op };
            let mut pkt = peer_hdr(&p, op, 0);
            if !honest && ctx.rng.chance(1, 3) {
                // malformed packets: refused before they are matched with a connection
                match ctx.rng.below(5) {
                    0 => { let k = ctx.rng.below(44) as usize; pkt.truncate(k); }
                    1 => { let v = 8 + ctx.rng.below(65528) as u16; pkt[30..32].copy_from_slice(&v.to_le_bytes()); }
                    2 => { pkt[30..32].copy_from_slice(&0u16.to_le_bytes()); }
                    3 => { let l = 1 + ctx.rng.below(9) as u32; pkt[24..28].copy_from_slice(&l.to_le_bytes()); pkt.extend(ctx.rng.bytes(l as usize)); }
                    _ => { let l = (ctx.rng.boundary(32) as u32).max(1); pkt[24..28].copy_from_slice(&l.to_le_bytes()); pkt[30..32].copy_from_slice(&5u16.to_le_bytes()); }
                }
                ctx.tr.note("stream_malformed_packet");
            }
            if !deliver(&pkt) { break; }
            let r = { let m = &mut mgr; catch_unwind(AssertUnwindSafe(move || m.poll())) };
            let pk = take_pkts();
            p.drv_alloc = p.alloc; p.drv_fwd = p.fwd_total;
            let (c, u, s, _) = state(&mut mgr);
            let has = matches!(r, Ok(Ok(Some(_))));
            let mut o = vec![enc_res(&r)[0], enc_res(&r)[1], has as u128];
            o.extend(enc_event(match &r { Ok(Ok(e)) => e, _ => &None })); o.extend(c); o.extend([u, s]); o.extend(enc_pkts(&pk));
            ctx.tr.line(1702, &b128(&pkt), &o);
            if mon { let mut m = vec![op as u128, p.alloc as u128, k as u128, enc_res(&r)[0], has as u128]; m.extend(enc_opkts(&pk, &[])); ctx.tr.line(1762, &m, &[1]); }
            see(&mut p, &pk);
            ctx.tr.note(match op { 6 => "stream_peer_credit_update", 7 => "stream_peer_credit_request", _ => "stream_peer_response" });
        } else if which < 72 {
            // data from the peer: a burst of packets, each within the credit the peer knows (honest peer)
            let burst = if forced.is_some() { 1 } else { 1 + ctx.rng.below(3) as usize };
            let mut queue: Vec<(Vec<u8>, Vec<u8>, u32, u64)> = vec![];
            for _ in 0..burst {
                let credit = p.seen_alloc.saturating_sub(p.tx_cnt.wrapping_sub(p.seen_fwd)) as usize;
                let maxn = credit.min(maxbody);
                let n = match ctx.rng.below(5) { 0 => maxn, 1 => 1.min(maxn), 2 => 0, _ => ctx.rng.below(maxn as u64 + 1) as usize };
                let n = if !honest && ctx.rng.chance(1, 4) { (credit + 1 + ctx.rng.below(4) as usize).min(maxbody) } else { n };
                let n = if let Some((_, a)) = forced { a.min(maxbody) } else { n };
                let k = if forced.is_some() { 0 } else { ctx.rng.below(p.rx_total - p.fwd_total + 1) }; p.fwd_total += k;
                let body = ctx.rng.bytes(n);
                let mut pkt = peer_hdr(&p, 5, n as u32); pkt.extend(&body);
                p.tx_cnt = p.tx_cnt.wrapping_add(n as u32);
                if (p.tx_cnt as u64) < n as u64 { ctx.tr.note("stream_peer_tx_cnt_wrapped"); }
                if !deliver(&pkt) { break; }
                queue.push((pkt, body, p.alloc, k));
            }
            for (pkt, body, alloc, k) in queue {
                let r = { let m = &mut mgr; catch_unwind(AssertUnwindSafe(move || m.poll())) };
                let pk = take_pkts();
                p.drv_alloc = alloc; p.drv_fwd += k;
                let (c, u, s, _) = state(&mut mgr);
                let has = matches!(r, Ok(Ok(Some(_))));
                let mut o = vec![enc_res(&r)[0], enc_res(&r)[1], has as u128];
                o.extend(enc_event(match &r { Ok(Ok(e)) => e, _ => &None })); o.extend(c); o.extend([u, s]); o.extend(enc_pkts(&pk));
                ctx.tr.line(1702, &b128(&pkt), &o);
                if mon { let mut m = vec![alloc as u128, k as u128, enc_res(&r)[0], body.len() as u128]; m.extend(b128(&body)); m.extend(enc_opkts(&pk, &[])); ctx.tr.line(1763, &m, &[1]); }
                if matches!(r, Ok(Ok(_))) { buffered += body.len(); ctx.tr.note("stream_peer_data_accepted"); } else { ctx.tr.note("stream_peer_data_refused"); }
                see(&mut p, &pk);
            }
        } else if which < 92 {
            // the application reads
            let n = match ctx.rng.below(7) { 0 => 0, 1 => 1, 2 => buffered, 3 => buffered + 1, 4 => cap as usize + 5, 5 => buffered / 2, _ => ctx.rng.below(cap as u64 + 2) as usize };
            let n = if let Some((_, a)) = forced { a } else { n };
            let mut out = vec![0xEEu8; n];
            let r = { let m = &mut mgr; let o = &mut out; catch_unwind(AssertUnwindSafe(move || m.recv(paddr, lp, o))) };
            let pk = take_pkts();
            let k = match &r { Ok(Ok(k)) => (*k).min(n), _ => 0 };
            if !out[k..].iter().all(|x| *x == 0xEE) { hal::violate("recv wrote beyond the bytes it returned".into()); }
            let (c, u, s, _) = state(&mut mgr);
            let mut o = match &r { Ok(Ok(k)) => vec![0, *k as u128], Ok(Err(e)) => vec![1, ecode(e)], Err(_) => vec![2, 0] };
            o.extend(b128(&out[..k])); o.extend(c); o.extend([u, s]);
            ctx.tr.line(1703, &[n as u128], &o);
            if mon { let mut m = vec![n as u128, enc_res(&r)[0], match &r { Ok(Ok(k)) => *k as u128, _ => 0 }]; m.extend(b128(&out[..k])); m.extend(enc_opkts(&pk, &[])); ctx.tr.line(1764, &m, &[1]); }
            // the ring buffer has given the bytes away whether or not recv then returned normally
            buffered = u as usize;
            if k > 0 && k < n { ctx.tr.note("stream_recv_emptied_buffer"); } else if k > 0 { ctx.tr.note("stream_recv_filled_out"); } else { ctx.tr.note("stream_recv_nothing"); }
            if c[3] < k as u128 { ctx.tr.note("stream_fwd_cnt_wrapped"); }
        } else if which < 97 {
            let r = { let m = &mut mgr; catch_unwind(AssertUnwindSafe(move || m.update_credit(paddr, lp))) };
            let pk = take_pkts();
            let mut o = vec![enc_res(&r)[0]]; o.extend(enc_pkts(&pk));
            ctx.tr.line(1704, &[], &o);
            if mon { let mut m = vec![enc_res(&r)[0]]; m.extend(enc_opkts(&pk, &[])); ctx.tr.line(1765, &m, &[1]); }
            see(&mut p, &pk);
            ctx.tr.note("stream_update_credit");
        } else {
            let (_, _, _, b) = state(&mut mgr);
            if b.len() <= 1024 { ctx.tr.line(1705, &[], &b128(&b)); }
        }
    }
    // orderly end: the shutdown packet still carries the current numbers
    let r = { let m = &mut mgr; catch_unwind(AssertUnwindSafe(move || m.shutdown(paddr, lp))) };
    let pk = take_pkts();
    if mon && matches!(r, Ok(Ok(()))) {
        // flags = 3 is specific to shutdown; the generic packet monitor does not look at flags
        ctx.tr.line(1766, &enc_opkts(&pk, &[]), &[1]);
    }
    drop(mgr);
    end_socket();
    ledger_line(ctx);
}

/// the witnesses of the defects found with this check (corpus/findings/C17_*.trace); they run first on every check
fn findings(ctx: &mut Ctx) {
    ctx.tr.scenario("c17-findings-send");
    if let Some(mut sock) = mk_socket::<512>(0, 66) {
        let peer = VsockAddr { cid: 2, port: 1234 };
        // F7: tx_cnt + len crosses 2^32 (nothing in flight, credit 100, 10 bytes)
        send_case(ctx, &mut sock, 66, peer, 4321, (100, 4294967290, 4294967290, 0, false), 1024, 10);
        // F7: tx_cnt has wrapped, peer_fwd_cnt has not (11 bytes in flight, credit 100, 10 bytes)
        send_case(ctx, &mut sock, 66, peer, 4321, (100, 4294967290, 5, 0, false), 1024, 10);
        // F12: the peer shrank buf_alloc to 10 with 20 bytes in flight: no credit, yet 100 bytes are accepted (release) / panic (debug)
        send_case(ctx, &mut sock, 66, peer, 4321, (10, 0, 20, 0, false), 1024, 100);
        drop(sock);
        end_socket();
        ledger_line(ctx);
    }
    ctx.tr.scenario("c17-findings-done-forwarding");
    // F7: fwd_cnt crosses 2^32
    directed_done_forwarding(ctx, 0, &[(4294967290, 10)]);
    // F7 through the connection manager: recv hands the bytes out of the ring buffer, then fwd_cnt += panics: the two bytes are lost
    ctx.tr.scenario("c17-findings-recv-across-2^32");
    stream::<512>(ctx, 0, 66, 4, u32::MAX, 0, 0, true, &[(2, 2), (3, 2), (2, 1), (3, 4)], Some(64));
    // F12 through the connection manager: 20 bytes in flight, the peer's credit update shrinks its buffer to 10, a send of 30 bytes follows
    ctx.tr.scenario("c17-findings-peer-buffer-shrunk");
    stream::<512>(ctx, 0, 66, 4, 0, 0, 0, true, &[(0, 20), (6, 10), (0, 30), (1, 0), (0, 10), (0, 1)], Some(64));
}

pub fn run(ctx: &mut Ctx) {
    findings(ctx);
    // (a)
    let nops = ctx.budget(120, 8) as usize;
    let mut caps: Vec<usize> = (1..=64).collect(); caps.extend([100, 255, 256, 1024]);
    for cap in caps {
        ctx.tr.scenario(&format!("c17-ringbuffer-cap{}", cap));
        ringbuffer(ctx, cap, if cap <= 8 { nops * 2 } else { nops });
    }
    // (b)
    ctx.tr.scenario("c17-read-header-and-body");
    let n = ctx.budget(1000, 10); read_header(ctx, n);
    // (c)
    for (i, feats) in [0u64, (1 << 28) | (1 << 29) | (1 << 32)].iter().enumerate() {
        ctx.tr.scenario(&format!("c17-directed-send-f{}", i));
        let n = ctx.budget(2500, 10); directed_send(ctx, *feats, n);
    }
    ctx.tr.scenario("c17-directed-done-forwarding");
    let n = ctx.budget(1500, 10); directed_done_forwarding(ctx, n, &[]);
    // (d)
    let steps = ctx.budget(220, 4) as usize;
    let nstreams = ctx.budget(72, 5);
    for h in 0..nstreams {
        let cap: u32 = match h % 9 { 0 => 1, 1 => 2, 2 => 3, 3 => 7, 4 => 16, 5 => 64, 6 => 100, 7 => 1024, _ => 1 + ctx.rng.below(64) as u32 };
        let near = |ctx: &mut Ctx| -> u32 { match ctx.rng.below(4) { 0 => 0, 1 => u32::MAX - ctx.rng.below(200) as u32, 2 => (0u32).wrapping_sub(ctx.rng.below(3000) as u32), _ => ctx.rng.next() as u32 } };
        let (rx_base, tx_base) = (near(ctx), near(ctx));
        let feats = if h % 2 == 0 { 0 } else { (1 << 28) | (1 << 29) | (1 << 32) };
        let guest = if h % 3 == 0 { 0x1_0000_0042u64 } else { 3 + ctx.rng.below(1000) };
        ctx.tr.scenario(&format!("c17-stream-h{}-cap{}-rx{}-tx{}-f{}", h, cap, rx_base, tx_base, h % 2));
        if h % 4 == 3 { stream::<64>(ctx, feats, guest, cap, rx_base, tx_base, steps, true, &[], None); } else { stream::<512>(ctx, feats, guest, cap, rx_base, tx_base, steps, true, &[], None); }
    }
    // a peer that does not honour the credit, and malformed packets: correspondence only
    let nd = ctx.budget(12, 5);
    for h in 0..nd {
        let cap: u32 = [1u32, 4, 16, 64][(h % 4) as usize];
        ctx.tr.scenario(&format!("c17-dishonest-peer-h{}-cap{}", h, cap));
        stream::<512>(ctx, 0, 66, cap, u32::MAX - 50, u32::MAX - 50, steps, false, &[], None);
    }
}
