//! C07 at driver level: every one of the eleven drivers (plus the vsock connection manager on top of
//! VirtIOSocket) against an ADVERSARIAL device.
//!
//!  * each case runs in a forked child process: a driver that takes the process down (an abort that cannot be
//!    caught: a panic while unwinding, a failed allocation, a wild access) is seen by the parent as the child's
//!    death and reported as outcome class 3 on the operation that was running; the harness itself survives;
//!  * the device (`Adv`) fetches every chain at the very store that publishes it (hook `Store{what: 2}`), so it
//!    never needs the driver-owned areas again; between operations and at every iteration of a busy-wait it
//!    completes chains with arbitrary lengths (0, 1, exact, exact+1, size, size+1, 2^32-1), with ids that are
//!    out of range / never issued / not a head / already completed / dirty in the upper 16 bits, moves the used
//!    index by 1..N+2 or backwards, writes garbage or spec-shaped responses with hostile field values into the
//!    writable buffers, rewrites notification-suppression words and changes configuration-space bytes and the
//!    generation (also in the middle of a multi-field read);
//!  * observations per operation -> monitor 165 [driver; operation; class; detail; returned length; capacity;
//!    violations; frees]: outcome class (0 Ok / 1 Err / 2 clean panic via catch_unwind; 3 = the process died;
//!    4 = the harness itself failed), detail (error code / panic message class / signal), the length the driver
//!    returned against the capacity of the backing buffer (only where the driver hands out or fills a slice:
//!    console recv / read / fill_buf, vsock poll body, connection manager events / recv, OwningQueue slices, sound
//!    info counts, gpu EDID / frame buffer, blk device_id, input strings, RxBuffer::packet(); lengths that are the
//!    device's number passed through - rng, 9p, net raw, packet_len() - are notes `passes_device_length_through_d<drv>`), platform-contract violations (LedgerHal), heap frees
//!    that hit memory currently shared with the live device (WatchHal + allocator hook of scen/c09.rs) plus
//!    caller buffers handed back (Ok, or an error the device reported in its answer) while still shared;
//!  * every history runs twice on the same device answers: once plain, once with the device scribbling over
//!    descriptor table and available ring after every driver write and every device step. The caller-visible
//!    results must be identical -> monitor 166;
//!  * a blocking call that does not return within SPIN_LIMIT iterations because the device lies is not a C07
//!    matter: the history ends there and the fact is recorded as a note.
use crate::hal;
use crate::rng::Rng;
use crate::scen::c09::{WatchHal, H_N, WATCH_ON, watch_reset};
use crate::scen::common::*;
use crate::scen::drivers9::{self, Built, Drv};
use crate::tport::{ModelTransport, QInfo, TState};
use crate::trace::Trace;
use crate::Ctx;
use std::cell::{Cell, RefCell};
use std::collections::BTreeMap;
use std::panic::{catch_unwind, AssertUnwindSafe};
use std::rc::Rc;
use std::sync::atomic::Ordering::Relaxed;
use virtio_drivers::device::blk::{BlkReq, BlkResp, VirtIOBlk};
use virtio_drivers::device::console::VirtIOConsole;
use virtio_drivers::device::gpu::VirtIOGpu;
use virtio_drivers::device::input::{InputConfigSelect, VirtIOInput};
use virtio_drivers::device::net::{RxBuffer, TxBuffer, VirtIONet, VirtIONetRaw};
use virtio_drivers::device::rng::VirtIORng;
use virtio_drivers::device::rtc::VirtIORtc;
use virtio_drivers::device::socket::{ConnectionInfo, VirtIOSocket, VsockAddr, VsockConnectionManager, VsockEventType};
use virtio_drivers::device::sound::{PcmFeatures, PcmFormat, PcmRate, VirtIOSound};
use virtio_drivers::device::virtio_9p::VirtIO9p;
use virtio_drivers::verif::Event;
use virtio_drivers::Error;

type T = ModelTransport;
type H = WatchHal;
const NETQ: usize = drivers9::NETQ;
const SOCK_RX: usize = 512;
const VSOCK_HDR: usize = 44;
const SPIN_LIMIT: u64 = 48;
const K_SAFE: u64 = 165;
const K_DIFF: u64 = 166;
/// operation codes that are not a driver method
const OP_NEW: u128 = 100;
const OP_DROP: u128 = 101;
const OP_PROCESS: u128 = 102;

// ------------------------------------------------------------------------------------------------
// process isolation
extern "C" {
    fn fork() -> i32;
    fn pipe(fds: *mut i32) -> i32;
    fn waitpid(pid: i32, status: *mut i32, options: i32) -> i32;
    fn _exit(code: i32) -> !;
    fn close(fd: i32) -> i32;
    fn write(fd: i32, buf: *const u8, n: usize) -> isize;
    fn getrlimit(resource: i32, rlim: *mut [u64; 2]) -> i32;
    fn setrlimit(resource: i32, rlim: *const [u64; 2]) -> i32;
    fn alarm(seconds: u32) -> u32;
}
/// a case takes milliseconds; a child still running after this many seconds is in a loop of the code under test that
/// the busy-wait hook does not see: SIGALRM ends it and the parent reports the death (class 3, detail 14)
const CHILD_WATCHDOG_S: u32 = 120;
const RLIMIT_AS: i32 = 9;
/// let the address space of this (child) process grow by at most `extra` bytes from now on
fn cap_address_space(extra: u64) {
    let pages: u64 = std::fs::read_to_string("/proc/self/statm").ok().and_then(|s| s.split_whitespace().next().and_then(|x| x.parse().ok())).unwrap_or(0);
    if pages == 0 { return; }
    let mut lim = [0u64; 2];
    unsafe {
        if getrlimit(RLIMIT_AS, &mut lim) != 0 { return; }
        let want = pages * 4096 + extra;
        lim[0] = if lim[1] != u64::MAX { want.min(lim[1]) } else { want };
        setrlimit(RLIMIT_AS, &lim);
    }
}

struct GiveUp;
thread_local! {
    static ADV: RefCell<Option<Adv>> = RefCell::new(None);
    static LAST_PANIC: RefCell<Option<(String, String)>> = RefCell::new(None);
    static PANIC_DEPTH: Cell<u32> = Cell::new(0);
    static OUT_FD: Cell<i32> = Cell::new(-1);
    static LAST_MSG: RefCell<String> = RefCell::new(String::new());
}

fn install_hook() {
    std::panic::set_hook(Box::new(|info| {
        let msg = if info.payload().downcast_ref::<GiveUp>().is_some() { "C07DRV-GIVE-UP".to_string() }
            else if let Some(s) = info.payload().downcast_ref::<&str>() { s.to_string() }
            else if let Some(s) = info.payload().downcast_ref::<String>() { s.clone() } else { "?".to_string() };
        let file = info.location().map(|l| format!("{}:{}", l.file(), l.line())).unwrap_or_default();
        let depth = PANIC_DEPTH.with(|d| { let v = d.get(); d.set(v + 1); v });
        if depth > 0 {
            // a second panic while the first one is still unwinding: the runtime aborts the process after this hook
            let s = format!("# NONUNWINDING panic while unwinding: {} @ {}\n", msg.replace('\n', " "), file);
            let fd = OUT_FD.with(|f| f.get());
            if fd >= 0 { unsafe { write(fd, s.as_ptr(), s.len()); } }
        }
        let _ = LAST_PANIC.try_with(|p| if let Ok(mut p) = p.try_borrow_mut() { *p = Some((msg, file)); });
    }));
}

/// 1 harness gave up on a busy-wait, 2 bounds check, 3 assertion, 4 unwrap / expect, 5 arithmetic overflow,
/// 6 explicit panic of the queue code, 7 other, 8 raised inside the harness (platform / transport emulation)
fn panic_class() -> u128 {
    let p = LAST_PANIC.with(|p| p.borrow_mut().take());
    PANIC_DEPTH.with(|d| d.set(0));
    let Some((msg, file)) = p else { return 7 };
    LAST_MSG.with(|m| *m.borrow_mut() = format!("{} @ {}", msg.replace('\n', " "), file));
    if msg == "C07DRV-GIVE-UP" { 1 }
    else if file.contains("harness/src") { 8 }
    else if msg.contains("out of bounds") || msg.contains("out of range") || msg.contains("slice index") || msg.contains("range end index") || msg.contains("range start index") { 2 }
    else if msg.starts_with("assertion") { 3 }
    else if msg.contains("unwrap()") || msg.contains("expect") || msg.contains("Option::unwrap") { 4 }
    else if msg.starts_with("attempt to") { 5 }
    else if msg.starts_with("Descriptor chain") { 6 }
    else { 7 }
}

fn parse_nums(s: &str) -> Vec<u128> { s.split_whitespace().filter_map(|x| x.parse().ok()).collect() }

/// run `f` in a child process; its trace lines, comments and notes are merged into `ctx`
fn isolated(ctx: &mut Ctx, name: &str, dcode: u128, f: impl FnOnce(&mut Ctx)) {
    ctx.tr.scenario(name);
    let seed = ctx.rng.next();
    let mk = |seed: u64, ctx: &Ctx| Ctx { tier_thorough: ctx.tier_thorough, seed, rng: Rng::new(seed), tr: Trace::new(), release: ctx.release };
    let mut fds = [0i32; 2];
    let pid = if unsafe { pipe(fds.as_mut_ptr()) } != 0 { -1 } else { ctx.tr.flush(); unsafe { fork() } };
    if pid < 0 {
        // no isolation available: run in place
        let mut c = mk(seed, ctx);
        install_hook();
        let r = catch_unwind(AssertUnwindSafe(|| f(&mut c)));
        std::panic::set_hook(Box::new(|_| {}));
        ctx.tr.buf.push_str(&c.tr.buf);
        for (k, v) in &c.tr.notes { ctx.tr.note_n(k, *v); }
        if r.is_err() { ctx.tr.line(K_SAFE, &[dcode, OP_PROCESS, 4, 8, 0, 0, 0, 0], &[1]); }
        ctx.tr.note("isolation_unavailable");
        return;
    }
    if pid == 0 {
        use std::os::unix::io::FromRawFd;
        unsafe { close(fds[0]); alarm(CHILD_WATCHDOG_S); }
        OUT_FD.with(|o| o.set(fds[1]));
        let mut c = mk(seed, ctx);
        c.tr.out = Some(unsafe { std::fs::File::from_raw_fd(fds[1]) });
        install_hook();
        let r = catch_unwind(AssertUnwindSafe(|| f(&mut c)));
        if r.is_err() { let p = LAST_PANIC.with(|p| p.borrow_mut().take()); c.tr.comment(&format!("HARNESS-PANIC {:?}", p)); }
        let mut s = String::from("# NOTES");
        for (k, v) in &c.tr.notes { s.push_str(&format!(" {}={}", k.replace(' ', "_"), v)); }
        c.tr.comment(&s[2..]);
        c.tr.flush();
        unsafe { _exit(if r.is_err() { 3 } else { 0 }) }
    }
    unsafe { close(fds[1]); }
    let mut text = String::new();
    {
        use std::io::Read;
        use std::os::unix::io::FromRawFd;
        let mut rd = unsafe { std::fs::File::from_raw_fd(fds[0]) };
        let mut bytes = vec![];
        let _ = rd.read_to_end(&mut bytes);
        text.push_str(&String::from_utf8_lossy(&bytes));
    }
    let mut status = 0i32;
    unsafe { waitpid(pid, &mut status, 0); }
    let mut last_op: u128 = OP_PROCESS;
    for l in text.lines() {
        if let Some(r) = l.strip_prefix("# NOTES") {
            for kv in r.split_whitespace() { if let Some((k, v)) = kv.split_once('=') { ctx.tr.note_n(k, v.parse().unwrap_or(0)); } }
        } else if let Some(r) = l.strip_prefix("# OP ") { last_op = r.trim().parse().unwrap_or(OP_PROCESS); }
        else if let Some(r) = l.strip_prefix("# ") { ctx.tr.comment(r); }
        else if let Some((a, b)) = l.split_once('|') {
            let ins = parse_nums(a);
            if !ins.is_empty() { ctx.tr.line(ins[0] as u64, &ins[1..], &parse_nums(b)); }
        }
    }
    let sig = status & 0x7f;
    let code = (status >> 8) & 0xff;
    if sig != 0 {
        // the driver took the process down: an outcome that is neither a result, nor an error, nor a clean panic
        ctx.tr.comment(&format!("child killed by signal {} during operation {} of driver {}", sig, last_op, dcode));
        ctx.tr.line(K_SAFE, &[dcode, last_op, 3, sig as u128, 0, 0, 0, 0], &[1]);
        ctx.tr.note("process_died");
    } else if code != 0 {
        ctx.tr.comment(&format!("harness failure in the child (exit {}) during operation {}", code, last_op));
        ctx.tr.line(K_SAFE, &[dcode, last_op, 4, 8, 0, 0, 0, 0], &[1]);
    }
}

// ------------------------------------------------------------------------------------------------
// the adversarial device
#[derive(Clone, Debug)]
struct Elem { addr: u64, len: u32, w: bool }
#[derive(Clone, Debug)]
struct Chain { head: u16, descs: Vec<u16>, elems: Vec<Elem> }
#[derive(Default)]
struct QS { seen: u16, used: u16, pending: Vec<Chain>, done: Vec<u16> }

struct Adv {
    st: Rc<RefCell<TState>>,
    d: Drv,
    drng: Rng,
    srng: Rng,
    scribble: bool,
    qs: Vec<QS>,
    last_q: usize,
    spins: u64,
    gave_up: bool,
    /// do nothing at all (during teardown)
    quiet: bool,
    /// the device ignores the driver for the whole of the next operation: a busy-wait in it never ends
    mute: bool,
    notes: BTreeMap<&'static str, u64>,
    guest_cid: u64,
    /// ids other than the chain's own, and used-index jumps, jam a queue for good (a refused completion is never
    /// consumed): they are held back until the history has got somewhere
    id_attacks: bool,
    /// (peer cid, peer port, local port) the driver side talks about: lets the device address existing connections
    conns: Vec<(u64, u32, u32)>,
}

fn rd_desc(b: &[u8]) -> (u64, u32, u16, u16) {
    (u64::from_le_bytes(b[0..8].try_into().unwrap()), u32::from_le_bytes(b[8..12].try_into().unwrap()),
     u16::from_le_bytes([b[12], b[13]]), u16::from_le_bytes([b[14], b[15]]))
}

impl Adv {
    fn new(st: Rc<RefCell<TState>>, d: Drv, seed: u64, scribble: bool) -> Adv {
        Adv { st, d, drng: Rng::new(seed ^ 0xC07D), srng: Rng::new(seed ^ 0x5C21BB1E), scribble, qs: vec![], last_q: 0, spins: 0, gave_up: false,
            quiet: false, mute: false, notes: BTreeMap::new(), guest_cid: 0, id_attacks: false, conns: vec![] }
    }
    fn note(&mut self, k: &'static str) { *self.notes.entry(k).or_insert(0) += 1; }
    fn nq(&self) -> usize { self.st.try_borrow().map(|s| s.queues.len()).unwrap_or(0) }
    fn qinfo(&self, q: usize) -> Option<QInfo> {
        let s = self.st.try_borrow().ok()?;
        let qi = *s.queues.get(q)?;
        if qi.set && qi.size != 0 && qi.size.is_power_of_two() { Some(qi) } else { None }
    }
    fn ensure(&mut self, q: usize) { while self.qs.len() <= q { self.qs.push(QS::default()); } }

    /// follow a chain the way a device does (VirtIO 1.2 2.7.5 / 2.7.5.3)
    fn walk(qi: &QInfo, head: u16) -> Chain {
        let n = qi.size as usize;
        let mut c = Chain { head, descs: vec![], elems: vec![] };
        if head as usize >= n { return c; }
        let Ok(b) = hal::dev_read(qi.desc + 16 * head as u64, 16) else { return c };
        let (addr, len, flags, _) = rd_desc(&b);
        if flags & 4 != 0 {
            c.descs.push(head);
            if let Ok(tbl) = hal::dev_read(addr, len as usize) {
                let m = len as usize / 16; let mut i = 0usize; let mut steps = 0;
                while i < m && steps <= m {
                    let (a, l, f, nx) = rd_desc(&tbl[16 * i..16 * i + 16]);
                    c.elems.push(Elem { addr: a, len: l, w: f & 2 != 0 }); steps += 1;
                    if f & 1 == 0 { break; }
                    i = nx as usize;
                }
            }
        } else {
            let mut cur = head as usize; let mut steps = 0;
            while cur < n && steps <= n {
                let Ok(b) = hal::dev_read(qi.desc + 16 * cur as u64, 16) else { break };
                let (a, l, f, nx) = rd_desc(&b);
                c.descs.push(cur as u16); c.elems.push(Elem { addr: a, len: l, w: f & 2 != 0 }); steps += 1;
                if f & 1 == 0 { break; }
                cur = nx as usize;
            }
        }
        c
    }

    /// the driver has just stored an available index: take over the chain it published. The device keeps what it
    /// read; it never looks at descriptor table or available ring again for this chain.
    fn on_avail_store(&mut self) {
        if self.quiet { return; }
        for q in 0..self.nq() {
            let Some(qi) = self.qinfo(q) else { continue };
            self.ensure(q);
            let n = qi.size as usize;
            let mut guard = 0;
            while guard < 4 {
                let Ok(idx) = hal::dev_read_u16(qi.drv + 2) else { break };
                let seen = self.qs[q].seen;
                // the driver adds one entry per store; whatever else sits there is the device's own scribble
                if idx != seen.wrapping_add(1) { break; }
                let head = hal::dev_read_u16(qi.drv + 4 + 2 * ((seen as usize) & (n - 1)) as u64).unwrap_or(0xffff);
                let c = Self::walk(&qi, head);
                self.qs[q].pending.retain(|p| p.head != head);
                self.qs[q].done.retain(|h| *h != head);
                self.qs[q].pending.push(c);
                self.qs[q].seen = seen.wrapping_add(1);
                self.last_q = q;
                guard += 1;
            }
        }
        if self.scribble { self.scribble_all(); }
    }

    /// garbage over the areas the device must not write: whole descriptor table, available flags / index / ring / used_event
    fn scribble_all(&mut self) {
        for q in 0..self.nq() {
            let Some(qi) = self.qinfo(q) else { continue };
            self.ensure(q);
            let n = qi.size as usize;
            let g = match self.srng.below(4) { 0 => vec![0xffu8; 16 * n], 1 => vec![0u8; 16 * n], _ => self.srng.bytes(16 * n) };
            let _ = hal::dev_write(qi.desc, &g);
            let mut a = self.srng.bytes(6 + 2 * n);
            // an index the driver cannot have stored next (keeps the device's own bookkeeping unambiguous)
            let idx = self.qs[q].seen.wrapping_add(0x4000 + self.srng.below(0x4000) as u16);
            a[2..4].copy_from_slice(&idx.to_le_bytes());
            let _ = hal::dev_write(qi.drv, &a);
        }
        *self.notes.entry("scribbles").or_insert(0) += 1;
    }

    /// one iteration of a busy-wait of the driver; true = give up
    fn on_spin(&mut self, site: u8) -> bool {
        if self.quiet { return false; }
        self.spins += 1;
        if self.spins > SPIN_LIMIT { self.gave_up = true; return true; }
        if self.mute { return false; }
        let q = match site { 1 | 3 | 4 => 0, 2 => 2, _ => self.last_q };
        let q = if self.drng.chance(1, 10) { self.drng.below(self.nq().max(1) as u64) as usize } else { q };
        self.act(q, true);
        if self.scribble { self.scribble_all(); }
        false
    }

    fn between_ops(&mut self) {
        if self.quiet { return; }
        self.mute = self.drng.chance(1, 60);
        if self.mute { self.note("dev_silent_for_one_operation"); }
        let k = self.drng.below(3);
        for _ in 0..k {
            let nq = self.nq().max(1);
            // prefer queues on which the driver has something outstanding
            let busy: Vec<usize> = (0..nq).filter(|q| self.qs.get(*q).map_or(false, |s| !s.pending.is_empty())).collect();
            let q = if !busy.is_empty() && self.drng.chance(3, 4) { *self.drng.pick(&busy) } else { self.drng.below(nq as u64) as usize };
            self.act(q, false);
        }
        if self.scribble { self.scribble_all(); }
    }

    fn push_used(&mut self, q: usize, qi: &QInfo, id: u32, len: u32) {
        let n = qi.size as usize;
        let used = self.qs[q].used;
        let slot = (used as usize) & (n - 1);
        let _ = hal::dev_write_u32(qi.dev + 4 + 8 * slot as u64, id);
        let _ = hal::dev_write_u32(qi.dev + 8 + 8 * slot as u64, len);
        self.qs[q].used = used.wrapping_add(1);
        let _ = hal::dev_write_u16(qi.dev + 2, self.qs[q].used);
    }

    fn hostile_len(&mut self, exact: u32, wtotal: u32) -> u32 {
        match self.drng.below(13) {
            0 => 0, 1 => 1, 2 | 3 | 4 | 5 | 6 => exact, 7 => exact.wrapping_add(1), 8 => wtotal, 9 => wtotal.wrapping_add(1), 10 => u32::MAX,
            11 => self.drng.next() as u32, _ => self.drng.below(wtotal as u64 + 2) as u32,
        }
    }

    fn act(&mut self, q: usize, directed: bool) {
        let Some(qi) = self.qinfo(q) else { return };
        self.ensure(q);
        let n = qi.size as usize;
        let r = self.drng.below(100);
        let has = !self.qs[q].pending.is_empty();
        let cut = if directed { 65 } else { 50 };
        // without id attacks: own-id completions, buffer / suppression / configuration games only
        let r = if !has && r < cut { cut + r % 50 } else { r };
        let r = if !self.id_attacks && r >= cut && r < cut + 28 { if has { 0 } else { cut + 28 + (r - cut) % 16 } } else { r };
        if r < cut && has {
            // the chain is completed under its own id (possibly dirty in the upper half), with an arbitrary length
            let np = self.qs[q].pending.len();
            // which chain: while ids are played straight, the one the driver waits for (the newest on a request queue,
            // the oldest where the driver keeps several in flight and consumes them in order)
            let newest = directed && !(self.d == Drv::Sound && q == 2);
            let k = if !self.id_attacks { if newest { np - 1 } else { 0 } }
                    else if directed { if self.drng.chance(3, 4) { np - 1 } else { self.drng.below(np as u64) as usize } }
                    else if self.drng.chance(1, 2) { 0 } else { self.drng.below(np as u64) as usize };
            let c = self.qs[q].pending.remove(k);
            let wtotal: u64 = c.elems.iter().filter(|e| e.w).map(|e| e.len as u64).sum();
            let wtotal = wtotal.min(u32::MAX as u64) as u32;
            let (resp, exact, forced) = self.respond(q, &c, wtotal);
            let mut off = 0usize;
            for e in c.elems.iter().filter(|e| e.w) {
                if off >= resp.len() { break; }
                let k = (resp.len() - off).min(e.len as usize);
                let _ = hal::dev_write(e.addr, &resp[off..off + k]); off += k;
            }
            let len = match forced { Some(l) => l, None => self.hostile_len(exact as u32, wtotal) };
            let id = if self.drng.chance(1, 4) { c.head as u32 | ((self.drng.next() as u32) << 16) } else { c.head as u32 };
            self.push_used(q, &qi, id, len);
            self.qs[q].done.push(c.head);
            if self.qs[q].done.len() > 64 { self.qs[q].done.remove(0); }
            self.note(if len as u64 > wtotal as u64 { "dev_complete_oversize_len" } else if len == 0 { "dev_complete_zero_len" } else { "dev_complete" });
            if id > 0xffff { self.note("dev_complete_dirty_high_id"); }
        } else if r < cut + 20 {
            let heads: Vec<u16> = self.qs[q].pending.iter().map(|c| c.head).collect();
            let inner: Vec<u16> = self.qs[q].pending.iter().flat_map(|c| c.descs.iter().skip(1).copied().collect::<Vec<_>>()).collect();
            let all: Vec<u16> = self.qs[q].pending.iter().flat_map(|c| c.descs.clone()).collect();
            let id: u32 = match self.drng.below(6) {
                0 => { self.note("dev_id_out_of_range"); n as u32 + self.drng.below(5) as u32 }
                1 => { self.note("dev_id_all_ones"); if self.drng.chance(1, 2) { 0xffff } else { u32::MAX } }
                2 => { self.note("dev_id_never_issued"); (0..n as u16).find(|i| !all.contains(i)).map(|i| i as u32).unwrap_or(self.drng.below(n as u64) as u32) }
                3 => { self.note("dev_id_not_a_head"); if inner.is_empty() { self.drng.below(n as u64) as u32 } else { *self.drng.pick(&inner) as u32 } }
                4 => { self.note("dev_id_already_completed");
                       let old: Vec<u16> = self.qs[q].done.iter().copied().filter(|h| !heads.contains(h)).collect();
                       if old.is_empty() { self.drng.below(n as u64) as u32 } else { *self.drng.pick(&old) as u32 } }
                _ => { self.note("dev_id_random"); self.drng.next() as u32 }
            };
            let ex = self.drng.below(64) as u32; let len = self.hostile_len(ex, 4096);
            self.push_used(q, &qi, id, len);
        } else if r < cut + 28 {
            // the used index moves without entries having been written: forwards by 1..N+2, or backwards
            let used = self.qs[q].used;
            self.qs[q].used = if self.drng.chance(1, 3) { self.note("dev_used_idx_backwards"); used.wrapping_sub(1 + self.drng.below(3) as u16) }
                              else { self.note("dev_used_idx_jump"); used.wrapping_add(1 + self.drng.below(n as u64 + 2) as u16) };
            let _ = hal::dev_write_u16(qi.dev + 2, self.qs[q].used);
        } else if r < cut + 36 && has {
            // bytes appear in a buffer the device still owns
            let k = self.drng.below(self.qs[q].pending.len() as u64) as usize;
            let c = self.qs[q].pending[k].clone();
            for e in c.elems.iter().filter(|e| e.w) {
                let l = (e.len as usize).min(8192);
                let g = if self.drng.chance(1, 3) { vec![0xffu8; l] } else { self.drng.bytes(l) };
                let _ = hal::dev_write(e.addr, &g);
            }
            self.note("dev_writes_owned_buffer");
        } else if r < cut + 43 {
            // notification suppression words (used flags, avail_event)
            let _ = hal::dev_write_u16(qi.dev, self.drng.next() as u16);
            let _ = hal::dev_write_u16(qi.dev + 4 + 8 * n as u64, self.drng.next() as u16);
            self.note("dev_suppression_words");
        } else {
            self.cfg_act();
        }
    }

    /// configuration space changes under the driver's feet
    fn cfg_act(&mut self) {
        let d = self.d;
        let Ok(mut s) = self.st.try_borrow_mut() else { return };
        let hostile = hostile_config(d, &mut self.drng, &s.config);
        match self.drng.below(3) {
            0 => { s.config = hostile; }
            1 => { if !s.config.is_empty() { let i = self.drng.below(s.config.len() as u64) as usize; s.config[i] = self.drng.next() as u8; } }
            _ => { let at = s.cfg_accesses + 1 + self.drng.below(4) as usize; let bump = self.drng.chance(1, 2); s.cfg_schedule.push((at, hostile, bump)); }
        }
        if self.drng.chance(1, 2) { s.config_gen = s.config_gen.wrapping_add(1 + self.drng.below(3) as u32); }
        s.isr = self.drng.below(4) as u32;
        drop(s);
        self.note("dev_config_change");
    }

    /// bytes for the writable part of a chain: (bytes, the length an honest device would report, a used length to force)
    fn respond(&mut self, q: usize, c: &Chain, wtotal: u32) -> (Vec<u8>, usize, Option<u32>) {
        let wt = (wtotal as usize).min(1 << 16);
        if wt == 0 { return (vec![], 0, None); }
        match self.drng.below(8) {
            0 => { self.note("resp_all_ones"); return (vec![0xff; wt], wt, None); }
            1 => { self.note("resp_random"); return (self.drng.bytes(wt), wt, None); }
            _ => {}
        }
        let mut req: Vec<u8> = vec![];
        for e in c.elems.iter().filter(|e| !e.w) { if let Ok(b) = hal::dev_read(e.addr, (e.len as usize).min(4096)) { req.extend(b); } }
        let rng = &mut self.drng;
        let u32_of = |rng: &mut Rng, v: &[u32]| -> u32 { if rng.chance(1, 5) { rng.next() as u32 } else { *rng.pick(v) } };
        let (mut out, forced): (Vec<u8>, Option<u32>) = match (self.d, q) {
            (Drv::Blk, _) => {
                let mut o = rng.bytes(wt - 1);
                o.push(*rng.pick(&[0u8, 0, 0, 0, 1, 2, 3, 4, 0xff, 0x80]));
                (o, None)
            }
            (Drv::Console, 0) => { let l = if rng.chance(1, 8) { wt } else { 1 + rng.below(16.min(wt as u64)) as usize }; (rng.bytes(l), None) }
            (Drv::Gpu, 0) => {
                let ty = if req.len() >= 4 { u32::from_le_bytes(req[0..4].try_into().unwrap()) } else { 0 };
                let right = match ty { 0x100 => 0x1101u32, 0x10a => 0x1104, _ => 0x1100 };
                let rty = if rng.chance(5, 6) { right } else { u32_of(rng, &[0x1200, 0x1201, 0x1202, 0x1100, 0x1101, 0x1104, 0, 0xffff_ffff]) };
                let mut o = rty.to_le_bytes().to_vec();
                o.extend(rng.bytes(20));
                if rty == 0x1101 || ty == 0x100 {
                    let dims: [(u32, u32); 12] = [(0, 0), (1, 1), (64, 48), (640, 480), (1024, 768), (2048, 2048), (0, 7), (65536, 65536), (65535, 65537),
                        (0xffff_ffff, 0xffff_ffff), (0x4000_0000, 1), (1, 0x4000_0000)];
                    let (w, h) = if rng.chance(1, 2) { dims[2 + rng.below(3) as usize] } else { *rng.pick(&dims) };
                    o.extend((rng.next() as u32).to_le_bytes()); o.extend((rng.next() as u32).to_le_bytes());
                    o.extend(w.to_le_bytes()); o.extend(h.to_le_bytes()); o.extend((rng.below(2) as u32).to_le_bytes()); o.extend((rng.next() as u32).to_le_bytes());
                } else if rty == 0x1104 || ty == 0x10a {
                    let size = u32_of(rng, &[0, 127, 128, 129, 256, 1024, 1025, 0xffff_ffff]);
                    o.extend(size.to_le_bytes()); o.extend(0u32.to_le_bytes()); o.extend(rng.bytes(1024));
                }
                (o, None)
            }
            (Drv::Input, _) => (rng.bytes(8), None),
            (Drv::NetRaw, 0) | (Drv::NetBuf, 0) => { let l = 10 + rng.below(70) as usize; (rng.bytes(l.min(wt)), None) }
            (Drv::Rng, _) => (rng.bytes(wt), None),
            (Drv::Rtc, _) => {
                let mut o = rng.bytes(wt);
                o[0] = *rng.pick(&[0u8, 0, 0, 0, 1, 2, 3, 4, 5, 0xff]);
                if wt > 10 && rng.chance(1, 2) { o[8] = rng.below(6) as u8; o[9] = rng.below(4) as u8; }
                (o, None)
            }
            (Drv::Socket, 0) => {
                let body = rng.below(65) as usize;
                let peer = if !self.conns.is_empty() && rng.chance(3, 4) { *rng.pick(&self.conns) } else { (rng.below(5), rng.below(6) as u32, rng.below(6) as u32) };
                let mut o = vec![];
                o.extend((if rng.chance(7, 8) { peer.0 } else { rng.next() }).to_le_bytes());
                o.extend((if rng.chance(7, 8) { self.guest_cid } else { rng.next() }).to_le_bytes());
                o.extend(peer.1.to_le_bytes()); o.extend(peer.2.to_le_bytes());
                let len = match rng.below(10) { 0 => 0, 1 => body as u32 + 1, 2 => u32::MAX, 3 => 0xffff_ffd4, 4 => (wt as u32).wrapping_sub(44), 5 => (wt as u32).wrapping_sub(43), 6 => rng.next() as u32, _ => body as u32 };
                let op = match rng.below(12) { 0 => 0u16, 8 => 8, 9 => 0xffff, 10 | 11 => 5, k => k as u16 };
                let len = if op != 5 && rng.chance(3, 4) { 0 } else { len };
                o.extend(len.to_le_bytes());
                o.extend((if rng.chance(7, 8) { 1u16 } else { rng.next() as u16 }).to_le_bytes());
                o.extend(op.to_le_bytes());
                o.extend((rng.next() as u32 & if rng.chance(1, 2) { 3 } else { u32::MAX }).to_le_bytes());
                o.extend(u32_of(rng, &[0, 1, 64, 1024, 0xffff_ffff, 0x8000_0000]).to_le_bytes());
                o.extend(u32_of(rng, &[0, 1, 64, 0xffff_ffff, 0x8000_0000]).to_le_bytes());
                o.extend(rng.bytes(body));
                (o, None)
            }
            (Drv::Sound, 0) => {
                let code = u32_of(rng, &[0x8000, 0x8000, 0x8000, 0x8000, 0x8000, 0x8000, 0x8000, 0x8001, 0x8002, 0x8003, 0]);
                let mut o = code.to_le_bytes().to_vec();
                let l = if rng.chance(1, 2) { wt.saturating_sub(4) } else { rng.below(200) as usize };
                o.extend(rng.bytes(l.min(wt.saturating_sub(4))));
                // plausible directions / channel counts in the stream infos (32 bytes each, direction at +24)
                let mut i = 4 + 24; while i + 3 < o.len() { o[i] = rng.below(3) as u8; o[i + 1] = rng.below(4) as u8; o[i + 2] = rng.below(9) as u8; i += 32; }
                // jack infos (24 bytes each, features at +4): let some jacks advertise REMAP
                let mut i = 4 + 4; while i < o.len() && rng.chance(1, 2) { o[i] |= 1; i += 24; }
                (o, None)
            }
            (Drv::Sound, 1) => { let mut o = u32_of(rng, &[0x1000, 0x1001, 0x1100, 0x1101, 0, 0x1002]).to_le_bytes().to_vec(); o.extend(rng.bytes(4)); (o, None) }
            (Drv::Sound, _) => { let mut o = u32_of(rng, &[0x8000, 0x8000, 0x8000, 0x8001, 0x8002, 0x8003, 0]).to_le_bytes().to_vec(); o.extend(rng.bytes(4)); (o, None) }
            (Drv::P9, _) => {
                let l = (7 + rng.below(40) as usize).min(wt);
                let mut o = rng.bytes(l);
                let size = match rng.below(6) { 0 => l as u32 + 1, 1 => 0, 2 => u32::MAX, 3 => wt as u32 + 1, _ => l as u32 };
                if o.len() >= 4 { o[0..4].copy_from_slice(&size.to_le_bytes()); }
                // the driver compares the header's size with the used length: let them agree often, also when both lie
                (o, if rng.chance(1, 2) { Some(size) } else { None })
            }
            _ => (rng.bytes(wt.min(64)), None),
        };
        out.truncate(wt);
        let exact = out.len();
        self.note("resp_shaped");
        (out, exact, forced)
    }
}

/// a configuration space with hostile field values for driver `d` (sometimes truncated)
fn hostile_config(d: Drv, rng: &mut Rng, cur: &[u8]) -> Vec<u8> {
    let mut c = if cur.is_empty() { d.config(rng) } else { cur.to_vec() };
    let set = |c: &mut Vec<u8>, off: usize, b: &[u8]| { if c.len() >= off + b.len() { c[off..off + b.len()].copy_from_slice(b); } };
    let h32 = |rng: &mut Rng| -> u32 { *rng.pick(&[0u32, 1, 2, 127, 128, 170, 171, 255, 256, 0xffff, 0x1_0000, 0x7fff_ffff, 0xffff_ffff]) };
    match d {
        Drv::Blk => { let v = rng.boundary(64); set(&mut c, 0, &v.to_le_bytes()); let r = rng.bytes(8); set(&mut c, 20, &r); }
        Drv::Console => { let a = (h32(rng) as u16).to_le_bytes(); let b = (h32(rng) as u16).to_le_bytes(); set(&mut c, 0, &a); set(&mut c, 2, &b); let m = h32(rng).to_le_bytes(); set(&mut c, 4, &m); }
        Drv::Gpu => { let a = h32(rng).to_le_bytes(); set(&mut c, 0, &a); let b = h32(rng).to_le_bytes(); set(&mut c, 8, &b); }
        Drv::Input => { let s = *rng.pick(&[0u8, 1, 7, 8, 9, 19, 20, 21, 127, 128, 129, 255]); set(&mut c, 2, &[s]); let n = c.len().saturating_sub(8); let r = rng.bytes(n); set(&mut c, 8, &r); }
        Drv::NetRaw | Drv::NetBuf => { let r = rng.bytes(6); set(&mut c, 0, &r); let s = (rng.next() as u16).to_le_bytes(); set(&mut c, 6, &s); }
        Drv::Socket => { let lo = h32(rng).to_le_bytes(); set(&mut c, 0, &lo); let hi = (if rng.chance(1, 2) { 0 } else { h32(rng) }).to_le_bytes(); set(&mut c, 4, &hi); }
        // streams stays small: the driver allocates per stream (see the separate scenario for the unbounded case)
        Drv::Sound => { let j = h32(rng).to_le_bytes(); set(&mut c, 0, &j); let s = (*rng.pick(&[0u32, 1, 2, 3, 127, 128, 129, 300])).to_le_bytes(); set(&mut c, 4, &s); let m = h32(rng).to_le_bytes(); set(&mut c, 8, &m); }
        Drv::P9 => {
            let n = c.len().saturating_sub(2);
            let tl = *rng.pick(&[0u16, 1, n as u16, n as u16 + 1, 0xffff, 300]);
            set(&mut c, 0, &tl.to_le_bytes());
            if rng.chance(1, 3) && c.len() > 2 { let i = 2 + rng.below(n as u64) as usize; c[i] = 0xff; }
        }
        Drv::Rng | Drv::Rtc => {}
    }
    if rng.chance(1, 8) && !c.is_empty() { let k = rng.below(c.len() as u64) as usize; c.truncate(k); }
    c
}

fn with_adv<R: Default>(f: impl FnOnce(&mut Adv) -> R) -> R {
    ADV.with(|c| match c.try_borrow_mut() { Ok(mut g) => match g.as_mut() { Some(a) => f(a), None => R::default() }, Err(_) => R::default() })
}
fn observer(e: Event) {
    match e {
        Event::Store { what: 2, .. } => with_adv(|a| a.on_avail_store()),
        Event::Spin(site) => { if with_adv(|a| a.on_spin(site)) { std::panic::panic_any(GiveUp); } }
        _ => {}
    }
}

// ------------------------------------------------------------------------------------------------
// running operations
/// what the caller saw: class 0 Ok / 1 Err; `ret` <= `cap` is the "no length beyond the backing buffer" clause
struct Out { class: u128, code: u128, ret: u128, cap: u128, dig: Vec<u128> }
fn out_ok(dig: Vec<u128>) -> Out { Out { class: 0, code: 0, ret: 0, cap: 0, dig } }
fn out_len(ret: usize, cap: usize, dig: Vec<u128>) -> Out { Out { class: 0, code: 0, ret: ret as u128, cap: cap as u128, dig } }
fn out_res<V>(r: Result<V, Error>, f: impl FnOnce(V) -> Out) -> Out {
    match r { Ok(v) => f(v), Err(e) => Out { class: 1, code: err_code(&e), ret: 0, cap: 0, dig: vec![] } }
}
fn out_unit(r: Result<(), Error>) -> Out { out_res(r, |_| out_ok(vec![])) }
fn fnv(b: &[u8]) -> u128 { let mut h: u64 = 0xcbf29ce484222325; for x in b { h ^= *x as u64; h = h.wrapping_mul(0x100000001b3); } h as u128 }
/// a caller-side buffer that stays valid for the rest of the process (the device may keep a chain on it for ever)
fn buf(n: usize) -> &'static mut [u8] { Box::leak(vec![0u8; n].into_boxed_slice()) }

struct Env<'a> {
    c: &'a mut Ctx,
    dcode: u128,
    orng: Rng,
    dig: Vec<u128>,
    blocked: bool,
    /// count heap frees that hit shared memory (steady state only)
    watch: bool,
    nops: u64,
    /// frees of shared memory that are the documented consequence of `add_notify_wait_pop` returning WrongToken
    excused: u128,
    /// operation index from which the device also lies about ids and the used index
    id_attack_from: u64,
    /// caller buffers of the next operation: after an Ok they are the caller's again (it may reuse or free them), so
    /// the device must not own them any more
    owned: Vec<*const u8>,
    /// error codes of the next operation that also mean "the request is over" (an error the device reported in its
    /// answer, seen only after the completion was consumed): the buffers are the caller's again then, too
    owned_err: Vec<u128>,
    /// buffers found still shared after an Ok (counted with the frees of shared memory)
    handed_back_shared: u128,
}
impl<'a> Env<'a> {
    fn run(&mut self, opc: u128, f: impl FnOnce() -> Out) -> Option<Out> {
        let owned = std::mem::take(&mut self.owned);
        let owned_err = std::mem::take(&mut self.owned_err);
        if self.blocked { return None; }
        self.c.tr.comment(&format!("OP {}", opc));
        self.c.tr.flush();
        if self.nops >= self.id_attack_from { with_adv(|a| a.id_attacks = true); }
        if opc != OP_NEW && opc != OP_DROP { with_adv(|a| a.between_ops()); }
        with_adv(|a| { a.spins = 0; });
        let r = catch_unwind(AssertUnwindSafe(f));
        let (class, pclass) = match &r { Ok(o) => (o.class, 0), Err(_) => (2, panic_class()) };
        if pclass > 1 { let m = LAST_MSG.with(|m| m.borrow().clone()); self.c.tr.comment(&format!("panic in operation {}: {}", opc, m)); }
        let _ = hal::take_log();
        self.nops += 1;
        if pclass == 1 {
            // the device never let the wait end: not a C07 matter. The driver value is in the middle of a call: stop here.
            self.blocked = true;
            self.c.tr.note(&format!("blocked_forever_d{}_op{}", self.dcode, opc));
            self.dig.extend([opc, 9]);
            return None;
        }
        // a panic raised by the emulation itself (not by the code under test) is a defect of this harness: class 4
        let class = if pclass == 8 { 4 } else { class };
        let viol = hal::violations().len() as u128;
        let over = match &r { Ok(o) => o.class == 0 || (o.class == 1 && owned_err.contains(&o.code)), Err(_) => false };
        if over {
            let live = hal::live_share_list();
            let n = owned.iter().filter(|p| live.iter().any(|s| s.1 == **p as usize)).count() as u128;
            if n > 0 { self.handed_back_shared += n; self.c.tr.note("buffer_still_shared_after_ok"); }
        }
        let frees = if self.watch { (H_N.load(Relaxed) as u128).saturating_sub(self.excused) + self.handed_back_shared } else { 0 };
        let (ret, cap) = match &r { Ok(o) => (o.ret, o.cap), Err(_) => (0, 0) };
        // fourth field: the error code of an Err, the message class of a panic
        let detail = match &r { Ok(o) if o.class == 1 => o.code, _ => pclass };
        self.c.tr.line(K_SAFE, &[self.dcode, opc, class, detail, ret, cap, viol, frees], &[1]);
        self.c.tr.note(match class { 0 => "op_ok", 1 => "op_err", 2 => "op_clean_panic", _ => "op_other" });
        if class == 2 { self.c.tr.note(&format!("panic_class_{}", pclass)); }
        if let Ok(o) = &r { if o.class == 1 { self.c.tr.note(&format!("err_{}", ["", "QueueFull", "NotReady", "WrongToken", "AlreadyUsed", "InvalidParam", "DmaError", "IoError", "Unsupported", "ConfigSpaceTooSmall", "ConfigSpaceMissing", "Socket"][o.code as usize % 12])); } }
        if ret > cap { self.c.tr.note("returned_length_beyond_buffer"); }
        match r {
            Ok(o) => { self.dig.extend([opc, o.class, o.code, o.ret]); self.dig.extend(o.dig.iter().copied()); Some(o) }
            // a panic ends the history (in the crate's targets it ends the system): only the teardown follows
            Err(_) => { self.dig.extend([opc, 2, pclass]); self.blocked = true; None }
        }
    }
}

// ---- per-driver state the caller keeps
struct BlkNb { token: u16, req: &'static mut BlkReq, data: &'static mut [u8], resp: &'static mut BlkResp, read: bool }
fn still_shared(p: *const u8) -> bool { hal::live_share_list().iter().any(|s| s.1 == p as usize) }

fn step_blk(e: &mut Env, b: &mut VirtIOBlk<H, T>, nb: &mut Vec<BlkNb>) {
    let r = e.orng.below(100);
    // the blocking calls assume that nothing else is in flight on the queue (documented): the caller respects that
    let r = if !nb.is_empty() && r < 44 { 44 + r } else { r };
    let sectors = 1 + e.orng.below(2) as usize;
    let block = e.orng.boundary(40) as usize;
    if r < 18 { let d = buf(512 * sectors); e.owned = vec![d.as_ptr()]; e.owned_err = vec![7, 8]; e.run(0, || { let r = b.read_blocks(block, d); out_res(r, |_| out_ok(vec![fnv(d)])) }); }
    else if r < 30 { let d = buf(512 * sectors); d.fill(0x5a); e.owned = vec![d.as_ptr()]; e.owned_err = vec![7, 8]; e.run(1, || out_unit(b.write_blocks(block, d))); }
    else if r < 36 { e.run(2, || out_unit(b.flush())); }
    else if r < 44 { let id: &'static mut [u8; 20] = Box::leak(Box::new([0u8; 20])); e.owned = vec![id.as_ptr()]; e.run(3, || { let r = b.device_id(id); out_res(r, |n| out_len(n, 20, vec![fnv(&id[..n.min(20)])])) }); }
    else if r < 62 {
        let read = e.orng.chance(1, 2);
        let req: &'static mut BlkReq = Box::leak(Box::new(BlkReq::default()));
        let resp: &'static mut BlkResp = Box::leak(Box::new(BlkResp::default()));
        let data = buf(512 * sectors);
        let (rp, dp, sp) = (req as *mut BlkReq, data as *mut [u8], resp as *mut BlkResp);
        let o = e.run(if read { 4 } else { 5 }, || {
            // SAFETY: the three buffers are leaked, hence valid and untouched until the completion call
            let r = unsafe { if read { b.read_blocks_nb(block, &mut *rp, &mut *dp, &mut *sp) } else { b.write_blocks_nb(block, &mut *rp, &*dp, &mut *sp) } };
            out_res(r, |t| out_ok(vec![t as u128]))
        });
        if let Some(o) = o { if o.class == 0 { nb.push(BlkNb { token: o.dig[0] as u16, req, data, resp, read }); } }
    }
    else if r < 88 {
        if nb.is_empty() { return; }
        // the caller's contract: the buffers submitted for this token. Which token: the one the device names, or any of ours
        let peek = b.peek_used();
        let k = match peek { Some(t) if e.orng.chance(3, 4) => nb.iter().position(|x| x.token == t).unwrap_or(e.orng.below(nb.len() as u64) as usize), _ => e.orng.below(nb.len() as u64) as usize };
        let x = &mut nb[k];
        let (tok, read) = (x.token, x.read);
        let (rp, dp, sp) = (x.req as *mut BlkReq, x.data as *mut [u8], x.resp as *mut BlkResp);
        e.owned = vec![rp as *const u8, dp as *const u8, sp as *const u8];
        // IoError / Unsupported are status answers: the driver has taken the completion, the request is over
        e.owned_err = vec![7, 8];
        e.run(if read { 6 } else { 7 }, || {
            let r = unsafe { if read { b.complete_read_blocks(tok, &*rp, &mut *dp, &mut *sp) } else { b.complete_write_blocks(tok, &*rp, &*dp, &mut *sp) } };
            out_res(r, |_| out_ok(if read { vec![fnv(unsafe { &*dp })] } else { vec![] }))
        });
        // consumed iff the queue has released the buffers
        if !still_shared(sp as *const u8) { nb.remove(k); }
    }
    else if r < 94 { e.run(8, || out_ok(vec![b.peek_used().map_or(0x1_0000, |t| t as u128)])); }
    else { e.run(9, || { b.enable_interrupts(); b.disable_interrupts(); let i = b.ack_interrupt(); out_ok(vec![b.capacity() as u128, b.readonly() as u128, i.bits() as u128, b.virt_queue_size() as u128]) }); }
}

fn step_console(e: &mut Env, c: &mut VirtIOConsole<H, T>) {
    use embedded_io::{BufRead, Read, ReadReady};
    let r = e.orng.below(100);
    if r < 30 { e.run(0, || out_res(c.recv(true), |b| out_ok(vec![b.map_or(256, |x| x as u128)]))); }
    else if r < 40 { e.run(1, || out_res(c.recv(false), |b| out_ok(vec![b.map_or(256, |x| x as u128)]))); }
    else if r < 50 { let ch = e.orng.next() as u8; e.run(2, || out_unit(c.send(ch))); }
    else if r < 58 { let n = 1 + e.orng.below(8) as usize; let d = buf(n); e.owned = vec![d.as_ptr()]; e.run(3, || out_unit(c.send_bytes(d))); }
    else if r < 66 { e.run(4, || out_res(c.size(), |s| out_ok(match s { Some(s) => vec![1, s.columns as u128, s.rows as u128], None => vec![0] }))); }
    else if r < 74 { e.run(5, || out_res(c.ack_interrupt(), |b| out_ok(vec![b as u128]))); }
    else if r < 78 { let ch = e.orng.next() as u8; e.run(6, || out_unit(c.emergency_write(ch))); }
    else if r < 88 { let n = *e.orng.pick(&[1usize, 2, 16, 4096, 5000]); let d = buf(n); e.run(7, || out_res(c.read(d), |k| out_len(k, n.min(4096), vec![fnv(&d[..k.min(n)])]))); }
    else if r < 95 { e.run(8, || { let r = c.fill_buf().map(|s| (s.len(), fnv(s))); out_res(r, |(l, h)| { let k = l.min(3); c.consume(k); out_len(l, 4096, vec![h]) }) }); }
    else { e.run(9, || out_res(c.read_ready(), |b| out_ok(vec![b as u128]))); }
}

fn dma_capacity(p: *const u8, len: usize) -> usize {
    let _ = len;
    hal::LEDGER.with(|l| l.borrow().regions.iter().find(|r| r.live && r.vaddr <= p as usize && (p as usize) < r.vaddr + r.pages.max(1) * hal::PAGE)
        .map(|r| r.vaddr + r.pages * hal::PAGE - p as usize).unwrap_or(0))
}
fn step_gpu(e: &mut Env, g: &mut VirtIOGpu<H, T>) {
    let r = e.orng.below(100);
    if r < 15 { e.run(0, || out_res(g.resolution(), |(w, h)| out_ok(vec![w as u128, h as u128]))); }
    else if r < 27 { let sc = e.orng.below(3) as u32; e.run(1, || out_res(g.get_edid(sc), |ed| { let t = ed.standard_timings(); let p = ed.preferred_resolution().ok(); out_len(t.len(), 8, vec![p.map_or(0, |x| ((x.0 as u128) << 32) | x.1 as u128)]) })); }
    else if r < 33 { e.run(2, || out_res(g.edid_preferred_resolution(), |(w, h)| out_ok(vec![w as u128, h as u128]))); }
    else if r < 39 { e.run(3, || out_res(g.edid_supported_resolutions(), |v| out_len(v.len(), 8, v.iter().map(|x| ((x.0 as u128) << 32) | x.1 as u128).collect()))); }
    else if r < 54 { e.run(4, || { let r = g.setup_framebuffer().map(|s| (s.as_ptr(), s.len())); out_res(r, |(p, l)| out_len(l, dma_capacity(p, l), vec![])) }); }
    else if r < 66 { let (w, h) = *e.orng.pick(&[(1u32, 1u32), (64, 48), (33, 31), (0, 5), (65536, 65536), (1024, 768)]);
        e.run(5, || { let r = g.change_resolution(w, h).map(|s| (s.as_ptr(), s.len())); out_res(r, |(p, l)| out_len(l, dma_capacity(p, l), vec![])) }); }
    else if r < 76 { e.run(6, || out_unit(g.flush())); }
    else if r < 86 { let img = buf(if e.orng.chance(7, 8) { 64 * 64 * 4 } else { 100 }); e.run(7, || out_unit(g.setup_cursor(img, 1, 2, 3, 4))); }
    else if r < 94 { e.run(8, || out_unit(g.move_cursor(5, 6))); }
    else { e.run(9, || out_ok(vec![g.ack_interrupt().bits() as u128])); }
}

fn step_input(e: &mut Env, i: &mut VirtIOInput<H, T>) {
    let r = e.orng.below(100);
    if r < 50 { e.run(0, || out_ok(match i.pop_pending_event() { Some(ev) => vec![1, ev.event_type as u128, ev.code as u128, ev.value as u128], None => vec![0] })); }
    else if r < 60 {
        let n = *e.orng.pick(&[0usize, 1, 8, 20, 128, 200]); let o = buf(n); let sub = e.orng.next() as u8;
        let sel = *e.orng.pick(&[InputConfigSelect::IdName, InputConfigSelect::IdSerial, InputConfigSelect::IdDevids, InputConfigSelect::PropBits, InputConfigSelect::EvBits, InputConfigSelect::AbsInfo]);
        // the value returned is documented as the size the DEVICE reports (not the bytes copied): recorded, not bounded
        let got = e.run(1, || out_res(i.query_config_select(sel, sub, o), |s| out_ok(vec![s as u128, fnv(o)])));
        if let Some(g) = got { if g.class == 0 && g.dig[0] as usize > n { e.c.tr.note("input_query_reports_size_beyond_out"); } }
    }
    else if r < 68 { e.run(2, || out_res(i.name(), |s| out_len(s.len(), 128, vec![fnv(s.as_bytes())]))); }
    else if r < 74 { e.run(3, || out_res(i.serial_number(), |s| out_len(s.len(), 128, vec![fnv(s.as_bytes())]))); }
    else if r < 80 { e.run(4, || out_res(i.ids(), |d| out_ok(vec![d.bustype as u128, d.vendor as u128, d.product as u128, d.version as u128]))); }
    else if r < 86 { e.run(5, || out_res(i.prop_bits(), |b| out_len(b.len(), 128, vec![fnv(&b)]))); }
    else if r < 92 { let t = e.orng.next() as u8; e.run(6, || out_res(i.ev_bits(t), |b| out_len(b.len(), 128, vec![fnv(&b)]))); }
    else if r < 97 { let a = e.orng.next() as u8; e.run(7, || out_res(i.abs_info(a), |x| out_ok(vec![x.min as u128, x.max as u128, x.fuzz as u128, x.flat as u128, x.res as u128]))); }
    else { e.run(8, || out_ok(vec![i.ack_interrupt().bits() as u128])); }
}

struct RawNb { token: u16, data: &'static mut [u8] }
fn step_netraw(e: &mut Env, n: &mut VirtIONetRaw<H, T, NETQ>, rx: &mut Vec<RawNb>, tx: &mut Vec<RawNb>) {
    let r = e.orng.below(100);
    if r < 16 {
        let d = buf(*e.orng.pick(&[1526usize, 2048, 1000])); let dp = d as *mut [u8];
        let o = e.run(0, || out_res(unsafe { n.receive_begin(&mut *dp) }, |t| out_ok(vec![t as u128])));
        if let Some(o) = o { if o.class == 0 { rx.push(RawNb { token: o.dig[0] as u16, data: d }); } }
    }
    else if r < 24 { e.run(1, || out_ok(vec![n.poll_receive().map_or(0x1_0000, |t| t as u128)])); }
    else if r < 46 {
        if rx.is_empty() { return; }
        let k = match n.poll_receive() { Some(t) if e.orng.chance(3, 4) => rx.iter().position(|x| x.token == t).unwrap_or(e.orng.below(rx.len() as u64) as usize), _ => e.orng.below(rx.len() as u64) as usize };
        let (tok, dp) = (rx[k].token, &mut *rx[k].data as *mut [u8]);
        let cap = rx[k].data.len();
        // (header length, packet length) are the device's used length split in two: numbers passed through (C20 wants
        // device-reported values reported as they are), no slice: recorded, not bounded
        e.owned = vec![dp as *const u8];
        let got = e.run(2, || out_res(unsafe { n.receive_complete(tok, &mut *dp) }, |(h, p)| { let l = h.saturating_add(p); out_ok(vec![h as u128, p as u128, fnv(unsafe { &(&*dp)[..l.min(cap)] })]) }));
        if let Some(g) = got { if g.class == 0 && (g.dig[0] + g.dig[1]) as usize > cap { e.c.tr.note("passes_device_length_through_d4"); } }
        if !still_shared(dp as *const u8) { rx.remove(k); }
    }
    else if r < 58 {
        let d = buf(*e.orng.pick(&[12usize, 13, 60, 1514, 4])); let dp = d as *mut [u8];
        let _ = n.fill_buffer_header(d);
        let o = e.run(3, || out_res(unsafe { n.transmit_begin(&*dp) }, |t| out_ok(vec![t as u128])));
        if let Some(o) = o { if o.class == 0 { tx.push(RawNb { token: o.dig[0] as u16, data: d }); } }
    }
    else if r < 64 { e.run(4, || out_ok(vec![n.poll_transmit().map_or(0x1_0000, |t| t as u128)])); }
    else if r < 78 {
        if tx.is_empty() { return; }
        let k = match n.poll_transmit() { Some(t) if e.orng.chance(3, 4) => tx.iter().position(|x| x.token == t).unwrap_or(e.orng.below(tx.len() as u64) as usize), _ => e.orng.below(tx.len() as u64) as usize };
        let (tok, dp) = (tx[k].token, &mut *tx[k].data as *mut [u8]);
        // the value is the used length of a chain without device-writable part: it describes no caller buffer
        e.owned = vec![dp as *const u8];
        let got = e.run(5, || out_res(unsafe { n.transmit_complete(tok, &*dp) }, |l| out_ok(vec![l as u128])));
        if let Some(g) = got { if g.class == 0 && g.dig[0] as usize > tx[k].data.len() { e.c.tr.note("net_transmit_complete_reports_len_beyond_buffer"); } }
        if !still_shared(dp as *const u8) { tx.remove(k); }
    }
    else if r < 86 { if !tx.is_empty() { return; } let d = buf(*e.orng.pick(&[0usize, 1, 60, 1514])); e.owned = vec![d.as_ptr()]; e.run(6, || out_unit(n.send(d))); }
    else if r < 95 {
        if !rx.is_empty() { return; }
        let d = buf(2048); e.owned = vec![d.as_ptr()];
        let got = e.run(7, || out_res(n.receive_wait(d), |(h, p)| { let l = h.saturating_add(p); out_ok(vec![h as u128, p as u128, fnv(&d[..l.min(2048)])]) }));
        if let Some(g) = got { if g.class == 0 && (g.dig[0] + g.dig[1]) as usize > 2048 { e.c.tr.note("passes_device_length_through_d4"); } }
    }
    else { e.run(8, || { n.enable_interrupts(); n.disable_interrupts(); out_ok(vec![n.can_send() as u128, fnv(&n.mac_address()), n.ack_interrupt().bits() as u128]) }); }
}

fn step_net(e: &mut Env, n: &mut VirtIONet<H, T, NETQ>, got: &mut Vec<RxBuffer>, hdr: usize) {
    let r = e.orng.below(100);
    if r < 45 {
        let mut keep: Option<RxBuffer> = None;
        let mut through = false;
        e.run(0, || out_res(n.receive(), |b| {
            // packet_len() is the device's number (passed through). What the caller can ACCESS is packet(): either a
            // slice that lies inside the buffer, or a clean panic of its bounds check
            let (base, cap, pl) = (b.as_bytes().as_ptr() as usize, b.as_bytes().len(), b.packet_len());
            through = hdr.saturating_add(pl) > cap;
            let acc = catch_unwind(AssertUnwindSafe(|| { let p = b.packet(); (p.as_ptr() as usize, p.len()) }));
            let o = match acc {
                Ok((ptr, len)) => {
                    let end = ptr.wrapping_sub(base).saturating_add(len);
                    let inside = ptr >= base && end <= cap;
                    // never read through a slice that is not inside the buffer
                    let h = if inside { fnv(&b.as_bytes()[ptr - base..end]) } else { 0 };
                    out_len(if ptr >= base { end } else { usize::MAX }, cap, vec![pl as u128, 0, h])
                }
                Err(_) => { let pc = panic_class(); out_ok(vec![pl as u128, 1, pc]) }
            };
            keep = Some(b); o
        }));
        if through { e.c.tr.note("passes_device_length_through_d5"); }
        if let Some(b) = keep { got.push(b); }
    }
    else if r < 70 { if got.is_empty() { return; } let k = e.orng.below(got.len() as u64) as usize; let b = got.remove(k); e.run(1, || out_unit(n.recycle_rx_buffer(b))); }
    else if r < 85 {
        let l = *e.orng.pick(&[0usize, 1, 60, 1514]); let t: TxBuffer = n.new_tx_buffer(l);
        // `send` owns the packet. When the device answers with another id, `add_notify_wait_pop` returns WrongToken with
        // the chain still queued (documented: "assumes that the device isn't processing any other buffers") and the
        // packet is freed while the device may still read it: recorded as a note, not counted by the monitor
        let before = H_N.load(Relaxed) as u128;
        let mut wrong = false;
        e.excused += 1 << 40;
        let o = e.run(2, || { let r = n.send(t); wrong = matches!(r, Err(Error::WrongToken)); out_unit(r) });
        e.excused -= 1 << 40;
        let hits = (H_N.load(Relaxed) as u128).saturating_sub(before);
        if hits > 0 { if wrong || o.is_none() { e.excused += hits; e.c.tr.note("net_send_frees_packet_still_shared_after_wrongtoken"); } else { e.c.tr.note("net_send_frees_packet_still_shared_UNEXPLAINED"); } }
    }
    else { e.run(3, || { n.enable_interrupts(); n.disable_interrupts(); out_ok(vec![n.can_send() as u128, n.can_recv() as u128, fnv(&n.mac_address()), n.ack_interrupt().bits() as u128]) }); }
}

fn step_rng(e: &mut Env, g: &mut VirtIORng<H, T>) {
    if e.orng.chance(5, 6) { let n = *e.orng.pick(&[1usize, 16, 64, 4096]); let d = buf(n); e.owned = vec![d.as_ptr()];
        // the number of bytes the device says it wrote, passed through (C20: "equal what the device reported")
        let got = e.run(0, || out_res(g.request_entropy(d), |k| out_ok(vec![k as u128, fnv(&d[..k.min(n)])])));
        if let Some(g) = got { if g.class == 0 && g.dig[0] as usize > n { e.c.tr.note("passes_device_length_through_d6"); } }
    }
    else { e.run(1, || { g.enable_interrupts(); g.disable_interrupts(); out_ok(vec![g.ack_interrupt().bits() as u128]) }); }
}
fn step_rtc(e: &mut Env, t: &mut VirtIORtc<H, T>) {
    let id = e.orng.next() as u16;
    match e.orng.below(4) {
        0 => { e.run(0, || out_res(t.num_clocks(), |n| out_ok(vec![n as u128]))); }
        1 => { e.run(1, || out_res(t.clock_cap(id), |c| out_ok(vec![c.kind as u128, c.alarm_capability as u128, c.leap_second_smearing.map_or(0, |s| 1 + s as u128)]))); }
        2 => { e.run(2, || out_res(t.read(id), |v| out_ok(vec![v as u128]))); }
        _ => { e.run(3, || out_ok(vec![t.invalid_feature_bits().map_or(0, |v| v.get() as u128)])); }
    }
}
fn step_p9(e: &mut Env, p: &mut VirtIO9p<H, T>) {
    if e.orng.chance(7, 8) {
        let rq = buf(*e.orng.pick(&[0usize, 1, 7, 16])); let n = *e.orng.pick(&[6usize, 7, 8, 32, 64]); let rs = buf(n);
        e.owned = vec![rq.as_ptr(), rs.as_ptr()];
        // the size the device reported (header field == used length), passed through
        let got = e.run(0, || out_res(p.request(rq, rs), |l| out_ok(vec![l as u128, fnv(&rs[..(l as usize).min(n)])])));
        if let Some(g) = got { if g.class == 0 && g.dig[0] as usize > n { e.c.tr.note("passes_device_length_through_d10"); } }
    } else { e.run(1, || out_ok(vec![fnv(p.mount_tag().as_bytes())])); }
}

const PEERS: [(u64, u32); 3] = [(2, 1), (2, 5), (4, 1)];
fn ev_code(t: &VsockEventType) -> Vec<u128> {
    match t { VsockEventType::ConnectionRequest => vec![1], VsockEventType::Connected => vec![2], VsockEventType::Disconnected { reason } => vec![3, *reason as u128],
        VsockEventType::Received { length } => vec![4, *length as u128], VsockEventType::CreditRequest => vec![5], VsockEventType::CreditUpdate => vec![6] }
}
fn step_socket(e: &mut Env, s: &mut VirtIOSocket<H, T, SOCK_RX>, infos: &mut Vec<ConnectionInfo>) {
    let r = e.orng.below(100);
    let (pc, pp) = *e.orng.pick(&PEERS); let lp = e.orng.below(4) as u32;
    if r < 12 || infos.is_empty() {
        let mut ci = ConnectionInfo::new(VsockAddr { cid: pc, port: pp }, lp); ci.buf_alloc = 1024;
        e.run(0, || out_unit(s.connect(&ci)));
        with_adv(|a| { if !a.conns.contains(&(pc, pp, lp)) { a.conns.push((pc, pp, lp)); } });
        infos.push(ci);
        return;
    }
    let k = e.orng.below(infos.len() as u64) as usize;
    if r < 50 {
        e.run(4, || {
            let mut seen: (usize, usize) = (0, 0);
            let r = s.poll(|ev, body| { seen = (body.len(), match ev.event_type { VsockEventType::Received { length } => length, _ => 0 }); Ok(Some(ev)) });
            out_res(r, |ev| match ev {
                // the body handed to the handler lies inside the RX buffer behind the header, and is as long as announced
                Some(ev) => { let mut d = ev_code(&ev.event_type); d.extend([ev.source.cid as u128, ev.source.port as u128, ev.destination.port as u128]);
                    out_len(seen.0.max(seen.1), SOCK_RX - VSOCK_HDR, d) }
                None => out_ok(vec![0]),
            })
        });
    }
    else if r < 58 { e.run(1, || out_unit(s.accept(&infos[k]))); }
    else if r < 76 { let d = buf(*e.orng.pick(&[1usize, 16, 64, 600])); let ci = &mut infos[k]; e.owned = vec![d.as_ptr()]; e.run(2, || out_unit(s.send(d, ci))); }
    else if r < 84 { e.run(3, || out_unit(s.credit_update(&infos[k]))); }
    else if r < 90 { e.run(5, || out_unit(s.shutdown(&infos[k]))); }
    else if r < 96 { e.run(6, || out_unit(s.force_close(&infos[k]))); }
    else { e.run(7, || out_ok(vec![s.guest_cid() as u128])); }
}
fn step_connmgr(e: &mut Env, m: &mut VsockConnectionManager<H, T, SOCK_RX>, cap: usize) {
    let r = e.orng.below(100);
    let (pc, pp) = *e.orng.pick(&PEERS); let lp = e.orng.below(4) as u32;
    let peer = VsockAddr { cid: pc, port: pp };
    if r < 6 { e.run(0, || { m.listen(lp); out_ok(vec![m.is_local_port_used(lp) as u128]) }); with_adv(|a| { if !a.conns.contains(&(pc, pp, lp)) { a.conns.push((pc, pp, lp)); } }); }
    else if r < 16 { e.run(1, || out_unit(m.connect(peer, lp))); with_adv(|a| { if !a.conns.contains(&(pc, pp, lp)) { a.conns.push((pc, pp, lp)); } }); }
    else if r < 28 { let d = buf(*e.orng.pick(&[1usize, 16, 64, 600])); e.owned = vec![d.as_ptr()]; e.run(2, || out_unit(m.send(peer, lp, d))); }
    else if r < 58 {
        e.run(3, || out_res(m.poll(), |ev| match ev {
            Some(ev) => { let len = match ev.event_type { VsockEventType::Received { length } => length, _ => 0 };
                let mut d = ev_code(&ev.event_type); d.extend([ev.source.cid as u128, ev.source.port as u128, ev.destination.port as u128]);
                out_len(len, SOCK_RX - VSOCK_HDR, d) }
            None => out_ok(vec![0]),
        }));
    }
    else if r < 72 { let n = *e.orng.pick(&[0usize, 1, 16, 100, 2000]); let d = buf(n); e.run(4, || out_res(m.recv(peer, lp, d), |k| out_len(k, n, vec![fnv(&d[..k.min(n)])]))); }
    else if r < 78 { e.run(5, || out_res(m.recv_buffer_available_bytes(peer, lp), |k| out_len(k, cap, vec![]))); }
    else if r < 83 { e.run(6, || out_unit(m.update_credit(peer, lp))); }
    else if r < 89 {
        e.run(7, || out_res(m.wait_for_event(), |ev| { let len = match ev.event_type { VsockEventType::Received { length } => length, _ => 0 };
            let mut d = ev_code(&ev.event_type); d.push(ev.source.port as u128); out_len(len, SOCK_RX - VSOCK_HDR, d) }));
    }
    else if r < 93 { e.run(8, || out_unit(m.shutdown(peer, lp))); }
    else if r < 97 { e.run(9, || out_unit(m.force_close(peer, lp))); }
    else { e.run(10, || { m.unlisten(lp); out_ok(vec![m.is_connection_established(peer, lp).unwrap_or(false) as u128, m.guest_cid() as u128]) }); }
}

struct SndState { params: BTreeMap<u32, u32>, tokens: Vec<u16> }
fn step_sound(e: &mut Env, s: &mut VirtIOSound<H, T>, st: &mut SndState) {
    let r = e.orng.below(100);
    let streams = s.streams();
    let sid = if streams == 0 { 0 } else { e.orng.below(streams.min(4) as u64) as u32 };
    if r < 8 { let j = e.orng.below(s.jacks().min(300) as u64 + 1) as u32; e.run(0, || out_unit(s.jack_remap(j, 1, 2))); }
    else if r < 24 {
        if streams == 0 { return; }
        let (bb, pb) = *e.orng.pick(&[(64u32, 32u32), (32, 32), (96, 32), (64, 0), (10, 20), (4096, 4096)]);
        let o = e.run(1, || out_unit(s.pcm_set_params(sid, bb, pb, PcmFeatures::empty(), 2, PcmFormat::U8, PcmRate::Rate8000)));
        if let Some(o) = o { if o.class == 0 { st.params.insert(sid, pb); } }
    }
    else if r < 30 { e.run(2, || out_unit(s.pcm_prepare(sid))); }
    else if r < 35 { e.run(3, || out_unit(s.pcm_start(sid))); }
    else if r < 39 { e.run(4, || out_unit(s.pcm_stop(sid))); }
    else if r < 43 { e.run(5, || out_unit(s.pcm_release(sid))); }
    else if r < 53 { if streams == 0 || !st.tokens.is_empty() { return; } let n = *e.orng.pick(&[1usize, 32, 64, 100, 700]); let d = buf(n); e.owned = vec![d.as_ptr()]; e.run(6, || out_unit(s.pcm_xfer(sid, d))); }
    else if r < 66 {
        let Some(pb) = st.params.get(&sid).copied() else { return };
        let d = buf(pb as usize);
        let o = e.run(7, || out_res(s.pcm_xfer_nb(sid, d), |t| out_ok(vec![t as u128])));
        if let Some(o) = o { if o.class == 0 { st.tokens.push(o.dig[0] as u16); } }
    }
    else if r < 80 {
        if st.tokens.is_empty() { return; }
        let k = e.orng.below(st.tokens.len() as u64) as usize; let t = st.tokens[k];
        let o = e.run(8, || out_unit(s.pcm_xfer_ok(t)));
        // NotReady / WrongToken leave the transfer outstanding; anything else has consumed it
        match o { Some(o) if o.class == 1 && (o.code == 2 || o.code == 3) => {}, Some(_) => { st.tokens.remove(k); } None => { st.tokens.remove(k); } }
    }
    else if r < 85 { e.run(9, || out_res(s.output_streams(), |v| out_len(v.len(), streams as usize, v.iter().map(|x| *x as u128).collect()))); }
    else if r < 88 { e.run(10, || out_res(s.input_streams(), |v| out_len(v.len(), streams as usize, v.iter().map(|x| *x as u128).collect()))); }
    else if r < 93 { let q = if e.orng.chance(1, 2) { streams.saturating_sub(1) } else { e.orng.below(streams as u64 + 2) as u32 }; e.run(11, || {
        let a = s.rates_supported(q).map(|x| x.bits() as u128); let b = s.formats_supported(q).map(|x| x.bits() as u128);
        let c = s.channel_range_supported(q).map(|x| ((*x.start() as u128) << 8) | *x.end() as u128); let d = s.features_supported(q).map(|x| x.bits() as u128);
        // an answer for stream q means q + 1 stream infos were taken from the 4096-byte response buffer (4 + 32 each)
        let known = if a.is_ok() { q as usize + 1 } else { 0 };
        out_len(known, (4096 - 4) / 32, [a, b, c, d].iter().map(|r| match r { Ok(v) => *v, Err(e) => (1u128 << 100) + err_code(e) }).collect()) }); }
    else if r < 98 { e.run(12, || out_res(s.latest_notification(), |n| out_ok(match n { Some(n) => vec![1, n.notification_type() as u128, n.data() as u128], None => vec![0] }))); }
    else { e.run(13, || { s.enable_interrupts(true); out_ok(vec![s.jacks() as u128, s.streams() as u128, s.chmaps() as u128, s.ack_interrupt().bits() as u128]) }); }
}

// ------------------------------------------------------------------------------------------------
/// the twelve targets: the eleven drivers and the connection manager on top of the socket driver
#[derive(Clone, Copy, PartialEq, Eq, Debug)]
pub struct Target { d: Drv, mgr: bool }
impl Target {
    fn code(self) -> u128 { if self.mgr { 11 } else { self.d.code() } }
    fn name(self) -> &'static str { if self.mgr { "connmgr" } else { self.d.name() } }
}
fn targets() -> Vec<Target> { let mut v: Vec<Target> = drivers9::ALL.iter().map(|d| Target { d: *d, mgr: false }).collect(); v.push(Target { d: Drv::Socket, mgr: true }); v }

#[derive(Clone)]
struct Case { t: Target, seed: u64, features: u64, legacy: bool, config: Vec<u8>, nops: usize, mgr_cap: u32, id_attack_from: u64 }

fn device_bits(d: Drv) -> &'static [u32] {
    match d { Drv::Blk => &[5, 9], Drv::Console => &[0, 2], Drv::Gpu => &[1], Drv::NetRaw | Drv::NetBuf => &[5, 16], _ => &[] }
}

/// one complete life of a driver against the adversary; returns what the caller saw, operation by operation
fn life(c: &mut Ctx, case: &Case, scribble: bool) -> Vec<u128> {
    hal::reset();
    watch_reset();
    let d = case.t.d;
    let mut ts = d.tstate(case.features, case.legacy, case.config.clone());
    ts.isr = 1;
    let (t, rc) = ModelTransport::new(ts);
    let mut adv = Adv::new(rc.clone(), d, case.seed, scribble);
    if case.config.len() >= 8 && d == Drv::Socket { adv.guest_cid = u64::from_le_bytes(case.config[0..8].try_into().unwrap()); }
    ADV.with(|a| *a.borrow_mut() = Some(adv));
    virtio_drivers::verif::set_observer(Some(observer));
    let mut e = Env { c: &mut *c, dcode: case.t.code(), orng: Rng::new(case.seed ^ 0x0935), dig: vec![], blocked: false, watch: false, nops: 0, excused: 0, id_attack_from: case.id_attack_from, owned: vec![], owned_err: vec![], handed_back_shared: 0 };

    let mut built: Option<Built<H>> = None;
    e.run(OP_NEW, || out_res(drivers9::construct::<H>(d, t, drivers9::NET_BUF_OK), |b| { built = Some(b); out_ok(vec![]) }));
    if let Some(drv) = built {
        e.watch = true;
        WATCH_ON.store(true, Relaxed);
        let hdr = if case.features & drivers9::F_VERSION_1 != 0 { 12 } else { 10 };
        let n = case.nops;
        // everything below keeps the driver value in `drv` / `mgr` so that the teardown is an operation of its own
        match drv {
            Built::Blk(mut b) => { let mut nb = vec![]; for _ in 0..n { step_blk(&mut e, &mut b, &mut nb); } std::mem::forget(nb); teardown(&mut e, b); }
            Built::Console(mut x) => { for _ in 0..n { step_console(&mut e, &mut x); } teardown(&mut e, x); }
            Built::Gpu(mut x) => { for _ in 0..n { step_gpu(&mut e, &mut x); } teardown(&mut e, x); }
            Built::Input(mut x) => { for _ in 0..n { step_input(&mut e, &mut x); } teardown(&mut e, x); }
            Built::NetRaw(mut x) => { let (mut rx, mut tx) = (vec![], vec![]); for _ in 0..n { step_netraw(&mut e, &mut x, &mut rx, &mut tx); } teardown(&mut e, x); }
            Built::NetBuf(mut x) => {
                let mut got: Vec<RxBuffer> = vec![];
                for _ in 0..n { step_net(&mut e, &mut x, &mut got, hdr); }
                teardown(&mut e, x);
                // buffers in the caller's hands outlive the driver
                drop(got);
            }
            Built::Rng(mut x) => { for _ in 0..n { step_rng(&mut e, &mut x); } teardown(&mut e, x); }
            Built::Rtc(mut x) => { for _ in 0..n { step_rtc(&mut e, &mut x); } teardown(&mut e, x); }
            Built::Socket(mut x) => {
                if case.t.mgr {
                    let cap = case.mgr_cap;
                    let mut m = VsockConnectionManager::new_with_capacity(x, cap);
                    for _ in 0..n { step_connmgr(&mut e, &mut m, cap as usize); }
                    teardown(&mut e, m);
                } else { let mut infos = vec![]; for _ in 0..n { step_socket(&mut e, &mut x, &mut infos); } teardown(&mut e, x); }
            }
            Built::Sound(mut x) => { let mut st = SndState { params: BTreeMap::new(), tokens: vec![] }; for _ in 0..n { step_sound(&mut e, &mut x, &mut st); } teardown(&mut e, x); }
            Built::P9(mut x) => { for _ in 0..n { step_p9(&mut e, &mut x); } teardown(&mut e, x); }
        }
    }
    WATCH_ON.store(false, Relaxed);
    virtio_drivers::verif::set_observer(None);
    let adv = ADV.with(|a| a.borrow_mut().take());
    let dig = std::mem::take(&mut e.dig);
    let nops = e.nops;
    drop(e);
    if let Some(a) = adv { for (k, v) in &a.notes { c.tr.note_n(k, *v); } }
    c.tr.note_n("driver_operations", nops);
    ledger_line(c);
    drop(rc);
    dig
}

/// dropping the driver value is the last operation: the device is quiet from here on, and frees of memory still
/// shared belong to the teardown property (C09), not to this one
fn teardown<D>(e: &mut Env, drv: D) {
    WATCH_ON.store(false, Relaxed);
    e.watch = false;
    with_adv(|a| a.quiet = true);
    let was_blocked = e.blocked;
    e.blocked = false;
    e.run(OP_DROP, move || { drop(drv); out_ok(vec![]) });
    e.blocked = was_blocked;
}

fn make_case(ctx: &mut Ctx, t: Target, nops: usize) -> Case {
    let rng = &mut ctx.rng;
    let mut features = *rng.pick(&[0u64, drivers9::F_INDIRECT, drivers9::F_EVENT_IDX, drivers9::F_INDIRECT | drivers9::F_EVENT_IDX | drivers9::F_ACCESS_PLATFORM,
        drivers9::F_VERSION_1, drivers9::F_VERSION_1 | drivers9::F_INDIRECT, drivers9::F_VERSION_1 | drivers9::F_EVENT_IDX]);
    for b in device_bits(t.d) { if rng.chance(2, 3) { features |= 1u64 << b; } }
    let legacy = rng.chance(1, 4);
    let plausible = t.d.config(rng);
    let config = if rng.chance(1, 4) { hostile_config(t.d, rng, &plausible) } else { plausible };
    let id_attack_from = if rng.chance(1, 3) { u64::MAX } else { nops as u64 / 3 + rng.below(nops as u64 * 2 / 3 + 1) };
    Case { t, seed: rng.next(), features, legacy, config, nops, mgr_cap: *rng.pick(&[64u32, 1024, 1]), id_attack_from }
}

fn case_pair(c: &mut Ctx, case: &Case) {
    // the same history twice, on the same device answers: plain, then with the device scribbling over the
    // driver-owned areas after each driver write. What the caller sees must not differ.
    let a = life(c, case, false);
    let b = life(c, case, true);
    let first = a.iter().zip(b.iter()).position(|(x, y)| x != y).unwrap_or(a.len().min(b.len()));
    let equal = a == b;
    if !equal { c.tr.comment(&format!("DIFFERENTIAL: plain and scribbled run differ at item {} (lengths {} / {})", first, a.len(), b.len())); }
    c.tr.line(K_DIFF, &[case.t.code(), equal as u128, a.len() as u128, first as u128], &[1]);
}

/// configuration-space counts that the driver turns into allocations: VirtIOSound::new allocates one PcmParameters
/// per announced stream. The child may only grow by 192 MiB, so that an allocation without bound fails fast.
fn sound_stream_counts(ctx: &mut Ctx) {
    for (i, streams) in [0xffff_ffffu32, 0x0400_0000, 65_536].iter().enumerate() {
        let mut case = make_case(ctx, Target { d: Drv::Sound, mgr: false }, 6);
        let mut c = vec![0u8; 12];
        c[0..4].copy_from_slice(&2u32.to_le_bytes()); c[4..8].copy_from_slice(&streams.to_le_bytes()); c[8..12].copy_from_slice(&1u32.to_le_bytes());
        case.config = c;
        case.id_attack_from = u64::MAX;
        isolated(ctx, &format!("c07drv-sound-config-streams-{}", i), 9, |c| { cap_address_space(192 << 20); let _ = life(c, &case, false); });
    }
}

pub fn run(ctx: &mut Ctx) {
    sound_stream_counts(ctx);
    let rounds = ctx.budget(40, 5);
    for r in 0..rounds {
        for t in targets() {
            let nops = if r % 3 == 0 { 25 } else { 60 };
            let case = make_case(ctx, t, nops);
            isolated(ctx, &format!("c07drv-{}-h{}", t.name(), r), t.code(), |c| case_pair(c, &case));
        }
    }
}
