//! Construction helpers for all eleven device drivers over `ModelTransport`, generic in the `Hal`:
//! which device type / how many queues / a plausible config space for each, and one `construct`
//! entry point that returns the driver as a value of one enum (so that it can be kept, used and
//! dropped uniformly). Shared by C09 (and meant to be merged with the helper of C08).
use crate::rng::Rng;
use crate::tport::{ModelTransport, TState};
use virtio_drivers::device::blk::VirtIOBlk;
use virtio_drivers::device::console::VirtIOConsole;
use virtio_drivers::device::gpu::VirtIOGpu;
use virtio_drivers::device::input::VirtIOInput;
use virtio_drivers::device::net::{VirtIONet, VirtIONetRaw};
use virtio_drivers::device::rng::VirtIORng;
use virtio_drivers::device::rtc::VirtIORtc;
use virtio_drivers::device::socket::VirtIOSocket;
use virtio_drivers::device::sound::VirtIOSound;
use virtio_drivers::device::virtio_9p::VirtIO9p;
use virtio_drivers::transport::DeviceType;
use virtio_drivers::{Error, Hal};

#[derive(Clone, Copy, PartialEq, Eq, Debug)]
pub enum Drv { Blk, Console, Gpu, Input, NetRaw, NetBuf, Rng, Rtc, Socket, Sound, P9 }

pub const ALL: [Drv; 11] = [Drv::Blk, Drv::Console, Drv::Gpu, Drv::Input, Drv::NetRaw, Drv::NetBuf, Drv::Rng, Drv::Rtc,
    Drv::Socket, Drv::Sound, Drv::P9];

/// queue size used for the two network drivers (a const generic of the driver types)
pub const NETQ: usize = 4;
/// VirtIONet receive buffer length that passes `check_rx_buf_len` / one that does not
pub const NET_BUF_OK: usize = 2048;
pub const NET_BUF_SHORT: usize = 1024;

pub const F_INDIRECT: u64 = 1 << 28;
pub const F_EVENT_IDX: u64 = 1 << 29;
pub const F_VERSION_1: u64 = 1 << 32;
pub const F_ACCESS_PLATFORM: u64 = 1 << 33;

impl Drv {
    /// the numbering of Model/Teardown.v (D_BLK ..)
    pub fn code(self) -> u128 { ALL.iter().position(|d| *d == self).unwrap() as u128 }
    pub fn name(self) -> &'static str {
        match self { Drv::Blk => "blk", Drv::Console => "console", Drv::Gpu => "gpu", Drv::Input => "input", Drv::NetRaw => "netraw",
            Drv::NetBuf => "netbuf", Drv::Rng => "rng", Drv::Rtc => "rtc", Drv::Socket => "socket", Drv::Sound => "sound", Drv::P9 => "9p" }
    }
    pub fn device_type(self) -> DeviceType {
        match self { Drv::Blk => DeviceType::Block, Drv::Console => DeviceType::Console, Drv::Gpu => DeviceType::GPU,
            Drv::Input => DeviceType::Input, Drv::NetRaw | Drv::NetBuf => DeviceType::Network, Drv::Rng => DeviceType::EntropySource,
            Drv::Rtc => DeviceType::Timer, Drv::Socket => DeviceType::Socket, Drv::Sound => DeviceType::Sound, Drv::P9 => DeviceType::_9P }
    }
    pub fn nqueues(self) -> usize {
        match self { Drv::Blk | Drv::Rng | Drv::Rtc | Drv::P9 => 1, Drv::Console | Drv::Gpu | Drv::Input | Drv::NetRaw | Drv::NetBuf => 2,
            Drv::Socket => 3, Drv::Sound => 4 }
    }
    /// size of every queue of the driver
    pub fn queue_size(self) -> usize {
        match self { Drv::Blk | Drv::P9 => 16, Drv::Console | Drv::Gpu => 2, Drv::Input | Drv::Sound => 32, Drv::NetRaw | Drv::NetBuf => NETQ,
            Drv::Rng | Drv::Rtc | Drv::Socket => 8 }
    }
    /// DMA allocations of a complete construction
    pub fn nallocs(self, legacy: bool) -> usize { self.nqueues() * if legacy { 1 } else { 2 } }
    /// a config space the constructor is happy with (see each driver's Config struct)
    pub fn config(self, rng: &mut Rng) -> Vec<u8> {
        match self {
            // capacity_low, capacity_high, then the rest of BlkConfig
            Drv::Blk => { let mut c = vec![0u8; 60]; c[0..4].copy_from_slice(&(1024u32 + rng.below(4096) as u32).to_le_bytes()); c }
            // cols, rows, max_nr_ports, emerg_wr
            Drv::Console => { let mut c = vec![0u8; 12]; c[0] = 80; c[2] = 24; c[4] = 1; c }
            // events_read, events_clear, num_scanouts, num_capsets
            Drv::Gpu => { let mut c = vec![0u8; 16]; c[8] = 1; c }
            // select, subsel, size, reserved[5], data[128]
            Drv::Input => vec![0u8; 136],
            // mac[6], status, max_virtqueue_pairs, mtu
            Drv::NetRaw | Drv::NetBuf => { let mut c = vec![0u8; 12]; c[0..6].copy_from_slice(&[0x52, 0x54, 0, 0x12, 0x34, rng.next() as u8]); c[6] = 1; c[8] = 1; c }
            Drv::Rng => vec![],
            Drv::Rtc => vec![],
            // guest_cid_low, guest_cid_high
            Drv::Socket => { let mut c = vec![0u8; 8]; c[0..4].copy_from_slice(&(3u32 + rng.below(1000) as u32).to_le_bytes()); c }
            // jacks, streams, chmaps
            Drv::Sound => { let mut c = vec![0u8; 12]; c[4] = 1; c }
            // tag_len, tag bytes
            Drv::P9 => { let tag = b"verif9p"; let mut c = vec![0u8; 2 + tag.len()]; c[0] = tag.len() as u8; c[2..].copy_from_slice(tag); c }
        }
    }
    /// the scripted transport state for this driver
    pub fn tstate(self, features: u64, legacy: bool, config: Vec<u8>) -> TState {
        let mut st = TState::new(self.device_type(), features, self.nqueues(), 32768);
        st.legacy = legacy;
        st.config = config;
        st
    }
}

pub enum Built<H: Hal> {
    Blk(VirtIOBlk<H, ModelTransport>),
    Console(VirtIOConsole<H, ModelTransport>),
    Gpu(VirtIOGpu<H, ModelTransport>),
    Input(VirtIOInput<H, ModelTransport>),
    NetRaw(VirtIONetRaw<H, ModelTransport, NETQ>),
    NetBuf(VirtIONet<H, ModelTransport, NETQ>),
    Rng(VirtIORng<H, ModelTransport>),
    Rtc(VirtIORtc<H, ModelTransport>),
    Socket(VirtIOSocket<H, ModelTransport>),
    Sound(VirtIOSound<H, ModelTransport>),
    P9(VirtIO9p<H, ModelTransport>),
}

/// runs the real constructor; `net_buf_len` is the second argument of `VirtIONet::new`
pub fn construct<H: Hal>(d: Drv, t: ModelTransport, net_buf_len: usize) -> Result<Built<H>, Error> {
    Ok(match d {
        Drv::Blk => Built::Blk(VirtIOBlk::new(t)?),
        Drv::Console => Built::Console(VirtIOConsole::new(t)?),
        Drv::Gpu => Built::Gpu(VirtIOGpu::new(t)?),
        Drv::Input => Built::Input(VirtIOInput::new(t)?),
        Drv::NetRaw => Built::NetRaw(VirtIONetRaw::new(t)?),
        Drv::NetBuf => Built::NetBuf(VirtIONet::new(t, net_buf_len)?),
        Drv::Rng => Built::Rng(VirtIORng::new(t)?),
        Drv::Rtc => Built::Rtc(VirtIORtc::new(t)?),
        Drv::Socket => Built::Socket(VirtIOSocket::new(t)?),
        Drv::Sound => Built::Sound(VirtIOSound::new(t)?),
        Drv::P9 => Built::P9(VirtIO9p::new(t)?),
    })
}
