//! C12: PCI bus helpers (src/transport/pci/bus.rs) against a twin of the reference PCI function of
//! coq/theories/Model/PciBus.v behind `ConfigurationAccess`, with an ordered access log.
//!  * bar_info / bars: every BAR kind x slot x size x decoder width (writable address bits [k, m): full, 16-bit I/O,
//!    20-bit below-1-MiB, narrow 64-bit) x prefetchable x aligned address x directed command
//!    values; lines 1210/1211 (correspondence) and monitors 1250..1254 (the property itself);
//!  * get_status_command / set_command (1212, 1213);
//!  * Cam::cam_offset through the public method (1201) and through MmioCam + the custom MMIO
//!    backend (1202, 1203), monitor 1205; whole buses (1206) and the complete 256x32x8x64 space for
//!    both mechanisms counted here and judged by monitor 1207;
//!  * enumerate_bus on populated buses (1220, monitor 1255); capability walks (1230, monitor 1256).
use crate::hal::{self, Ev};
use crate::mmio::{self, MmioDev};
use crate::Ctx;
use std::cell::RefCell;
use std::collections::BTreeMap;
use std::panic::{catch_unwind, AssertUnwindSafe};
use std::rc::Rc;
use virtio_drivers::transport::pci::bus::{
    BarInfo, Cam, Command, ConfigurationAccess, DeviceFunction, HeaderType, MemoryBarType, MmioCam, PciError, PciRoot,
};

// ---------------------------------------------------------------- the twin of the reference function
#[derive(Clone, Copy, Debug)]
pub struct Slot { pub kind: u8, pub mask: u32, pub val: u32 }
pub const DSLOT: Slot = Slot { kind: 0, mask: 0xffff_ffff, val: 0 };
#[derive(Clone)]
pub struct RefFn { pub cmd: u16, pub status: u16, pub bars: [Slot; 6], pub regs: [u32; 64] }
impl RefFn {
    pub fn new(cmd: u16, status: u16, bars: [Slot; 6]) -> Self { RefFn { cmd, status, bars, regs: [0; 64] } }
    pub fn read(&self, off: u8) -> u32 {
        let off = off & !3;
        if off == 4 { ((self.status as u32) << 16) | self.cmd as u32 }
        else if (16..40).contains(&off) { self.bars[((off - 16) / 4) as usize].val }
        else { self.regs[(off / 4) as usize] }
    }
    pub fn write(&mut self, off: u8, v: u32) {
        let off = off & !3;
        if off == 4 { self.cmd = v as u16; self.status &= !(((v >> 16) as u16) & 0xF900); }
        else if (16..40).contains(&off) { let b = &mut self.bars[((off - 16) / 4) as usize]; b.val = (b.mask & b.val) | (v & !b.mask); }
        else { self.regs[(off / 4) as usize] = v; }
    }
    pub fn enc(&self) -> Vec<u128> {
        let mut o = vec![self.cmd as u128, self.status as u128];
        for b in &self.bars { o.extend([b.kind as u128, b.mask as u128, b.val as u128]); }
        o
    }
    pub fn slots_enc(&self) -> Vec<u128> { self.enc()[2..].to_vec() }
    pub fn vals(&self) -> Vec<u128> { self.bars.iter().map(|b| b.val as u128).collect() }
}
pub struct Bus { pub bus: u8, pub fns: BTreeMap<(u8, u8), RefFn>, pub log: Vec<(bool, u8, u32, u16)> }
#[derive(Clone)]
pub struct Twin(pub Rc<RefCell<Bus>>);
impl Twin {
    pub fn single(df: DeviceFunction, f: RefFn) -> Twin {
        let mut fns = BTreeMap::new(); fns.insert((df.device, df.function), f);
        Twin(Rc::new(RefCell::new(Bus { bus: df.bus, fns, log: vec![] })))
    }
    pub fn func(&self, df: DeviceFunction) -> RefFn { self.0.borrow().fns[&(df.device, df.function)].clone() }
    pub fn take_log(&self) -> Vec<(bool, u8, u32, u16)> { std::mem::take(&mut self.0.borrow_mut().log) }
}
impl ConfigurationAccess for Twin {
    fn read_word(&self, df: DeviceFunction, off: u8) -> u32 {
        let mut b = self.0.borrow_mut();
        let (v, c) = if df.bus == b.bus { match b.fns.get(&(df.device, df.function)) { Some(f) => (f.read(off), f.cmd), None => (0xffff_ffff, 0) } } else { (0xffff_ffff, 0) };
        b.log.push((false, off, v, c));
        v
    }
    fn write_word(&mut self, df: DeviceFunction, off: u8, data: u32) {
        let mut b = self.0.borrow_mut();
        let bus = b.bus;
        let mut c = 0;
        if df.bus == bus { if let Some(f) = b.fns.get_mut(&(df.device, df.function)) { c = f.cmd; f.write(off, data); } }
        b.log.push((true, off, data, c));
    }
    unsafe fn unsafe_clone(&self) -> Self { self.clone() }
}

// ---------------------------------------------------------------- BAR descriptions
#[derive(Clone, Copy, Debug)]
/// writable address bits are the run [k, m): size 2^k, bits >= m hard-wired zero (m = 32 / 64: full decoder;
/// m = 16 on an I/O BAR: 16-bit I/O decoder; m = 20 on a below-1-MiB BAR; 64-bit BARs of devices with fewer address lines)
pub enum Spec { Unimpl, Io { k: u32, m: u32, addr: u32 }, Mem { ty: u8, pf: bool, k: u32, m: u32, addr: u32 }, Mem64 { pf: bool, k: u32, m: u32, addr: u64 } }
pub fn ones32(k: u32) -> u32 { if k >= 32 { 0xffff_ffff } else { (1u32 << k) - 1 } }
/// hard-wired bits of a register whose writable bits are [k, m)
pub fn fmask(k: u32, m: u32) -> u32 { ones32(k) | !ones32(m) }
impl Spec {
    pub fn slots(&self) -> Vec<Slot> {
        match *self {
            Spec::Unimpl => vec![DSLOT],
            Spec::Io { k, m, addr } => vec![Slot { kind: 1, mask: fmask(k, m), val: addr | 1 }],
            Spec::Mem { ty, pf, k, m, addr } => vec![Slot { kind: if ty <= 1 { 2 + ty } else { 6 }, mask: fmask(k, m), val: addr | ((ty as u32) << 1) | ((pf as u32) << 3) }],
            Spec::Mem64 { pf, k, m, addr } => vec![
                Slot { kind: 4, mask: fmask(k.min(32), m.min(32)), val: (addr as u32) | 4 | ((pf as u32) << 3) },
                Slot { kind: 5, mask: fmask(k.saturating_sub(32), m.saturating_sub(32)), val: (addr >> 32) as u32 }],
        }
    }
    fn narrow(&self) -> bool { match self { Spec::Unimpl => false, Spec::Io { m, .. } | Spec::Mem { m, .. } => *m < 32, Spec::Mem64 { m, .. } => *m < 64 } }
    fn name(&self) -> &'static str { match self { Spec::Unimpl => "unimpl", Spec::Io { .. } => "io", Spec::Mem { ty: 0, .. } => "mem32", Spec::Mem { ty: 1, .. } => "below1m", Spec::Mem { .. } => "mem_reserved_type", Spec::Mem64 { .. } => "mem64" } }
}
/// a size-aligned address for a 2^k BAR inside `bits` address bits: mostly non-zero
pub fn aligned_addr(ctx: &mut Ctx, k: u32, bits: u32) -> u64 {
    let top = if bits >= 64 { u64::MAX } else { (1u64 << bits) - 1 };
    let m = !((1u64 << k) - 1) & top;
    match ctx.rng.below(6) { 0 => m, 1 => 1u64 << k, 2 => 0, 3 => (1u64 << (bits - 1)) & m, _ => { let a = ctx.rng.next() & m; if a == 0 { 1u64 << k } else { a } } }
}
/// upper end of the writable run: the full decoder, the typical narrow one, or anything above k
fn top_for(ctx: &mut Ctx, k: u32, full: u32, typical: u32) -> u32 {
    match ctx.rng.below(4) { 0 | 1 => full, 2 if typical > k => typical, _ => ctx.rng.range(k as u64 + 1, full as u64) as u32 }
}
fn random_spec(ctx: &mut Ctx, allow64: bool) -> Spec {
    match ctx.rng.below(if allow64 { 6 } else { 4 }) {
        0 => Spec::Unimpl,
        1 => { let k = ctx.rng.range(2, 31) as u32; let m = top_for(ctx, k, 32, 16); Spec::Io { k, m, addr: aligned_addr(ctx, k, m) as u32 } }
        2 | 3 => { let k = ctx.rng.range(4, 31) as u32; let ty = if ctx.rng.chance(1, 12) { 3 } else { ctx.rng.below(2) as u8 }; let m = top_for(ctx, k, 32, if ty == 1 { 20 } else { 24 });
                   Spec::Mem { ty, pf: ctx.rng.chance(1, 2), k, m, addr: aligned_addr(ctx, k, m) as u32 } }
        _ => { let k = ctx.rng.range(4, 63) as u32; let m = top_for(ctx, k, 64, 48); Spec::Mem64 { pf: ctx.rng.chance(1, 2), k, m, addr: aligned_addr(ctx, k, m) } }
    }
}
/// six registers: `spec` at `slot`, well-formed random BARs elsewhere
fn layout_with(ctx: &mut Ctx, spec: Spec, slot: usize) -> [Slot; 6] {
    let mut bars = [DSLOT; 6];
    let mine = spec.slots();
    let mut i = 0;
    while i < 6 {
        if i == slot { for (j, s) in mine.iter().enumerate() { if i + j < 6 { bars[i + j] = *s; } } i += mine.len(); continue; }
        let room = if i < slot { slot - i } else { 6 - i };
        let sp = random_spec(ctx, room >= 2);
        let ss = sp.slots();
        for (j, s) in ss.iter().enumerate() { bars[i + j] = *s; }
        i += ss.len();
    }
    bars
}
fn random_layout(ctx: &mut Ctx, allow_bad_last: bool) -> [Slot; 6] {
    let mut bars = [DSLOT; 6];
    let mut i = 0;
    while i < 6 {
        let sp = random_spec(ctx, i < 5 || allow_bad_last);
        let ss = sp.slots();
        for (j, s) in ss.iter().enumerate() { if i + j < 6 { bars[i + j] = *s; } }
        i += ss.len();
    }
    bars
}

fn enc_info(b: &Option<BarInfo>) -> [u128; 5] {
    match b {
        None => [0; 5],
        Some(BarInfo::Memory { address_type, prefetchable, address, size }) => {
            let ty = match address_type { MemoryBarType::Width32 => 0, MemoryBarType::Below1MiB => 1, MemoryBarType::Width64 => 2 };
            [1, ty, *prefetchable as u128, *address as u128, *size as u128]
        }
        Some(BarInfo::IO { address, size }) => [2, 0, 0, *address as u128, *size as u128],
    }
}
fn enc_res(r: &std::thread::Result<Result<Option<BarInfo>, PciError>>) -> Vec<u128> {
    match r {
        Ok(Ok(i)) => { let mut v = vec![0]; v.extend(enc_info(i)); v }
        Ok(Err(PciError::InvalidBarType)) => vec![1, 100, 0, 0, 0, 0],
        Err(_) => vec![2, 0, 0, 0, 0, 0],
    }
}
pub fn enc_log(log: &[(bool, u8, u32, u16)]) -> Vec<u128> {
    let mut o = vec![];
    for (w, off, v, c) in log { o.extend([*w as u128, *off as u128, *v as u128, *c as u128]); }
    o
}
fn some_df(ctx: &mut Ctx) -> DeviceFunction {
    DeviceFunction { bus: ctx.rng.boundary(8) as u8, device: ctx.rng.below(32) as u8, function: ctx.rng.below(8) as u8 }
}

/// the side-effect monitors shared by bar_info and bars
fn side_effect_monitors(ctx: &mut Ctx, f0: &RefFn, f1: &RefFn, log: &[(bool, u8, u32, u16)]) {
    ctx.tr.line(1251, &[f0.cmd as u128, f1.cmd as u128], &[1]);
    let mut i = f0.vals(); i.extend(f1.vals());
    ctx.tr.line(1252, &i, &[1]);
    let mut i = f0.enc(); i.push(log.len() as u128); i.extend(enc_log(log));
    ctx.tr.line(1253, &i, &[1]);
}

/// one call of the real PciRoot::bar_info
fn probe(ctx: &mut Ctx, f0: RefFn, slot: u8) {
    let df = some_df(ctx);
    let twin = Twin::single(df, f0.clone());
    let mut root = PciRoot::new(twin.clone());
    let r = catch_unwind(AssertUnwindSafe(|| root.bar_info(df, slot)));
    let log = twin.take_log();
    let f1 = twin.func(df);
    let mut ins = vec![ctx.release as u128, slot as u128]; ins.extend(f0.enc());
    let mut outs = enc_res(&r);
    outs.push(f1.cmd as u128); outs.push(f1.status as u128); outs.extend(f1.vals()); outs.push(99); outs.extend(enc_log(&log));
    ctx.tr.line(1210, &ins, &outs);
    // monitors: the property on the observed behaviour
    let mut i = vec![slot as u128]; i.extend(f0.slots_enc()); i.extend(enc_res(&r));
    ctx.tr.line(1250, &i, &[1]);
    side_effect_monitors(ctx, &f0, &f1, &log);
    match &r { Ok(Ok(_)) => ctx.tr.note("bar_info_ok"), Ok(Err(_)) => ctx.tr.note("bar_info_err"), Err(_) => ctx.tr.note("bar_info_panic") }
}

fn probe_bars(ctx: &mut Ctx, f0: RefFn) {
    let df = some_df(ctx);
    let twin = Twin::single(df, f0.clone());
    let mut root = PciRoot::new(twin.clone());
    let r = catch_unwind(AssertUnwindSafe(|| root.bars(df)));
    let log = twin.take_log();
    let f1 = twin.func(df);
    let mut ins = vec![ctx.release as u128]; ins.extend(f0.enc());
    let mut outs: Vec<u128> = match &r {
        Ok(Ok(a)) => { let mut v = vec![0, 0]; for b in a.iter() { v.extend(enc_info(b)); } v }
        Ok(Err(PciError::InvalidBarType)) => vec![1, 100],
        Err(_) => vec![2, 0],
    };
    outs.push(f1.cmd as u128); outs.push(f1.status as u128); outs.extend(f1.vals()); outs.push(99); outs.extend(enc_log(&log));
    ctx.tr.line(1211, &ins, &outs);
    if let Ok(Ok(a)) = &r {
        let mut i = f0.slots_enc(); for b in a.iter() { i.extend(enc_info(b)); }
        ctx.tr.line(1254, &i, &[1]);
        ctx.tr.note("bars_ok");
    } else { ctx.tr.note("bars_err"); }
    side_effect_monitors(ctx, &f0, &f1, &log);
}

fn directed_commands() -> Vec<u16> {
    let mut v: Vec<u16> = vec![0, 0xffff, 1, 2, 3, 0x0007, 0x0407, 0x0083, 0x0080, 0xf880, 0xf883, 0x077f, 0x077c, 0x0781, 0xfffc, 0xfffe];
    for b in 0..16 { v.push(1 << b); v.push((1 << b) | 3); v.push((1 << b) | 2); }
    v
}

fn bar_scenarios(ctx: &mut Ctx) {
    let cmds = directed_commands();
    // the section-4 witnesses first
    ctx.tr.scenario("c12-findings");
    {
        // F5a: a register with the 64-bit type bits in the last slot
        let mut bars = [DSLOT; 6];
        bars[5] = Slot { kind: 4, mask: 0x0000_ffff, val: 0xfe00_0004 };
        probe(ctx, RefFn::new(0x0003, 0x0010, bars), 5);
        // F5b: a command value with a bit that has no named flag, decoding enabled
        let bars = layout_with(ctx, Spec::Mem { ty: 0, pf: false, k: 14, m: 32, addr: 0xfe00_0000 }, 0);
        probe(ctx, RefFn::new(0x0083, 0x0010, bars), 0);
        // decoding disabled: nothing is written to the command register
        probe(ctx, RefFn::new(0x0080, 0x0010, bars), 0);
        // F11: an I/O BAR with a 16-bit decoder (upper 16 address bits hard-wired zero): 0x100 bytes at 0xc000
        let bars = layout_with(ctx, Spec::Io { k: 8, m: 16, addr: 0xc000 }, 0);
        probe(ctx, RefFn::new(0x0001, 0x0010, bars), 0);
        // the same situation on a below-1-MiB memory BAR (20 address bits) and on a 64-bit BAR with 40 address lines
        let bars = layout_with(ctx, Spec::Mem { ty: 1, pf: false, k: 12, m: 20, addr: 0x000c_8000 }, 1);
        probe(ctx, RefFn::new(0x0002, 0x0010, bars), 1);
        let bars = layout_with(ctx, Spec::Mem64 { pf: true, k: 24, m: 40, addr: 0x0000_00fe_0100_0000 }, 2);
        probe(ctx, RefFn::new(0x0006, 0x0010, bars), 2);
    }
    // every kind x size x prefetchable x slot, commands and addresses rotating through the directed sets
    let per = ctx.budget(3, 8) as usize;
    let mut rot = 0usize;
    let mut specs: Vec<Spec> = vec![Spec::Unimpl];
    for k in 2..=31 { specs.push(Spec::Io { k, m: 32, addr: 0 }); }
    for ty in 0..2u8 { for pf in [false, true] { for k in 4..=31 { specs.push(Spec::Mem { ty, pf, k, m: 32, addr: 0 }); } } }
    for pf in [false, true] { for k in 4..=63 { specs.push(Spec::Mem64 { pf, k, m: 64, addr: 0 }); } }
    // narrow decoders: writable run [k, m) with m below the register width
    for k in 2..=15 { specs.push(Spec::Io { k, m: 16, addr: 0 }); }
    for k in 2..=30 { if k % 2 == 1 { specs.push(Spec::Io { k, m: k + 1 + (k * 7) % (31 - k), addr: 0 }); } }
    for k in 4..=19 { specs.push(Spec::Mem { ty: 1, pf: k % 2 == 0, k, m: 20, addr: 0 }); }
    for m in [24u32, 31] { for k in 4..m { specs.push(Spec::Mem { ty: 0, pf: k % 2 == 1, k, m, addr: 0 }); } }
    // the reserved memory type encoding (bits 2:1 = 0b11): an error, with command and BARs left as they were
    for pf in [false, true] { for k in [4u32, 12, 20, 31] { specs.push(Spec::Mem { ty: 3, pf, k, m: 32, addr: 0 }); } }
    for m in [32u32, 33, 40, 48, 63] { for k in 4..m { if (k + m) % 2 == 0 || k + 1 == m || k == 4 { specs.push(Spec::Mem64 { pf: k % 4 < 2, k, m, addr: 0 }); } } }
    for slot in 0..6usize {
        ctx.tr.scenario(&format!("c12-bar-slot{}", slot));
        for sp in &specs {
            for rep in 0..per {
                let sp = match *sp {
                    Spec::Unimpl => Spec::Unimpl,
                    Spec::Io { k, m, .. } => Spec::Io { k, m, addr: aligned_addr(ctx, k, m) as u32 },
                    Spec::Mem { ty, pf, k, m, .. } => Spec::Mem { ty, pf, k, m, addr: aligned_addr(ctx, k, m) as u32 },
                    Spec::Mem64 { pf, k, m, .. } => Spec::Mem64 { pf, k, m, addr: aligned_addr(ctx, k, m) },
                };
                let cmd = if rep + 1 == per && per > 1 { ctx.rng.next() as u16 } else { rot += 1; cmds[rot % cmds.len()] };
                let status = if ctx.rng.chance(1, 2) { 0x0010 } else { ctx.rng.next() as u16 };
                let bars = layout_with(ctx, sp, slot);
                ctx.tr.note(&format!("bar_{}", sp.name()));
                if sp.narrow() { ctx.tr.note("bar_narrow_decoder"); }
                if cmd & 3 != 0 { ctx.tr.note("cmd_decode_on"); } else { ctx.tr.note("cmd_decode_off"); }
                if cmd & !0x077f != 0 { ctx.tr.note("cmd_unnamed_bits"); }
                probe(ctx, RefFn::new(cmd, status, bars), slot as u8);
            }
        }
    }
    // all directed commands on one BAR of each kind
    ctx.tr.scenario("c12-bar-commands");
    for sp in [Spec::Unimpl, Spec::Io { k: 8, m: 32, addr: 0xc000 }, Spec::Io { k: 5, m: 16, addr: 0xffe0 }, Spec::Mem { ty: 0, pf: true, k: 12, m: 32, addr: 0xfebf_1000 },
               Spec::Mem { ty: 1, pf: false, k: 16, m: 20, addr: 0x000a_0000 }, Spec::Mem { ty: 3, pf: false, k: 12, m: 32, addr: 0xfeb0_0000 }, Spec::Mem64 { pf: true, k: 34, m: 64, addr: 0x0000_0038_0000_0000 },
               Spec::Mem64 { pf: false, k: 14, m: 48, addr: 0x0000_ffff_ffff_c000 }] {
        for c in &cmds {
            let slot = ctx.rng.below(5) as usize;
            let bars = layout_with(ctx, sp, slot);
            probe(ctx, RefFn::new(*c, 0xffff, bars), slot as u8);
        }
    }
    // whole-function probes
    ctx.tr.scenario("c12-bars");
    let n = ctx.budget(300, 20);
    for j in 0..n {
        let bars = random_layout(ctx, j % 7 == 0);
        let cmd = if j % 3 == 0 { ctx.rng.next() as u16 } else { cmds[(j as usize) % cmds.len()] };
        let st = ctx.rng.next() as u16;
        probe_bars(ctx, RefFn::new(cmd, st, bars));
    }
}

fn status_command(ctx: &mut Ctx) {
    ctx.tr.scenario("c12-status-command");
    let df = DeviceFunction { bus: 0, device: 1, function: 2 };
    let mut words: Vec<u32> = vec![0, 0xffff_ffff, 0x0020_0003, 0x0010_0000, 0xffff_0000, 0x0000_ffff, 0x0080_0080, 0x0647_f880];
    for b in 0..32 { words.push(1 << b); words.push(!(1u32 << b)); }
    for _ in 0..ctx.budget(200, 10) { words.push(ctx.rng.next() as u32); }
    for w in words {
        let twin = Twin::single(df, RefFn::new(w as u16, (w >> 16) as u16, [DSLOT; 6]));
        let root = PciRoot::new(twin.clone());
        let (s, c) = root.get_status_command(df);
        ctx.tr.line(1212, &[w as u128], &[s.bits() as u128, c.bits() as u128]);
        // set_command with the value retained / truncated to the named flags
        for retain in [true, false] {
            let twin = Twin::single(df, RefFn::new(0, 0, [DSLOT; 6]));
            let mut root = PciRoot::new(twin.clone());
            let c = if retain { Command::from_bits_retain(w as u16) } else { Command::from_bits_truncate(w as u16) };
            root.set_command(df, c);
            let log = twin.take_log();
            let outs: Vec<u128> = if log.len() == 1 { vec![log[0].0 as u128, log[0].1 as u128, log[0].2 as u128] } else { vec![9, log.len() as u128] };
            ctx.tr.line(1213, &[w as u16 as u128, retain as u128], &outs);
        }
    }
}

// ---------------------------------------------------------------- cam_offset
struct CamDev;
impl MmioDev for CamDev {
    fn read(&mut self, _off: u64, _w: u8) -> u64 { 0x1af4_1000 }
    fn write(&mut self, _off: u64, _w: u8, _v: u64) {}
}
const CAM_VBASE: usize = 0x1000_0000_0000;

fn cam_case(ctx: &mut Ctx, cam: Cam, bus: u8, dev: u8, func: u8, reg: u8, through_mmio: bool) {
    let e = (cam == Cam::Ecam) as u128;
    let df = DeviceFunction { bus, device: dev, function: func };
    let r = catch_unwind(AssertUnwindSafe(|| cam.cam_offset(df, reg)));
    let ins = [e, bus as u128, dev as u128, func as u128, reg as u128];
    let (cls, off) = match r { Ok(o) => (0u128, o as u128), Err(_) => (2, 0) };
    ctx.tr.line(1201, &ins, &[cls, off]);
    ctx.tr.line(1205, &[e, bus as u128, dev as u128, func as u128, reg as u128, cls, off], &[1]);
    if through_mmio {
        for write in [false, true] {
            hal::take_log();
            // SAFETY (of the real contract): the address is fake and only ever reaches the logging backend
            let mut mc = unsafe { MmioCam::new(CAM_VBASE as *mut u8, cam) };
            let r = catch_unwind(AssertUnwindSafe(|| if write { mc.write_word(df, reg, 0x1234_5678) } else { let _ = mc.read_word(df, reg); }));
            let accs: Vec<(bool, u64, u8)> = hal::take_log().iter().filter_map(|ev| if let Ev::Mmio { write, off, width, .. } = ev { Some((*write, *off, *width)) } else { None }).collect();
            let outs: Vec<u128> = match (&r, accs.len()) {
                (Ok(_), 1) => vec![0, 1, accs[0].0 as u128, accs[0].1 as u128, accs[0].2 as u128],
                (Ok(_), n) => vec![0, n as u128, 0, 0, 0],
                (Err(_), n) => vec![2, n as u128, 0, 0, 0],
            };
            ctx.tr.line(if write { 1203 } else { 1202 }, &ins, &outs);
            if let (Ok(_), 1) = (&r, accs.len()) {
                ctx.tr.line(1205, &[e, bus as u128, dev as u128, func as u128, reg as u128, 0, accs[0].1 as u128], &[1]);
            }
        }
    }
}

fn cam_scenarios(ctx: &mut Ctx) {
    hal::reset();
    mmio::clear();
    mmio::register(12, CAM_VBASE, 0x1000_0000, Box::new(CamDev));
    for cam in [Cam::MmioCam, Cam::Ecam] {
        ctx.tr.scenario(if cam == Cam::Ecam { "c12-cam-ecam" } else { "c12-cam-mmio" });
        ctx.tr.line(1201, &[(cam == Cam::Ecam) as u128, 0, 0, 0, 0], &[0, 0]);
        assert_eq!(cam.size(), if cam == Cam::Ecam { 0x1000_0000 } else { 0x100_0000 });
        let buses = [0u8, 1, 0x80, 0xff];
        let devs = [0u8, 1, 2, 15, 16, 30, 31, 32, 33, 255];
        let fns = [0u8, 1, 2, 3, 4, 5, 6, 7, 8, 255];
        let regs = [0u8, 4, 0x34, 0x3c, 0xfc, 1, 2, 3, 0xff];
        for b in buses { for d in devs { for f in fns { for r in regs {
            cam_case(ctx, cam, b, d, f, r, (b as usize + d as usize + f as usize + r as usize) % 5 == 0);
        } } } }
        for _ in 0..ctx.budget(1500, 20) {
            let (b, d, f, r) = (ctx.rng.next() as u8, ctx.rng.below(32) as u8, ctx.rng.below(8) as u8, (ctx.rng.next() as u8) & !3);
            let tm = ctx.rng.chance(1, 4);
            cam_case(ctx, cam, b, d, f, r, tm);
        }
        ctx.tr.note_n("cam_cases", 1);
    }
    // whole buses: count, sum and position-weighted sum of the offsets, compared with the model
    ctx.tr.scenario("c12-cam-buses");
    let buses: Vec<u16> = if ctx.tier_thorough { (0..256).collect() } else { vec![0, 1, 0x55, 0xaa, 0xff] };
    for cam in [Cam::MmioCam, Cam::Ecam] {
        for b in &buses {
            let (mut cnt, mut sum, mut wsum, mut idx) = (0u128, 0u128, 0u128, 0u128);
            for d in 0..32u8 { for f in 0..8u8 { for r in 0..64u8 {
                idx += 1;
                let df = DeviceFunction { bus: *b as u8, device: d, function: f };
                if let Ok(o) = catch_unwind(AssertUnwindSafe(|| cam.cam_offset(df, 4 * r))) { cnt += 1; sum += o as u128; wsum += idx * o as u128; }
            } } }
            ctx.tr.line(1206, &[(cam == Cam::Ecam) as u128, *b as u128], &[cnt, sum, wsum]);
        }
    }
    // the complete space 256 x 32 x 8 x 64 for both mechanisms: distinctness by bitmap
    ctx.tr.scenario("c12-cam-all");
    for cam in [Cam::MmioCam, Cam::Ecam] {
        let words = (cam.size() as usize) / 4;
        let mut seen = vec![0u64; words / 64 + 1];
        let (mut n, mut distinct, mut oob, mut mis, mut refused) = (0u128, 0u128, 0u128, 0u128, 0u128);
        for b in 0..=255u8 { for d in 0..32u8 { for f in 0..8u8 { for r in 0..64u8 {
            n += 1;
            let df = DeviceFunction { bus: b, device: d, function: f };
            match catch_unwind(AssertUnwindSafe(|| cam.cam_offset(df, 4 * r))) {
                Ok(o) => {
                    if o >= cam.size() { oob += 1; continue; }
                    if o & 3 != 0 { mis += 1; }
                    let w = (o / 4) as usize;
                    if seen[w / 64] & (1 << (w % 64)) == 0 { seen[w / 64] |= 1 << (w % 64); distinct += 1; }
                }
                Err(_) => refused += 1,
            }
        } } } }
        ctx.tr.line(1207, &[(cam == Cam::Ecam) as u128, n, distinct, oob, mis, refused], &[1]);
        ctx.tr.note_n("cam_tuples_swept", n as u64);
    }
    mmio::clear();
}

// ---------------------------------------------------------------- enumeration
fn header_code(h: &HeaderType) -> u128 {
    match h { HeaderType::Standard => 0, HeaderType::PciPciBridge => 1, HeaderType::PciCardbusBridge => 2, HeaderType::Unrecognised(v) => *v as u128 }
}
fn enum_case(ctx: &mut Ctx, bus: u8, pop: &[(u8, u8, u32, u32, u32)]) {
    let mut fns = BTreeMap::new();
    for (d, f, w0, w2, w3) in pop {
        let mut rf = RefFn::new(0, 0, [DSLOT; 6]);
        rf.regs[0] = *w0; rf.regs[2] = *w2; rf.regs[3] = *w3;
        fns.insert((*d, *f), rf);
    }
    let twin = Twin(Rc::new(RefCell::new(Bus { bus, fns, log: vec![] })));
    let root = PciRoot::new(twin.clone());
    let r = catch_unwind(AssertUnwindSafe(|| root.enumerate_bus(bus).take(400).collect::<Vec<_>>()));
    let mut ins = vec![bus as u128, pop.len() as u128];
    for (d, f, w0, w2, w3) in pop { ins.extend([*d as u128, *f as u128, *w0 as u128, *w2 as u128, *w3 as u128]); }
    let mut outs: Vec<u128> = vec![];
    match &r {
        Ok(items) => {
            outs.push(items.len() as u128);
            for (df, i) in items {
                outs.extend([df.bus as u128, df.device as u128, df.function as u128, i.vendor_id as u128, i.device_id as u128,
                    i.class as u128, i.subclass as u128, i.prog_if as u128, i.revision as u128, header_code(&i.header_type)]);
            }
        }
        Err(_) => outs.push(999_999),
    }
    ctx.tr.line(1220, &ins, &outs);
    let mut mi = ins.clone(); mi.extend(outs.iter().copied());
    ctx.tr.line(1255, &mi, &[1]);
    // enumeration must not write
    let writes = twin.take_log().iter().filter(|a| a.0).count();
    ctx.tr.line(1251, &[0, writes as u128], &[1]);
    ctx.tr.note_n("enumerated_functions", pop.len() as u64);
}
fn rand_fn_words(ctx: &mut Ctx, multi: bool) -> (u32, u32, u32) {
    let w0 = match ctx.rng.below(6) { 0 => 0x1000_1af4, 1 => 0x1234_ffff, 2 => 0xffff_1af4, 3 => 0xffff_fffe, _ => { let w = ctx.rng.next() as u32; if w == 0xffff_ffff { 1 } else { w } } };
    let w2 = match ctx.rng.below(3) { 0 => 0x0200_0001, 1 => 0xff00_ff00, _ => ctx.rng.next() as u32 };
    let hdr = match ctx.rng.below(5) { 0 => 0u32, 1 => 1, 2 => 2, 3 => 0x7f, _ => ctx.rng.below(128) as u32 };
    let w3 = (ctx.rng.next() as u32 & 0xff00_ffff) | ((hdr | if multi { 0x80 } else { 0 }) << 16);
    (w0, w2, w3)
}
fn enum_scenarios(ctx: &mut Ctx) {
    ctx.tr.scenario("c12-enumerate");
    enum_case(ctx, 0, &[]);
    // every position alone, the corners, the full bus
    for (d, f) in [(0u8, 0u8), (0, 7), (31, 0), (31, 7), (1, 0), (0, 1), (15, 3)] {
        let (w0, w2, w3) = rand_fn_words(ctx, false);
        let b = ctx.rng.next() as u8;
        enum_case(ctx, b, &[(d, f, w0, w2, w3)]);
    }
    let mut full = vec![];
    for d in 0..32u8 { for f in 0..8u8 { let (w0, w2, w3) = rand_fn_words(ctx, f == 0); full.push((d, f, w0, w2, w3)); } }
    enum_case(ctx, 0xff, &full);
    // function 0 absent but others present; single-function devices whose other functions answer too
    let (w0, w2, w3) = rand_fn_words(ctx, false);
    enum_case(ctx, 3, &[(4, 3, w0, w2, w3), (4, 5, w0, w2, w3), (9, 7, w0, w2, w3)]);
    enum_case(ctx, 3, &[(4, 0, w0, w2, w3 & !0x0080_0000), (4, 1, w0, w2, w3), (4, 7, w0, w2, w3)]);
    for _ in 0..ctx.budget(120, 20) {
        let dens = ctx.rng.range(1, 40);
        let mut pop = vec![];
        for d in 0..32u8 {
            let multi = ctx.rng.chance(1, 2);
            for f in 0..8u8 {
                if ctx.rng.below(40) < dens && (multi || f == 0 || ctx.rng.chance(1, 8)) {
                    let (mut w0, w2, w3) = rand_fn_words(ctx, multi && f == 0);
                    if ctx.rng.chance(1, 12) { w0 = 0xffff_ffff; }   // listed but absent
                    pop.push((d, f, w0, w2, w3));
                }
            }
        }
        ctx.rng.shuffle(&mut pop);
        let b = ctx.rng.next() as u8;
        enum_case(ctx, b, &pop);
    }
}

// ---------------------------------------------------------------- capability lists
/// walk the list in the harness first: the real iterator has no bound, so cyclic lists are never given to it
fn acyclic(w4: u32, w34: u32, regs: &BTreeMap<u8, u32>) -> bool {
    if w4 & 0x0010_0000 == 0 { return true; }
    let mut cur = (w34 & 0xfc) as u8; let mut steps = 0;
    loop {
        steps += 1; if steps > 60 { return false; }
        let h = if cur == 4 { w4 } else if cur == 0x34 { w34 } else { *regs.get(&cur).unwrap_or(&0) };
        let nx = (h >> 8) as u8;
        if nx == 0 || nx < 64 || nx & 3 != 0 { return true; }
        cur = nx;
    }
}
fn caps_case(ctx: &mut Ctx, w4: u32, w34: u32, regs: &BTreeMap<u8, u32>, intended: Option<&[(u8, u8, u16)]>) {
    // status/command, the BARs and the pointer register are served by the function itself
    let regs: BTreeMap<u8, u32> = regs.iter().filter(|(o, _)| **o != 4 && **o != 0x34 && !(16..40).contains(*o)).map(|(o, h)| (*o, *h)).collect();
    let regs = &regs;
    if !acyclic(w4, w34, regs) { ctx.tr.note("caps_cyclic_skipped"); return; }
    let df = some_df(ctx);
    let mut rf = RefFn::new(w4 as u16, (w4 >> 16) as u16, [DSLOT; 6]);
    for (o, h) in regs { rf.regs[(*o / 4) as usize] = *h; }
    rf.regs[0x34 / 4] = w34;
    let twin = Twin::single(df, rf);
    let root = PciRoot::new(twin.clone());
    let r = catch_unwind(AssertUnwindSafe(|| root.capabilities(df).take(70).collect::<Vec<_>>()));
    let mut ins = vec![w4 as u128, w34 as u128, regs.len() as u128];
    for (o, h) in regs { ins.extend([*o as u128, *h as u128]); }
    let mut outs = vec![];
    let mut obs = vec![];
    match &r {
        Ok(l) => { outs.push(1); outs.push(l.len() as u128); for c in l { obs.extend([c.offset as u128, c.id as u128, c.private_header as u128]); } outs.extend(obs.iter().copied()); }
        Err(_) => { outs.push(9); }
    }
    ctx.tr.line(1230, &ins, &outs);
    if let (Some(l), Ok(got)) = (intended, &r) {
        let mut mi = vec![l.len() as u128];
        for (o, i, p) in l { mi.extend([*o as u128, *i as u128, *p as u128]); }
        mi.push(got.len() as u128); mi.extend(obs.iter().copied());
        ctx.tr.line(1256, &mi, &[1]);
        ctx.tr.note("caps_wellformed");
    } else { ctx.tr.note("caps_malformed"); }
    let writes = twin.take_log().iter().filter(|a| a.0).count();
    ctx.tr.line(1251, &[0, writes as u128], &[1]);
}
fn caps_scenarios(ctx: &mut Ctx) {
    ctx.tr.scenario("c12-capabilities");
    let legal: Vec<u8> = (16..64u8).map(|x| x * 4).collect();   // 0x40 .. 0xfc
    let n = ctx.budget(400, 20);
    for j in 0..n {
        // a well-formed list: distinct legal offsets in any order
        let len = match j % 8 { 0 => 0, 1 => 1, 2 => 48, _ => ctx.rng.range(1, 12) as usize };
        let mut offs = legal.clone(); ctx.rng.shuffle(&mut offs); offs.truncate(len);
        let term: u8 = match ctx.rng.below(5) { 0 | 1 => 0, 2 => ctx.rng.range(1, 63) as u8, 3 => (ctx.rng.range(64, 255) as u8) | 1, _ => (ctx.rng.range(64, 255) as u8 & !3) | 2 };
        let mut regs = BTreeMap::new();
        let mut intended = vec![];
        for (i, o) in offs.iter().enumerate() {
            let id = match ctx.rng.below(3) { 0 => 0x09u8, 1 => ctx.rng.next() as u8, _ => [0x01u8, 0x05, 0x10, 0x11, 0xff, 0x00][ctx.rng.below(6) as usize] };
            let prv = ctx.rng.boundary(16) as u16;
            let nx = if i + 1 < offs.len() { offs[i + 1] } else { term };
            regs.insert(*o, id as u32 | (nx as u32) << 8 | (prv as u32) << 16);
            intended.push((*o, id, prv));
        }
        let status_other = (ctx.rng.next() as u32) & 0xffef_ffff;
        let w4 = if len > 0 { status_other | 0x0010_0000 } else if ctx.rng.chance(1, 2) { status_other } else { status_other | 0x0010_0000 };
        // with the list bit set and an empty list the pointer itself is the terminator class "too small": the code
        // does not check the first pointer, so that shape is only exercised as malformed below
        let w4 = if len == 0 { w4 & !0x0010_0000 } else { w4 };
        // low two bits of the pointer register are reserved and must be masked
        let w34 = if len > 0 { offs[0] as u32 | (ctx.rng.below(4) as u32) | ((ctx.rng.next() as u32) & 0xffff_ff00) } else { ctx.rng.next() as u32 };
        caps_case(ctx, w4, w34, &regs, Some(intended.as_slice()));
    }
    // malformed material: arbitrary headers at arbitrary registers (acyclic ones only reach the real code)
    for _ in 0..ctx.budget(300, 20) {
        let mut regs = BTreeMap::new();
        for _ in 0..ctx.rng.range(0, 10) {
            let o = (ctx.rng.next() as u8) & !3;
            let nx = match ctx.rng.below(4) { 0 => 0u8, 1 => ctx.rng.next() as u8, 2 => (ctx.rng.next() as u8) & !3, _ => ctx.rng.range(0, 70) as u8 };
            regs.insert(o, (ctx.rng.next() as u32 & 0xffff_00ff) | (nx as u32) << 8);
        }
        let w4 = ctx.rng.next() as u32 | if ctx.rng.chance(3, 4) { 0x0010_0000 } else { 0 };
        let w34 = match ctx.rng.below(3) { 0 => 0, 1 => ctx.rng.next() as u32, _ => *regs.keys().next().unwrap_or(&0x40) as u32 };
        caps_case(ctx, w4, w34, &regs, None);
    }
}

pub fn run(ctx: &mut Ctx) {
    bar_scenarios(ctx);
    status_command(ctx);
    cam_scenarios(ctx);
    enum_scenarios(ctx);
    caps_scenarios(ctx);
}
