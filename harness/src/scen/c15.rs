//! C15: the console driver (src/device/console.rs + console/embedded_io.rs) in lock-step with
//! Model/Console.v, against a reference console device that owns a PRNG byte stream and delivers it
//! in chunks of 1..4096 bytes into the posted receive buffer at PRNG-chosen moments (between calls or at a
//! chosen iteration of a busy-wait, through the hook site 4), and a reference transmit side that reads the
//! published chains through device addresses only (hook site 0 / notify).
//! Lines 1500..1510: one call of the real driver each, every observation predicted by the model.
//! Lines 1550..1560: monitors (the property evaluated on what the implementation did).
//! The reference device chooses its notification-suppression words (used.flags, avail_event) for the receive and
//! the transmit queue independently and changes them between calls (flag set / clear; event index at the next
//! entry, behind, one ahead, far ahead, around the half range), under every feature combination, `new` included;
//! the words in force at a call are inputs of its line, so the model predicts each notification.
//! `c15-wrap` takes both queues across the 16-bit index wrap with one line per operation.
use crate::hal::{self, Ev, LedgerHal};
use crate::scen::common::*;
use crate::scen::qrig::{read_desc, QAddr, CURQ};
use crate::tport::{ModelTransport, TState};
use crate::Ctx;
use std::cell::RefCell;
use std::panic::{catch_unwind, AssertUnwindSafe};
use std::rc::Rc;
use virtio_drivers::device::console::VirtIOConsole;
use virtio_drivers::transport::DeviceType;
use virtio_drivers::verif::Event;

type Console = VirtIOConsole<LedgerHal, ModelTransport>;
const PAGE: usize = 4096;
const SPIN_LIMIT: u32 = 48;

#[derive(Clone, Copy, PartialEq, Debug)]
enum TxPolicy { OnNotify, Poll(u32) }

struct Plan { idle: u32, chunk: Option<Vec<u8>>, claimed: Option<u32> }

struct ConDev {
    rx: QAddr, tx: QAddr, event_idx: bool,
    rx_seen: u16, rx_used: u16, tx_seen: u16, tx_used: u16,
    filled_unpopped: bool, last_data: Vec<u8>,
    // receive-side wait
    plan: Option<Plan>, rx_spins: u32, rx_views: Vec<Vec<u128>>, fired: Option<Vec<u8>>, gave_up: bool,
    // transmit side
    tx_policy: TxPolicy, tx_spins: u32, tx_obs: Vec<u16>, tx_chains: Vec<(Vec<u8>, u32, u32)>,
}
thread_local! { static DEV: RefCell<Option<ConDev>> = RefCell::new(None);
    /// the transport state while `new` runs: lets the observer find the receive queue as soon as it is registered
    static NEW_ST: RefCell<Option<Rc<RefCell<TState>>>> = RefCell::new(None);
    /// suppression words (used.flags, avail_event) the device writes into the receive queue as soon as the queue exists
    static NEW_WORDS: RefCell<Option<(u16, u16)>> = RefCell::new(None); }

/// offset of avail_event in the used ring of a queue of size 2
const AE_OFF: u64 = 4 + 8 * 2;
fn set_words(q: &QAddr, flags: u16, ae: u16) { hal::dev_write_u16(q.dev, flags).unwrap(); hal::dev_write_u16(q.dev + AE_OFF, ae).unwrap(); }
/// (avail_event, used.flags) as they stand in device-written memory
fn get_words(q: &QAddr) -> (u128, u128) { (hal::dev_read_u16(q.dev + AE_OFF).unwrap() as u128, hal::dev_read_u16(q.dev).unwrap() as u128) }
/// suppression words for a queue whose available index stands at `a` (the next entry is published as a + 1):
/// the flag set / clear / with other bits, the event index at the next entry, behind it, ahead of it, far ahead, at the half range
fn pick_words(ctx: &mut Ctx, a: u16, tag: &str) -> (u16, u16) {
    let flags = match ctx.rng.below(8) { 0 | 1 | 2 => 0u16, 3 | 4 | 5 => 1, 6 => 0xfffe, _ => *ctx.rng.pick(&[3u16, 0xffff, 0x8001]) };
    let (ae, what) = match ctx.rng.below(11) {
        0 | 1 => (a, "next"), 2 => (a.wrapping_sub(1), "behind"), 3 => (a.wrapping_add(1), "one_ahead"),
        4 | 5 => (a.wrapping_add(0x4000), "far_ahead"), 6 => (a.wrapping_add(0x7fff), "half_minus_1"), 7 => (a.wrapping_add(0x8000), "half"),
        8 => (a.wrapping_add(0x8001), "half_plus_1"), 9 => (a.wrapping_sub(1 + ctx.rng.below(6) as u16), "behind"), _ => (ctx.rng.next() as u16, "random") };
    ctx.tr.note(&format!("{}_flag_bit_{}", tag, flags & 1)); ctx.tr.note(&format!("{}_event_{}", tag, what));
    (flags, ae)
}
/// words that ask for a notification of the entry published next, under either feature setting
fn asking_words(ctx: &mut Ctx, a: u16) -> (u16, u16) {
    (*ctx.rng.pick(&[0u16, 0, 0xfffe]), match ctx.rng.below(4) { 0 | 1 => a, 2 => a.wrapping_sub(1 + ctx.rng.below(5) as u16), _ => a.wrapping_add(0x8001) })
}

impl ConDev {
    fn rx_view(&self) -> Vec<u128> {
        let mut v = vec![hal::dev_read_u16(self.rx.dev + 2).unwrap() as u128];
        for s in 0..2u64 {
            v.push(hal::dev_read_u32(self.rx.dev + 4 + 8 * s).unwrap() as u128);
            v.push(hal::dev_read_u32(self.rx.dev + 8 + 8 * s).unwrap() as u128);
        }
        if self.filled_unpopped { v.push(self.last_data.len() as u128); v.extend(self.last_data.iter().map(|b| *b as u128)); }
        else { v.push(0); }
        v
    }
    fn tx_view(&self) -> Vec<u128> {
        let mut v = vec![hal::dev_read_u16(self.tx.dev + 2).unwrap() as u128];
        for s in 0..2u64 {
            v.push(hal::dev_read_u32(self.tx.dev + 4 + 8 * s).unwrap() as u128);
            v.push(hal::dev_read_u32(self.tx.dev + 8 + 8 * s).unwrap() as u128);
        }
        v.push(0);
        v
    }
    fn rx_posted(&self) -> bool { hal::dev_read_u16(self.rx.drv + 2).unwrap() != self.rx_seen }
    /// deliver `chunk` into the next available receive buffer; `claimed` overrides the used length (misbehaviour)
    fn rx_fill(&mut self, chunk: &[u8], claimed: Option<u32>) -> bool {
        if !self.rx_posted() { return false; }
        let head = hal::dev_read_u16(self.rx.drv + 4 + 2 * (self.rx_seen as u64 & 1)).unwrap();
        let (addr, len, flags, _) = match read_desc(&self.rx, head as usize % 2) { Some(d) => d, None => return false };
        if head >= 2 || flags != 2 || (len as usize) < chunk.len() {
            hal::violate(format!("receive chain at head {} is not one writable element holding {} bytes (len {}, flags {})", head, chunk.len(), len, flags));
            return false;
        }
        if hal::dev_write(addr, chunk).is_err() { hal::violate(format!("receive buffer at {:#x} not device-writable", addr)); return false; }
        let ulen = claimed.unwrap_or(chunk.len() as u32);
        let slot = self.rx_used as u64 & 1;
        hal::dev_write_u32(self.rx.dev + 4 + 8 * slot, head as u32).unwrap();
        hal::dev_write_u32(self.rx.dev + 8 + 8 * slot, ulen).unwrap();
        self.rx_used = self.rx_used.wrapping_add(1);
        self.rx_seen = self.rx_seen.wrapping_add(1);
        hal::dev_write_u16(self.rx.dev + 2, self.rx_used).unwrap();
        self.filled_unpopped = true;
        // what the buffer holds in its first min(ulen, PAGE) bytes (a fresh bounce buffer is zero beyond the chunk)
        let mut d = chunk.to_vec(); d.resize((ulen as usize).min(PAGE).max(chunk.len().min(ulen as usize)), 0); d.truncate((ulen as usize).min(PAGE));
        self.last_data = d;
        true
    }
    /// take every new transmit chain: read its bytes through device addresses, publish the used element
    fn tx_service(&mut self) {
        let aidx = hal::dev_read_u16(self.tx.drv + 2).unwrap();
        while self.tx_seen != aidx {
            let head = hal::dev_read_u16(self.tx.drv + 4 + 2 * (self.tx_seen as u64 & 1)).unwrap();
            let mut bytes = vec![]; let (mut nel, mut nw) = (0u32, 0u32);
            let mut cur = head as usize; let mut steps = 0;
            loop {
                if cur >= 2 { nel = 99; break; }
                let (addr, len, flags, next) = read_desc(&self.tx, cur).unwrap();
                if flags & 4 != 0 {
                    // indirect table
                    match hal::dev_read(addr, len as usize) {
                        Ok(t) => for i in 0..(len as usize / 16) {
                            let d = &t[16 * i..16 * i + 16];
                            let (a, l, f) = (u64::from_le_bytes(d[0..8].try_into().unwrap()), u32::from_le_bytes(d[8..12].try_into().unwrap()), u16::from_le_bytes([d[12], d[13]]));
                            nel += 1; if f & 2 != 0 { nw += 1; } else { match hal::dev_read(a, l as usize) { Ok(b) => bytes.extend(b), Err(_) => nel = 99 } }
                        },
                        Err(_) => nel = 99,
                    }
                    break;
                }
                nel += 1;
                if flags & 2 != 0 { nw += 1; } else { match hal::dev_read(addr, len as usize) { Ok(b) => bytes.extend(b), Err(_) => nel = 99 } }
                steps += 1;
                if flags & 1 == 0 || steps > 2 { break; }
                cur = next as usize;
            }
            self.tx_chains.push((bytes, nel, nw));
            let slot = self.tx_used as u64 & 1;
            hal::dev_write_u32(self.tx.dev + 4 + 8 * slot, head as u32).unwrap();
            hal::dev_write_u32(self.tx.dev + 8 + 8 * slot, 0).unwrap();
            self.tx_used = self.tx_used.wrapping_add(1);
            self.tx_seen = self.tx_seen.wrapping_add(1);
            hal::dev_write_u16(self.tx.dev + 2, self.tx_used).unwrap();
        }
    }
}

/// installed into virtio_drivers::verif: device-visible stores are read back from queue memory (CURQ);
/// busy-wait iterations run the reference device
fn observer(e: Event) {
    let mut q = CURQ.with(|c| *c.borrow());
    if q.size == 0 {
        // inside VirtIOConsole::new: the only queue operation there is the first receive request
        let found = NEW_ST.with(|s| s.borrow().as_ref().and_then(|st| st.try_borrow().ok().and_then(|t| t.queues.get(0).copied()).filter(|qi| qi.set)));
        if let Some(qi) = found {
            q = QAddr { desc: qi.desc, drv: qi.drv, dev: qi.dev, size: 2 };
            // the device has its suppression words in place before the driver looks at them (should_notify comes after add)
            if let Some((f, ae)) = NEW_WORDS.with(|w| w.borrow_mut().take()) { set_words(&q, f, ae); }
        }
    }
    match e {
        Event::Store { what: 0, index, .. } => {
            let ev = if q.size == 0 { Ev::StoreDesc { index, addr: u64::MAX, len: 0, flags: 0, next: 0 } } else {
                match read_desc(&q, index as usize) {
                    Some((addr, len, flags, next)) => Ev::StoreDesc { index, addr, len, flags, next },
                    None => Ev::StoreDesc { index, addr: u64::MAX - 1, len: 0, flags: 0, next: 0 } } };
            hal::push(ev);
        }
        Event::Store { what, index, value } => {
            let mem = if q.size == 0 { Some(value) } else { match what {
                1 => hal::dev_read_u16(q.drv + 4 + 2 * index as u64).ok().map(|v| v as u64),
                2 => hal::dev_read_u16(q.drv + 2).ok().map(|v| v as u64),
                3 => hal::dev_read_u16(q.drv).ok().map(|v| v as u64),
                4 => hal::dev_read_u16(q.drv + 4 + 2 * q.size as u64).ok().map(|v| v as u64),
                _ => Some(value) } };
            hal::push(Ev::Store { what, index, val: mem.unwrap_or(u64::MAX) });
        }
        Event::Fence => hal::push(Ev::Fence),
        Event::Spin(4) => {
            let mut hopeless = false;
            DEV.with(|d| { if let Some(dev) = d.borrow_mut().as_mut() {
                // the finish_receive that has just run saw the device as it is now
                let v = dev.rx_view(); dev.rx_views.push(v);
                let k = dev.rx_spins; dev.rx_spins += 1;
                let act = match &dev.plan { Some(p) if p.idle == k => p.chunk.clone().map(|c| (c, p.claimed)), _ => None };
                if let Some((c, claimed)) = act { if dev.rx_fill(&c, claimed) { dev.fired = Some(c); } }
                if dev.rx_spins > SPIN_LIMIT { dev.gave_up = true; hopeless = true; }
            } });
            if hopeless { panic!("wait_for_receive can never end"); }
        }
        Event::Spin(0) => {
            let mut hopeless = false;
            DEV.with(|d| { if let Some(dev) = d.borrow_mut().as_mut() {
                // the can_pop() that has just failed saw this used index
                dev.tx_obs.push(hal::dev_read_u16(dev.tx.dev + 2).unwrap());
                dev.tx_spins += 1;
                if let TxPolicy::Poll(k) = dev.tx_policy { if dev.tx_spins >= k { dev.tx_service(); } }
                if dev.tx_spins > SPIN_LIMIT { dev.gave_up = true; hopeless = true; }
            } });
            if hopeless { panic!("add_notify_wait_pop can never end"); }
        }
        Event::Spin(_) => {}
    }
}

/// Model/ConsoleIO.enc_cevs: `id` names the caller buffer (0 = receive buffer, 1 = transmit buffer)
fn enc_cevs(evs: &[Ev], id: u128, cfgval: u128) -> Vec<u128> {
    let mut o = vec![];
    for e in evs {
        match e {
            Ev::Share { len, dir, paddr, .. } => o.extend([1, id, *len as u128, (*dir == 1) as u128, *paddr as u128]),
            Ev::Unshare { paddr, len, dir, .. } => o.extend([3, *paddr as u128, id, *len as u128, (*dir == 1) as u128]),
            Ev::StoreDesc { index, addr, len, flags, next } => o.extend([5, *index as u128, *addr as u128, *len as u128, *flags as u128, *next as u128]),
            Ev::Store { what: 1, index, val } => o.extend([6, *index as u128, *val as u128]),
            Ev::Fence => o.push(7),
            Ev::Store { what: 2, val, .. } => o.extend([8, *val as u128]),
            Ev::Store { what: 3, val, .. } => o.extend([9, *val as u128]),
            Ev::Store { what: 4, val, .. } => o.extend([10, *val as u128]),
            Ev::Notify(q) => o.extend([11, *q as u128]),
            Ev::AckInterrupt => o.push(12),
            Ev::ReadGen => o.push(13),
            Ev::ReadConfig { off, len } => o.extend([14, *off as u128, *len as u128]),
            Ev::WriteConfig { off, len } => o.extend([15, *off as u128, *len as u128, cfgval]),
            _ => {}
        }
    }
    o
}

struct Rig {
    con: Console,
    st: Rc<RefCell<TState>>,
    rx_vaddr: usize,
    seen_avail: u16,      // receive available index at the last look
    undelivered: usize,   // harness's own count: written by the device, not yet handed over (only used to choose operations)
    release: bool,
    monitors: bool,   // false in the malformed-device scenarios: no stream monitor applies there
    /// the long wrap scenario: a monitor line implied by another monitor line of the same call is left out
    /// (1555 [1] by 1552 with bytes; 1557 "<= 1" by 1559 "= 1 / = 0")
    lean: bool,
}

thread_local! { static C15_LEGACY: std::cell::Cell<bool> = std::cell::Cell::new(false); }

fn dev<R>(f: impl FnOnce(&mut ConDev) -> R) -> R { DEV.with(|d| f(d.borrow_mut().as_mut().unwrap())) }

impl Rig {
    /// `words`: (used.flags, avail_event) the device puts into the receive queue before `new` posts the first buffer
    fn new(ctx: &mut Ctx, feats: u64, cfg_len: usize, monitors: bool, words: (u16, u16)) -> Option<Rig> {
        hal::reset();
        DEV.with(|d| *d.borrow_mut() = None);
        CURQ.with(|c| *c.borrow_mut() = QAddr::default());
        virtio_drivers::verif::set_observer(Some(observer));
        let mut ts = TState::new(DeviceType::Console, feats, 2, 2);
        // a transport that requires the legacy (pre-1.0) queue layout: one region, used ring on the next page boundary
        ts.legacy = C15_LEGACY.with(|l| l.get());
        if ts.legacy { ctx.tr.note("legacy_layout"); }
        ts.config = { let mut c = vec![0u8; cfg_len]; for (i, b) in ctx.rng.bytes(cfg_len.min(8)).iter().enumerate() { c[i] = *b; } c };
        let (t, st) = ModelTransport::new(ts);
        hal::take_log();
        NEW_ST.with(|s| *s.borrow_mut() = Some(st.clone()));
        NEW_WORDS.with(|w| *w.borrow_mut() = Some(words));
        let r = catch_unwind(AssertUnwindSafe(move || Console::new(t)));
        NEW_ST.with(|s| *s.borrow_mut() = None);
        NEW_WORDS.with(|w| *w.borrow_mut() = None);
        let evs = hal::take_log();
        let (rxq, txq) = { let s = st.borrow(); (s.queues[0], s.queues[1]) };
        let rx = QAddr { desc: rxq.desc, drv: rxq.drv, dev: rxq.dev, size: 2 };
        let tx = QAddr { desc: txq.desc, drv: txq.drv, dev: txq.dev, size: 2 };
        let (mut addr, mut rx_vaddr) = (0u64, 0usize);
        for e in &evs { if let Ev::Share { vaddr, paddr, .. } = e { addr = *paddr; rx_vaddr = *vaddr; } }
        let negotiated = feats & ((1 << 29) | (1 << 28) | 1 | 4 | (1 << 32) | (1 << 33));
        let mut o = enc_result(&r, |_| 0).to_vec(); o.extend(enc_cevs(&evs, 0, 0));
        // the suppression words poll_retrieve saw: what the device wrote when the queue appeared (a fresh ring holds zeros)
        let (ae0, uf0) = if rxq.set { get_words(&rx) } else { (0, 0) };
        ctx.tr.line(1500, &[feats as u128, addr as u128, ae0, uf0], &o);
        if evs.iter().any(|e| matches!(e, Ev::Share { .. })) { ctx.tr.note(if evs.iter().any(|e| matches!(e, Ev::Notify(0))) { "new_post_notified" } else { "new_post_not_notified" }); }
        let con = match r { Ok(Ok(c)) => c, _ => return None };
        DEV.with(|d| *d.borrow_mut() = Some(ConDev { rx, tx, event_idx: negotiated & (1 << 29) != 0, rx_seen: 0, rx_used: 0, tx_seen: 0, tx_used: 0,
            filled_unpopped: false, last_data: vec![], plan: None, rx_spins: 0, rx_views: vec![], fired: None, gave_up: false,
            tx_policy: TxPolicy::OnNotify, tx_spins: 0, tx_obs: vec![], tx_chains: vec![] }));
        st.borrow_mut().on_notify = Some(Box::new(|q, _s| { if q == 1 { DEV.with(|d| { if let Some(dev) = d.borrow_mut().as_mut() {
            if dev.tx_policy == TxPolicy::OnNotify { dev.tx_service(); } } }); } }));
        let mut rig = Rig { con, st, rx_vaddr, seen_avail: 0, undelivered: 0, release: ctx.release, monitors, lean: false };
        rig.after_rx(ctx, &evs, true);
        Some(rig)
    }

    fn mon(&self, ctx: &mut Ctx, kind: u64, ins: &[u128], outs: &[u128]) { if self.monitors { ctx.tr.line(kind, ins, outs); } }

    fn rx_env(&self) -> (u128, u128) { dev(|d| get_words(&d.rx)) }
    /// the device changes the suppression words of the receive queue (between two calls)
    fn rx_words(&mut self, ctx: &mut Ctx) {
        let (rx, a) = dev(|d| (d.rx, hal::dev_read_u16(d.rx.drv + 2).unwrap()));
        let (f, ae) = pick_words(ctx, a, "rx");
        set_words(&rx, f, ae);
    }
    fn rx_words_set(&mut self, flags: u16, ae_rel: u16) {
        let (rx, a) = dev(|d| (d.rx, hal::dev_read_u16(d.rx.drv + 2).unwrap()));
        set_words(&rx, flags, a.wrapping_add(ae_rel));
    }

    /// bookkeeping after a receive-side call: has a pop happened, has a buffer been posted (monitor 1550), outstanding <= 1 (1557)
    fn after_rx(&mut self, ctx: &mut Ctx, evs: &[Ev], post_line: bool) { self.after_rx_adj(ctx, evs, post_line, 0) }
    /// `filled_since`: fills the device performed after the buffer was posted, within the same call
    fn after_rx_adj(&mut self, ctx: &mut Ctx, evs: &[Ev], post_line: bool, filled_since: u16) {
        if evs.iter().any(|e| matches!(e, Ev::Unshare { .. })) { dev(|d| d.filled_unpopped = false); }
        for e in evs { if let Ev::Share { vaddr, len, dir, .. } = e {
            if *vaddr != self.rx_vaddr || *len != PAGE || *dir != 1 { hal::violate(format!("receive share of {:#x}+{} dir {} is not the receive buffer", vaddr, len, dir)); } } }
        if evs.iter().any(|e| matches!(e, Ev::Share { .. })) {
            ctx.tr.note(if evs.iter().any(|e| matches!(e, Ev::Notify(0))) { "rx_post_notified" } else { "rx_post_not_notified" });
        }
        if post_line { self.post_line_adj(ctx, filled_since); }
    }
    fn post_line(&mut self, ctx: &mut Ctx) { self.post_line_adj(ctx, 0) }
    fn post_line_adj(&mut self, ctx: &mut Ctx, filled_since: u16) {
        let (ai, ui) = dev(|d| (hal::dev_read_u16(d.rx.drv + 2).unwrap(), d.rx_used.wrapping_sub(filled_since)));
        if ai != self.seen_avail { self.seen_avail = ai; self.mon(ctx, 1550, &[ai as u128, ui as u128], &[1]); ctx.tr.note("rx_buffer_posted"); }
    }
    fn outstanding_line(&mut self, ctx: &mut Ctx) {
        let (ai, ui) = dev(|d| (hal::dev_read_u16(d.rx.drv + 2).unwrap(), d.rx_used));
        self.mon(ctx, 1557, &[ai as u128, ui as u128], &[1]);
    }

    /// the device delivers a chunk between two calls
    fn device_fill(&mut self, ctx: &mut Ctx, chunk: Vec<u8>, claimed: Option<u32>) -> bool {
        let ok = dev(|d| d.rx_fill(&chunk, claimed));
        if ok {
            let c: Vec<u128> = chunk.iter().map(|b| *b as u128).collect();
            self.mon(ctx, 1551, &c, &[1]);
            self.undelivered += chunk.len();
            ctx.tr.note("device_fill_between_calls");
            if chunk.len() == PAGE { ctx.tr.note("chunk_full_page"); } else if chunk.len() == 1 { ctx.tr.note("chunk_one_byte"); }
            if ctx.rng.chance(1, 2) { self.st.borrow_mut().isr |= 1; }
        }
        ok
    }

    fn addr_of(evs: &[Ev]) -> u128 { evs.iter().find_map(|e| if let Ev::Share { paddr, .. } = e { Some(*paddr as u128) } else { None }).unwrap_or(0) }

    fn recv(&mut self, ctx: &mut Ctx, pop: bool) -> bool {
        CURQ.with(|c| *c.borrow_mut() = dev(|d| d.rx));
        let (ae, uf) = self.rx_env();
        let view = dev(|d| d.rx_view());
        let mark = hal::log_len();
        let r = { let c = &mut self.con; catch_unwind(AssertUnwindSafe(move || c.recv(pop))) };
        let evs = hal::log_since(mark);
        let mut i = vec![self.release as u128, pop as u128, Self::addr_of(&evs), ae, uf]; i.extend(view);
        let mut o: Vec<u128> = match &r { Ok(Ok(Some(b))) => vec![0, 1, *b as u128], Ok(Ok(None)) => vec![0, 0, 0], Ok(Err(e)) => vec![1, err_code(e), 0], Err(_) => vec![2, 0, 0] };
        o.extend(enc_cevs(&evs, 0, 0));
        ctx.tr.line(1501, &i, &o);
        self.after_rx(ctx, &evs, false);
        match &r {
            Ok(Ok(Some(b))) => { if !self.lean { self.mon(ctx, 1555, &[1], &[1]); } self.mon(ctx, 1552, &[pop as u128, *b as u128], &[1]); if pop { self.undelivered = self.undelivered.saturating_sub(1); }
                ctx.tr.note(if pop { "recv_pop_some" } else { "recv_peek_some" }); }
            Ok(Ok(None)) => { self.mon(ctx, 1555, &[0], &[1]); ctx.tr.note("recv_none"); }
            _ => { ctx.tr.note("recv_failed"); }
        }
        let popped_byte = pop && matches!(r, Ok(Ok(Some(_))));
        if popped_byte {
            // the property on device-visible memory: the last byte taken -> exactly one buffer posted again (whatever the
            // suppression words were); bytes left -> none posted.  Evaluated by the monitor against ITS record of the stream.
            let (ai, ui) = dev(|d| (hal::dev_read_u16(d.rx.drv + 2).unwrap(), hal::dev_read_u16(d.rx.dev + 2).unwrap()));
            self.mon(ctx, 1559, &[ai as u128, ui as u128], &[1]);
            if ai == ui.wrapping_add(1) { ctx.tr.note("recv_pop_reposted"); if ai == 0 || ui == 0xffff { ctx.tr.note("recv_pop_reposted_at_the_wrap"); } }
        }
        self.post_line(ctx);
        if !(self.lean && popped_byte) { self.outstanding_line(ctx); }
        matches!(r, Ok(Ok(_)))
    }

    fn read_ready(&mut self, ctx: &mut Ctx) -> bool {
        CURQ.with(|c| *c.borrow_mut() = dev(|d| d.rx));
        let view = dev(|d| d.rx_view());
        let mark = hal::log_len();
        let r = { let c = &mut self.con; catch_unwind(AssertUnwindSafe(move || embedded_io::ReadReady::read_ready(c))) };
        let evs = hal::log_since(mark);
        let mut o = enc_result(&r, |b| *b as u128).to_vec(); o.extend(enc_cevs(&evs, 0, 0));
        ctx.tr.line(1502, &view, &o);
        self.after_rx(ctx, &evs, true);
        if let Ok(Ok(b)) = &r { self.mon(ctx, 1555, &[*b as u128], &[1]); ctx.tr.note(if *b { "read_ready_true" } else { "read_ready_false" }); }
        self.outstanding_line(ctx);
        matches!(r, Ok(Ok(_)))
    }

    fn ack(&mut self, ctx: &mut Ctx, isr: u32) -> bool {
        CURQ.with(|c| *c.borrow_mut() = dev(|d| d.rx));
        self.st.borrow_mut().isr = isr;
        let view = dev(|d| d.rx_view());
        let mark = hal::log_len();
        let r = { let c = &mut self.con; catch_unwind(AssertUnwindSafe(move || c.ack_interrupt())) };
        let evs = hal::log_since(mark);
        let mut i = vec![isr as u128]; i.extend(view);
        let mut o = enc_result(&r, |b| *b as u128).to_vec(); o.extend(enc_cevs(&evs, 0, 0));
        ctx.tr.line(1503, &i, &o);
        self.after_rx(ctx, &evs, true);
        self.outstanding_line(ctx);
        ctx.tr.note("ack_interrupt");
        matches!(r, Ok(Ok(_)))
    }

    /// read (n = Some) or fill_buf (None); during the wait the device is idle for `idle` iterations, then delivers `chunk`
    fn blocking(&mut self, ctx: &mut Ctx, n: Option<usize>, idle: u32, chunk: Option<Vec<u8>>, claimed: Option<u32>) -> Option<Vec<u8>> {
        CURQ.with(|c| *c.borrow_mut() = dev(|d| d.rx));
        let (ae, uf) = self.rx_env();
        let planned_hang = chunk.is_none();
        dev(|d| { d.plan = Some(Plan { idle, chunk, claimed }); d.rx_spins = 0; d.rx_views.clear(); d.fired = None; d.gave_up = false; });
        let mark = hal::log_len();
        let r: std::thread::Result<Result<Vec<u8>, virtio_drivers::Error>> = { let c = &mut self.con; match n {
            Some(n) => catch_unwind(AssertUnwindSafe(move || { let mut b = vec![0xEEu8; n]; embedded_io::Read::read(c, &mut b).map(|k| { b.truncate(k); b }) })),
            None => catch_unwind(AssertUnwindSafe(move || embedded_io::BufRead::fill_buf(c).map(|s| s.to_vec()))) } };
        let evs = hal::log_since(mark);
        let (spins, views, fired, gave_up) = dev(|d| { d.plan = None; (d.rx_spins, std::mem::take(&mut d.rx_views), d.fired.take(), d.gave_up) });
        let mut i = match n { Some(n) => vec![self.release as u128, n as u128], None => vec![] };
        i.extend([Self::addr_of(&evs), ae, uf, views.len() as u128]);
        for v in &views { i.extend(v.iter().cloned()); }
        let mut o: Vec<u128> = match &r {
            Ok(Ok(b)) => { let mut o = vec![0, 0, spins as u128, b.len() as u128]; o.extend(b.iter().map(|x| *x as u128)); o }
            Ok(Err(e)) => vec![1, err_code(e), 0, 0],
            Err(_) if gave_up => vec![4, 0, 0, 0],
            Err(_) => vec![2, 0, 0, 0] };
        o.extend(enc_cevs(&evs, 0, 0));
        ctx.tr.line(if n.is_some() { 1504 } else { 1505 }, &i, &o);
        // order of what happened: post (poll_retrieve, first), fill (during the wait), hand-over
        self.after_rx_adj(ctx, &evs, true, fired.is_some() as u16);
        if let Some(c) = &fired {
            let cv: Vec<u128> = c.iter().map(|b| *b as u128).collect();
            self.mon(ctx, 1551, &cv, &[1]); self.undelivered += c.len();
            ctx.tr.note("device_fill_during_wait"); ctx.tr.note(&format!("fill_at_spin_{}", idle.min(4)));
        }
        if !(planned_hang && gave_up) && n != Some(0) {
            self.mon(ctx, 1558, &[gave_up as u128, match &r { Ok(Ok(_)) => 0, Ok(Err(_)) => 1, Err(_) => 2 }], &[1]);
        } else if gave_up { ctx.tr.note("planned_wait_without_data"); }
        let res = match r {
            Ok(Ok(b)) => {
                if n.is_some() { if n != Some(0) { let mut m = vec![1u128]; m.extend(b.iter().map(|x| *x as u128)); self.mon(ctx, 1552, &m, &[1]); }
                    self.undelivered = self.undelivered.saturating_sub(b.len()); ctx.tr.note("read_ok"); if Some(b.len()) < n { ctx.tr.note("read_short"); } }
                else { let m: Vec<u128> = b.iter().map(|x| *x as u128).collect(); self.mon(ctx, 1554, &m, &[1]); ctx.tr.note("fill_buf_ok"); }
                Some(b)
            }
            _ => None,
        };
        self.outstanding_line(ctx);
        res
    }

    fn consume(&mut self, ctx: &mut Ctx, amt: usize) -> bool {
        let r = { let c = &mut self.con; catch_unwind(AssertUnwindSafe(move || embedded_io::BufRead::consume(c, amt))) };
        ctx.tr.line(1506, &[self.release as u128, amt as u128], &[if r.is_ok() { 0 } else { 2 }, 0]);
        if r.is_ok() { self.mon(ctx, 1553, &[amt as u128], &[1]); self.undelivered = self.undelivered.saturating_sub(amt); ctx.tr.note("consume_ok"); }
        else { ctx.tr.note("consume_panic"); }
        if amt > (1usize << 32) { ctx.tr.note("consume_huge"); }
        r.is_ok()
    }

    /// kind 0 = send(byte), 1 = send_bytes, 2 = embedded_io::Write::write, 3 = fmt::Write::write_str
    fn send(&mut self, ctx: &mut Ctx, kind: u8, bytes: Vec<u8>, policy: TxPolicy) -> bool {
        CURQ.with(|c| *c.borrow_mut() = dev(|d| d.tx));
        // a device that waits for the notification must have asked for it (under either feature setting); a polling device
        // has any words at all: set, clear, event index at the next entry, behind, ahead, far ahead
        let (txq, a) = dev(|d| (d.tx, hal::dev_read_u16(d.tx.drv + 2).unwrap()));
        let (f, e) = match policy { TxPolicy::OnNotify => asking_words(ctx, a), TxPolicy::Poll(_) => pick_words(ctx, a, "tx") };
        set_words(&txq, f, e);
        dev(|d| { d.tx_policy = policy; d.tx_spins = 0; d.tx_obs.clear(); d.tx_chains.clear(); d.gave_up = false; });
        let (ae, uf) = get_words(&txq);
        let mark = hal::log_len();
        let r: std::thread::Result<Result<usize, virtio_drivers::Error>> = { let c = &mut self.con; let b = &bytes; match kind {
            0 => catch_unwind(AssertUnwindSafe(move || c.send(b[0]).map(|_| 0))),
            1 => catch_unwind(AssertUnwindSafe(move || c.send_bytes(b).map(|_| 0))),
            2 => catch_unwind(AssertUnwindSafe(move || embedded_io::Write::write(c, b))),
            _ => catch_unwind(AssertUnwindSafe(move || core::fmt::Write::write_str(c, std::str::from_utf8(b).unwrap()).map(|_| 0).map_err(|_| virtio_drivers::Error::IoError))) } };
        let evs = hal::log_since(mark);
        let (mut obs, chains, gave_up, spins) = dev(|d| (std::mem::take(&mut d.tx_obs), std::mem::take(&mut d.tx_chains), d.gave_up, d.tx_spins));
        // the evaluation of can_pop() that ended the loop saw the used index as it is now
        if !gave_up { obs.push(dev(|d| hal::dev_read_u16(d.tx.dev + 2).unwrap())); }
        let view = dev(|d| d.tx_view());
        let mut i = vec![bytes.len() as u128, Self::addr_of(&evs), ae, uf, obs.len() as u128];
        i.extend(obs.iter().map(|x| *x as u128)); i.extend(view);
        let okv = if kind == 2 { bytes.len() as u128 } else { spins as u128 };
        let mut o: Vec<u128> = match &r { Ok(Ok(_)) => vec![0, okv], Ok(Err(e)) => vec![1, err_code(e)], Err(_) if gave_up => vec![4, 0], Err(_) => vec![2, 0] };
        o.extend(enc_cevs(&evs, 1, 0));
        ctx.tr.line(if kind == 2 { 1508 } else { 1507 }, &i, &o);
        for e in &evs { if let Ev::Share { len, dir, .. } = e { if *len != bytes.len() || *dir != 0 { hal::violate(format!("transmit share len {} dir {} for a {}-byte send", len, dir, bytes.len())); } } }
        // a send of at least one byte to this device (it serves the queue when told, having asked, or by polling) returns Ok;
        // in the lean scenario the line is written only when it fails (1556 below is written exactly for the sends that returned Ok)
        if !bytes.is_empty() && !(self.lean && matches!(r, Ok(Ok(_)))) {
            self.mon(ctx, 1560, &[gave_up as u128, match &r { Ok(Ok(_)) => 0, Ok(Err(_)) => 1, Err(_) => 2 }], &[1]);
        }
        if matches!(r, Ok(Ok(_))) && !bytes.is_empty() {
            // what the device read from the published chain must be the caller's bytes, one readable element
            let mut m = vec![bytes.len() as u128]; m.extend(bytes.iter().map(|b| *b as u128));
            match chains.as_slice() { [(b, nel, nw)] => { m.push(b.len() as u128); m.extend(b.iter().map(|x| *x as u128)); m.extend([*nel as u128, *nw as u128]); }
                                      _ => { m.extend([0, chains.len() as u128 + 100, 0]); } }
            self.mon(ctx, 1556, &m, &[1]);
            ctx.tr.note(&format!("send_kind_{}", kind)); ctx.tr.note(match policy { TxPolicy::OnNotify => "tx_notify_driven", TxPolicy::Poll(_) => "tx_polling" });
            ctx.tr.note(if evs.iter().any(|e| matches!(e, Ev::Notify(1))) { "tx_notified" } else { "tx_not_notified" });
            if a == 0xffff { ctx.tr.note("send_across_the_wrap"); }
        } else { ctx.tr.note("send_not_ok"); }
        matches!(r, Ok(Ok(_)))
    }

    fn size(&mut self, ctx: &mut Ctx, bump_at: Option<usize>) {
        // replicate ModelTransport's answers: generation and config bytes, with one scheduled change
        let (mut gen, mut cfg, acc0) = { let s = self.st.borrow(); (s.config_gen, s.config.clone(), s.cfg_accesses) };
        let newcfg = { let mut c = cfg.clone(); for b in c.iter_mut().take(4) { *b = b.wrapping_add(1); } c };
        if let Some(k) = bump_at { self.st.borrow_mut().cfg_schedule.push((acc0 + k, newcfg.clone(), true)); }
        let has_size = { let s = self.st.borrow(); s.driver_features & 1 != 0 };
        let mut rounds: Vec<u128> = vec![]; let mut nr = 0u128;
        if has_size {
            let mut acc = acc0;
            let tick = |acc: &mut usize, gen: &mut u32, cfg: &mut Vec<u8>| { *acc += 1; if Some(*acc - acc0) == bump_at { *cfg = newcfg.clone(); *gen = gen.wrapping_add(1); } };
            loop {
                tick(&mut acc, &mut gen, &mut cfg); let before = gen;
                tick(&mut acc, &mut gen, &mut cfg);
                let cols = if cfg.len() >= 2 { Ok(u16::from_le_bytes([cfg[0], cfg[1]])) } else { Err(9u128) };
                let rows = if cols.is_ok() { tick(&mut acc, &mut gen, &mut cfg); if cfg.len() >= 4 { Ok(u16::from_le_bytes([cfg[2], cfg[3]])) } else { Err(9u128) } } else { Ok(0) };
                tick(&mut acc, &mut gen, &mut cfg); let after = gen;
                rounds.extend([before as u128, cols.is_err() as u128, match cols { Ok(v) => v as u128, Err(e) => e }, rows.is_err() as u128, match rows { Ok(v) => v as u128, Err(e) => e }, after as u128]);
                nr += 1;
                if before == after || nr > 8 { break; }
            }
        }
        let mark = hal::log_len();
        let r = { let c = &self.con; catch_unwind(AssertUnwindSafe(move || c.size())) };
        let evs = hal::log_since(mark);
        let mut i = vec![nr]; i.extend(rounds);
        let mut o: Vec<u128> = match &r { Ok(Ok(Some(s))) => vec![0, 1, s.columns as u128, s.rows as u128], Ok(Ok(None)) => vec![0, 0, 0, 0], Ok(Err(e)) => vec![1, err_code(e), 0, 0], Err(_) => vec![2, 0, 0, 0] };
        o.extend(enc_cevs(&evs, 0, 0));
        ctx.tr.line(1509, &i, &o);
        ctx.tr.note("size");
    }

    fn emergency_write(&mut self, ctx: &mut Ctx, chr: u8) {
        let fits = self.st.borrow().config.len() >= 12;
        let mark = hal::log_len();
        let r = { let c = &mut self.con; catch_unwind(AssertUnwindSafe(move || c.emergency_write(chr))) };
        let evs = hal::log_since(mark);
        let val = { let s = self.st.borrow(); if s.config.len() >= 12 { u32::from_le_bytes(s.config[8..12].try_into().unwrap()) as u128 } else { chr as u128 } };
        let mut o = enc_result(&r, |_| 0).to_vec(); o.extend(enc_cevs(&evs, 0, val));
        ctx.tr.line(1510, &[chr as u128, if fits { 0 } else { 9 }], &o);
        ctx.tr.note("emergency_write");
    }

    fn finish(self, ctx: &mut Ctx) {
        let Rig { con, st, .. } = self;
        st.borrow_mut().on_notify = None;
        drop(con);
        virtio_drivers::verif::set_observer(None);
        DEV.with(|d| *d.borrow_mut() = None);
        CURQ.with(|c| *c.borrow_mut() = QAddr::default());
        ledger_line(ctx);
    }
}

fn chunk_len(ctx: &mut Ctx, small: bool) -> usize {
    if small { return 1 + ctx.rng.below(12) as usize; }
    match ctx.rng.below(10) { 0 => 1, 1 => PAGE, 2 => PAGE - 1, 3 => 2, 4 | 5 => 1 + ctx.rng.below(16) as usize, 6 => 255 + ctx.rng.below(3) as usize, _ => 1 + ctx.rng.below(PAGE as u64) as usize }
}
fn read_len(ctx: &mut Ctx, avail_hint: usize) -> usize {
    match ctx.rng.below(9) { 0 => 0, 1 => 1, 2 => avail_hint.max(1), 3 => avail_hint + 1, 4 => avail_hint.saturating_sub(1).max(1), 5 => PAGE, 6 => PAGE + 1, 7 => 2 * PAGE + 3, _ => 1 + ctx.rng.below(40) as usize }
}
fn consume_amt(ctx: &mut Ctx, avail: usize) -> usize {
    match ctx.rng.below(12) {
        0 => 0, 1 | 2 => avail, 3 => avail + 1, 4 => avail.saturating_sub(1), 5 => 1,
        6 => usize::MAX, 7 => usize::MAX - ctx.rng.below(6) as usize, 8 => ctx.rng.boundary(64) as usize,
        9 => (1usize << 63) + ctx.rng.below(3) as usize, _ => ctx.rng.below(avail as u64 + 1) as usize }
}

/// a random interleaving of every receive-side call, device fills at random moments, and sends
fn history(ctx: &mut Ctx, feats: u64, nops: usize, small_chunks: bool, cfg_len: usize) {
    let w0 = pick_words(ctx, 0, "rx");
    let mut rig = match Rig::new(ctx, feats, cfg_len, true, w0) { Some(r) => r, None => { ledger_line(ctx); return; } };
    let mut last_fill_buf: Option<usize> = None;
    for _ in 0..nops {
        // the device acts between two calls: it may change its mind about notifications of the receive queue
        // (the transmit queue's words are chosen, independently, at every send)
        if ctx.rng.chance(1, 2) { rig.rx_words(ctx); }
        if ctx.rng.chance(2, 5) { let n = chunk_len(ctx, small_chunks); let c = ctx.rng.bytes(n); rig.device_fill(ctx, c, None); }
        let ok = match ctx.rng.below(100) {
            0..=13 => rig.recv(ctx, false),
            14..=33 => rig.recv(ctx, true),
            34..=41 => rig.read_ready(ctx),
            42..=47 => { let isr = ctx.rng.below(4) as u32; rig.ack(ctx, isr) }
            48..=65 => {
                let n = read_len(ctx, rig.undelivered);
                let idle = ctx.rng.below(4) as u32; let cl = chunk_len(ctx, small_chunks); let c = ctx.rng.bytes(cl);
                rig.blocking(ctx, Some(n), idle, Some(c), None).is_some()
            }
            66..=75 => {
                let idle = ctx.rng.below(3) as u32; let cl = chunk_len(ctx, small_chunks); let c = ctx.rng.bytes(cl);
                let r = rig.blocking(ctx, None, idle, Some(c), None);
                last_fill_buf = r.as_ref().map(|b| b.len());
                if let Some(b) = &r { if ctx.rng.chance(3, 4) { let k = match ctx.rng.below(4) { 0 => b.len(), 1 => 0, 2 => 1.min(b.len()), _ => ctx.rng.below(b.len() as u64 + 1) as usize }; rig.consume(ctx, k); } }
                r.is_some()
            }
            76..=85 => { let a = consume_amt(ctx, last_fill_buf.unwrap_or(rig.undelivered).min(rig.undelivered)); rig.consume(ctx, a); true }
            86..=95 => {
                let kind = ctx.rng.below(4) as u8;
                let n = if kind == 0 { 1 } else { match ctx.rng.below(6) { 0 => 1, 1 => PAGE, 2 => if kind == 2 { 0 } else { 2 }, 3 => 5000, _ => 1 + ctx.rng.below(64) as usize } };
                let bytes = if kind == 3 { (0..n).map(|_| b'a' + ctx.rng.below(26) as u8).collect() } else { ctx.rng.bytes(n) };
                let pol = if ctx.rng.chance(1, 2) { TxPolicy::OnNotify } else { TxPolicy::Poll(1 + ctx.rng.below(3) as u32) };
                rig.send(ctx, kind, bytes, pol); true
            }
            96..=97 => { let b = if ctx.rng.chance(1, 3) { Some(1 + ctx.rng.below(4) as usize) } else { None }; rig.size(ctx, b); true }
            _ => { let ch = ctx.rng.next() as u8; rig.emergency_write(ctx, ch); true }
        };
        if !ok { break; }
    }
    // drain: everything the device wrote must come out, in order
    for _ in 0..3 {
        if rig.undelivered == 0 { break; }
        if rig.blocking(ctx, Some(2 * PAGE), 0, Some(vec![0x5a]), None).is_none() { break; }
    }
    rig.recv(ctx, false);
    rig.finish(ctx);
}

/// directed sequences: the call patterns of the crate's tests, the boundaries of every comparison, and
/// the interleavings the tests never visit
fn directed(ctx: &mut Ctx, feats: u64) {
    let mut rig = match Rig::new(ctx, feats, 12, true, (0, 0)) { Some(r) => r, None => { ledger_line(ctx); return; } };
    // nothing yet
    rig.recv(ctx, false); rig.recv(ctx, true); rig.ack(ctx, 0); rig.ack(ctx, 1); rig.read_ready(ctx);
    // one byte, interrupt, peek, pop, empty again (test `receive`)
    rig.device_fill(ctx, vec![42], None); rig.ack(ctx, 1); rig.recv(ctx, false); rig.recv(ctx, true); rig.recv(ctx, true);
    // six bytes in two reads (test `read`), then fill_buf + consume + read (test `bufread`)
    rig.device_fill(ctx, vec![42, 43, 44, 45, 46, 47], None); rig.blocking(ctx, Some(3), 0, Some(vec![9]), None); rig.blocking(ctx, Some(3), 0, Some(vec![9]), None);
    rig.read_ready(ctx);
    rig.blocking(ctx, None, 1, Some(vec![1, 2, 3, 4, 5, 6]), None); rig.consume(ctx, 3); rig.blocking(ctx, Some(3), 0, Some(vec![9]), None);
    // partial read, peek, pop, consume less than available, empty poll, consume 0 on empty
    rig.blocking(ctx, Some(2), 2, Some(vec![10, 11, 12, 13, 14]), None); rig.recv(ctx, false); rig.recv(ctx, true);
    rig.blocking(ctx, None, 0, Some(vec![9]), None); rig.consume(ctx, 1); rig.recv(ctx, false); rig.consume(ctx, 1); rig.consume(ctx, 0);
    rig.read_ready(ctx); rig.recv(ctx, true); rig.consume(ctx, 0); rig.consume(ctx, 1);
    // after everything has been consumed through read/consume nothing is posted until the next recv(pop)/read/fill_buf
    rig.device_fill(ctx, vec![77], None); rig.read_ready(ctx); rig.recv(ctx, false);
    rig.blocking(ctx, Some(1), 0, Some(vec![20, 21]), None); rig.blocking(ctx, Some(1), 0, Some(vec![9]), None);
    // a full page, read in one, then one more than a page requested
    rig.blocking(ctx, Some(PAGE + 1), 0, Some((0..PAGE).map(|i| i as u8).collect()), None);
    rig.blocking(ctx, Some(PAGE), 3, Some((0..PAGE).map(|i| (i * 7) as u8).collect()), None);
    rig.blocking(ctx, Some(0), 0, Some(vec![1]), None);
    // consume around every boundary with three bytes unread and the cursor at 2
    rig.blocking(ctx, None, 0, Some(vec![30, 31, 32, 33, 34]), None); rig.consume(ctx, 2);
    for a in [4usize, usize::MAX, usize::MAX - 1, usize::MAX - 2, (1usize << 63), (1usize << 32), 3] {
        rig.consume(ctx, a);
        rig.blocking(ctx, None, 0, Some(vec![35, 36, 37]), None);
    }
    rig.blocking(ctx, Some(8), 0, Some(vec![35, 36, 37]), None);
    // sends of every kind
    rig.send(ctx, 0, vec![b'Q'], TxPolicy::OnNotify); rig.send(ctx, 1, b"Hello console!\n".to_vec(), TxPolicy::Poll(2));
    rig.send(ctx, 2, vec![], TxPolicy::OnNotify); rig.send(ctx, 1, vec![], TxPolicy::OnNotify); rig.send(ctx, 2, vec![1, 2, 3], TxPolicy::Poll(1)); rig.send(ctx, 3, b"fmt".to_vec(), TxPolicy::OnNotify);
    rig.size(ctx, None); rig.size(ctx, Some(2)); rig.emergency_write(ctx, 42);
    rig.blocking(ctx, Some(2 * PAGE), 0, Some(vec![1]), None);
    rig.recv(ctx, false);
    rig.finish(ctx);
}

/// a device that breaks the rules (length 0, length above the buffer) and a wait that gets no data:
/// the model follows the code; no stream monitor applies
fn malformed(ctx: &mut Ctx, feats: u64, which: u32) {
    let mut rig = match Rig::new(ctx, feats, 12, false, (0, 0)) { Some(r) => r, None => { ledger_line(ctx); return; } };
    match which {
        0 => { // used length 0: assert_ne!(len, 0)
            let ok = dev(|d| d.rx_fill(&[1, 2, 3], Some(0)));
            if ok { rig.recv(ctx, true); }
        }
        1 => { // used length above the buffer: indexing past queue_buf_rx panics
            let ok = dev(|d| d.rx_fill(&[7u8; 16], Some(PAGE as u32 + 2)));
            if ok { rig.blocking(ctx, Some(PAGE), 0, None, None); rig.blocking(ctx, Some(8), 0, None, None); }
        }
        2 => { // fill_buf on a length above the buffer
            let ok = dev(|d| d.rx_fill(&[7u8; 16], Some(PAGE as u32 + 1)));
            if ok { rig.blocking(ctx, None, 0, None, None); }
        }
        _ => { // a wait during which the device stays silent does not return
            rig.blocking(ctx, Some(4), 0, None, None);
            rig.device_fill(ctx, vec![1, 2], None);
            rig.blocking(ctx, Some(4), 0, None, None);
        }
    }
    rig.finish(ctx);
}

/// the witness of finding C15_consume_overflow (corpus/findings/C15_consume_overflow.trace; Coq: stream_prefix_refuted):
/// three bytes received, two read, then consume(usize::MAX). Before the repair the release profile accepted it
/// (cursor + amt wrapped), moved the cursor back by one and handed 2 3 out a second time.
fn finding_consume_overflow(ctx: &mut Ctx) {
    let mut rig = match Rig::new(ctx, 0, 12, true, (0, 0)) { Some(r) => r, None => { ledger_line(ctx); return; } };
    rig.device_fill(ctx, vec![1, 2, 3], None);
    rig.blocking(ctx, Some(2), 0, Some(vec![9]), None);
    rig.consume(ctx, usize::MAX);
    rig.blocking(ctx, Some(5), 0, Some(vec![9]), None);
    rig.finish(ctx);
}

/// the receive path while the device does not want to be told about new buffers (and while it does), `new` included:
/// every way the driver re-posts the buffer (recv(pop) of the last byte, read, fill_buf) under every kind of words.
/// `mode` 0: used.flags = 1 and the event index far ahead (suppressed under either feature setting); 1: flag set but the
/// event index at the next entry (suppressed only without EVENT_IDX); 2: flag clear, event index one ahead (suppressed
/// only with EVENT_IDX); 3: asks under both.
fn directed_suppressed(ctx: &mut Ctx, feats: u64, mode: u32) {
    let (flags, rel): (u16, u16) = match mode { 0 => (1, 0x4000), 1 => (1, 0), 2 => (0, 1), _ => (0, 0) };
    let mut rig = match Rig::new(ctx, feats, 12, true, (flags, rel)) { Some(r) => r, None => { ledger_line(ctx); return; } };
    // the buffer posted by `new` (under those words) takes the first chunk
    rig.device_fill(ctx, vec![b'a', b'b'], None);
    rig.rx_words_set(flags, rel);
    rig.recv(ctx, true);
    // taking the last byte posts the buffer again, notified or not
    rig.recv(ctx, true); rig.recv(ctx, true);
    // the device fills the buffer it found (by polling or by being told)
    rig.device_fill(ctx, vec![b'c', b'd'], None);
    rig.recv(ctx, false); rig.recv(ctx, true); rig.rx_words_set(flags, rel); rig.recv(ctx, true); rig.recv(ctx, true);
    rig.device_fill(ctx, vec![b'e'], None); rig.ack(ctx, 1); rig.rx_words_set(flags, rel); rig.recv(ctx, true); rig.recv(ctx, true);
    // drained through read: nothing is posted until the next read / fill_buf, which post under the same words
    rig.device_fill(ctx, vec![1, 2, 3], None); rig.blocking(ctx, Some(8), 0, None, None);
    rig.rx_words_set(flags, rel); rig.blocking(ctx, Some(2), 1, Some(vec![4, 5, 6]), None); rig.recv(ctx, true);
    rig.rx_words_set(flags, rel); rig.read_ready(ctx);
    rig.device_fill(ctx, vec![7], None); rig.read_ready(ctx); rig.blocking(ctx, None, 0, None, None); rig.consume(ctx, 1);
    rig.rx_words_set(flags, rel); rig.blocking(ctx, None, 2, Some(vec![8, 9]), None); rig.consume(ctx, 1); rig.rx_words_set(flags, rel); rig.recv(ctx, true);
    // the words change while a buffer is outstanding: no effect until the next post
    rig.rx_words_set(flags ^ 1, rel ^ 1); rig.device_fill(ctx, vec![10], None); rig.recv(ctx, true); rig.recv(ctx, true);
    rig.device_fill(ctx, vec![11, 12], None); rig.recv(ctx, true); rig.rx_words_set(flags, rel); rig.recv(ctx, true);
    rig.device_fill(ctx, vec![13], None); rig.recv(ctx, true);
    // sends under the same kinds of words on the transmit queue
    rig.send(ctx, 0, vec![b'x'], TxPolicy::Poll(1)); rig.send(ctx, 1, vec![b'y', b'z'], TxPolicy::OnNotify); rig.send(ctx, 2, vec![1, 2, 3], TxPolicy::Poll(2));
    rig.recv(ctx, false);
    rig.finish(ctx);
}

fn prune_ledger() { hal::LEDGER.with(|l| { let mut l = l.borrow_mut(); l.shares.retain(|s| s.live); l.log.clear(); }); }

/// Both queues across the 16-bit wrap of their free-running indices: WRAP_CHUNKS one- or two-byte chunks received through
/// every receive call and as many sends, one line per operation (the model walks the same 65 600 steps).  The loop is
/// bounded by its own count; an iteration at the end of which the chunk has not come out ends the scenario (the
/// monitors of that iteration have said why), so a driver that stops delivering cannot keep it running.
const WRAP_CHUNKS: usize = 65_600;
fn wrap(ctx: &mut Ctx, feats: u64) {
    let w0 = pick_words(ctx, 0, "rx");
    let mut rig = match Rig::new(ctx, feats, 12, true, w0) { Some(r) => r, None => { ledger_line(ctx); return; } };
    rig.lean = true;
    let mut done = 0usize;
    for i in 0..WRAP_CHUNKS {
        if i % 64 == 0 { prune_ledger(); }
        if ctx.rng.chance(1, 3) { rig.rx_words(ctx); }
        let len = if ctx.rng.chance(1, 8) { 2 } else { 1 };
        let chunk = ctx.rng.bytes(len);
        let posted = dev(|d| d.rx_posted());
        let mut ok = true;
        if posted {
            if !rig.device_fill(ctx, chunk, None) { ctx.tr.note("wrap_fill_refused"); break; }
            match ctx.rng.below(16) {
                0..=10 => { if ctx.rng.chance(1, 16) { ok &= rig.recv(ctx, false); } for _ in 0..len { ok &= rig.recv(ctx, true); } }
                11 | 12 => { let n = if ctx.rng.chance(1, 2) { len } else { 4 }; ok &= rig.blocking(ctx, Some(n), 0, None, None).is_some(); }
                13 => { ok &= rig.blocking(ctx, None, 0, None, None).is_some(); if ok { ok &= rig.consume(ctx, len); } }
                14 => { ok &= rig.read_ready(ctx); for _ in 0..len { ok &= rig.recv(ctx, true); } }
                _ => { let isr = 1 + 2 * ctx.rng.below(2) as u32; ok &= rig.ack(ctx, isr); for _ in 0..len { ok &= rig.recv(ctx, true); } }
            }
        } else {
            // a read / consume took the last byte, so nothing is posted: read / fill_buf post it and the device fills during the wait
            // (mostly two bytes of which read / consume take one: the recv(pop) of the other one below posts the buffer again)
            let idle = ctx.rng.below(2) as u32;
            let chunk = if ctx.rng.chance(3, 4) { ctx.rng.bytes(2) } else { chunk };
            if ctx.rng.chance(1, 2) { ok &= rig.blocking(ctx, Some(1), idle, Some(chunk), None).is_some(); }
            else { ok &= rig.blocking(ctx, None, idle, Some(chunk), None).is_some(); if ok { ok &= rig.consume(ctx, 1); } }
        }
        // whatever is left of the chunk comes out byte by byte (each recv(pop) bounded, at most two bytes are left)
        for _ in 0..2 { if rig.undelivered == 0 || !ok { break; } ok &= rig.recv(ctx, true); }
        if !ok || rig.undelivered != 0 { ctx.tr.note("wrap_receive_made_no_progress"); break; }
        // the transmit queue advances by one entry per send
        let kind = *ctx.rng.pick(&[0u8, 0, 1, 1, 2, 3]);
        let n = if kind == 0 { 1 } else { 1 + ctx.rng.below(2) as usize };
        let bytes = if kind == 3 { (0..n).map(|_| b'a' + ctx.rng.below(26) as u8).collect() } else { ctx.rng.bytes(n) };
        let pol = if ctx.rng.chance(1, 2) { TxPolicy::OnNotify } else { TxPolicy::Poll(1 + ctx.rng.below(2) as u32) };
        if !rig.send(ctx, kind, bytes, pol) { ctx.tr.note("wrap_send_failed"); break; }
        done += 1;
    }
    ctx.tr.note_n("wrap_iterations_completed", done as u64);
    let (ra, ta) = dev(|d| (hal::dev_read_u16(d.rx.drv + 2).unwrap(), hal::dev_read_u16(d.tx.drv + 2).unwrap()));
    if done == WRAP_CHUNKS && (ra as usize) < WRAP_CHUNKS - 65_536 + 8 && (ta as usize) == WRAP_CHUNKS - 65_536 { ctx.tr.note("wrap_both_queues_went_round"); }
    rig.recv(ctx, false);
    rig.finish(ctx);
}

pub fn run(ctx: &mut Ctx) {
    ctx.tr.scenario("c15-finding-consume-overflow"); finding_consume_overflow(ctx);
    let all: u64 = (1 << 28) | (1 << 29) | (1 << 32) | 7;
    let featsets = [0u64, 1 << 29, 1 << 28, all, u64::MAX, 5];
    for (i, f) in featsets.iter().enumerate() { ctx.tr.scenario(&format!("c15-directed-f{}", i)); directed(ctx, *f); }
    C15_LEGACY.with(|l| l.set(true));
    for (i, f) in featsets.iter().enumerate() { ctx.tr.scenario(&format!("c15-legacy-directed-f{}", i)); directed(ctx, *f); }
    for (i, f) in featsets.iter().enumerate().take(2) { ctx.tr.scenario(&format!("c15-legacy-suppress-f{}", i)); directed_suppressed(ctx, *f, 0); }
    C15_LEGACY.with(|l| l.set(false));
    for (i, f) in featsets.iter().enumerate() { for mode in 0..4 { ctx.tr.scenario(&format!("c15-suppress-f{}-m{}", i, mode)); directed_suppressed(ctx, *f, mode); } }
    let nh = ctx.budget(36, 12);
    for h in 0..nh {
        let f = featsets[(h % featsets.len() as u64) as usize];
        let small = h % 3 != 0;
        let cfg_len = match h % 5 { 0 => 2, 1 => 0, _ => 12 };
        ctx.tr.scenario(&format!("c15-history-h{}-f{}-{}", h, h % featsets.len() as u64, if small { "small" } else { "page" }));
        let nops = if small { 90 } else { 40 };
        history(ctx, f, nops, small, cfg_len);
    }
    for w in 0..4 { for (i, f) in [0u64, all].iter().enumerate() { ctx.tr.scenario(&format!("c15-malformed-{}-f{}", w, i)); malformed(ctx, *f, w); } }
    // the wrap: one feature combination per run, a different one in the two profiles (both run on every check)
    let wf = [0u64, 1 << 29, 1 << 28, all];
    let k = (ctx.rng.below(4) as usize + ctx.release as usize) % 4;
    ctx.tr.scenario(&format!("c15-wrap-f{}", k)); wrap(ctx, wf[k]);
}
