//! Queue rig: the real `VirtQueue<LedgerHal, N>` driven by generated histories against a reference
//! split-virtqueue device that touches queue memory only through device addresses (ledger-resolved).
//! Produces the trace lines of kinds 100..159 (see coq/theories/Extract/QueueIO.v).
use crate::hal::{self, Ev, LedgerHal};
use crate::scen::common::*;
use crate::tport::{ModelTransport, TState};
use crate::Ctx;
use std::cell::RefCell;
use std::collections::HashMap;
use std::panic::{catch_unwind, AssertUnwindSafe};
use std::rc::Rc;
use virtio_drivers::queue::VirtQueue;
use virtio_drivers::transport::DeviceType;
use virtio_drivers::verif::Event;

/// Private driver state of a queue, read through the cfg-guarded hooks of /repo: `verif_snapshot` in the default build; in the
/// alloc-less build (no `Vec` in the crate) the field-wise hooks of corpus/proposals/noalloc_hook.diff, which `./check` detects
/// in the checkout and announces with the harness feature `na-hooks`. Without them: no private-state lines, no pre-set indices.
#[derive(Clone, PartialEq, Eq, Debug)]
pub struct Snap { pub num_used: u16, pub free_head: u16, pub avail_idx: u16, pub last_used_idx: u16,
    pub shadow: Vec<(u64, u32, u16, u16)>, pub indirect: Vec<bool> }
pub const HAVE_HOOKS: bool = cfg!(any(feature = "alloc", feature = "na-hooks"));
/// the queue really uses indirect tables only in the build with `alloc` (VirtQueue::new ignores the request otherwise)
pub const HAVE_INDIRECT: bool = cfg!(feature = "alloc");
#[cfg(feature = "alloc")]
pub fn snap<const N: usize>(q: &VirtQueue<LedgerHal, N>) -> Option<Snap> {
    let s = q.verif_snapshot();
    Some(Snap { num_used: s.num_used, free_head: s.free_head, avail_idx: s.avail_idx, last_used_idx: s.last_used_idx, shadow: s.shadow, indirect: s.indirect })
}
#[cfg(all(not(feature = "alloc"), feature = "na-hooks"))]
pub fn snap<const N: usize>(q: &VirtQueue<LedgerHal, N>) -> Option<Snap> {
    let (num_used, free_head, avail_idx, last_used_idx) = q.verif_scalars();
    Some(Snap { num_used, free_head, avail_idx, last_used_idx, shadow: (0..N).map(|i| q.verif_shadow_desc(i)).collect(), indirect: vec![false; N] })
}
#[cfg(all(not(feature = "alloc"), not(feature = "na-hooks")))]
pub fn snap<const N: usize>(_q: &VirtQueue<LedgerHal, N>) -> Option<Snap> { None }
#[cfg(any(feature = "alloc", feature = "na-hooks"))]
pub fn set_indices<const N: usize>(q: &mut VirtQueue<LedgerHal, N>, start: u16) { q.verif_set_indices(start); }
#[cfg(all(not(feature = "alloc"), not(feature = "na-hooks")))]
pub fn set_indices<const N: usize>(_q: &mut VirtQueue<LedgerHal, N>, _start: u16) { panic!("no index hook in this build"); }
/// the starting index a history can really have in this build
pub fn eff_start(start: u16) -> u16 { if HAVE_HOOKS { start } else { 0 } }

#[derive(Clone, Copy, Default)]
pub struct QAddr { pub desc: u64, pub drv: u64, pub dev: u64, pub size: usize }
thread_local! {
    pub static CURQ: RefCell<QAddr> = RefCell::new(QAddr::default());
    pub static BUFIDS: RefCell<HashMap<usize, u64>> = RefCell::new(HashMap::new());
    /// called at every device-visible store (C02 monitor); returns false if the device-side invariant is broken
    pub static STORE_CB: RefCell<Option<Box<dyn FnMut(&Ev)>>> = RefCell::new(None);
}

/// C02 monitor state: what a device that looks at queue memory at ANY instant must find.
pub struct C02State {
    pub a: QAddr,
    pub start: u16,
    /// the device has fetched every entry with sequence number below this
    pub cursor_seq: u64,
    /// published entries: (sequence number, token, expected (addr, len, writable) elements)
    pub entries: Vec<(u64, u16, Vec<(u64, u32, bool)>)>,
    /// the submission in progress: its sequence number and its buffers (vaddr, len, writable)
    pub inprogress: Option<(u64, Vec<(usize, u32, bool)>)>,
    pub next_seq: u64,
    pub checks: u64,
    pub violations: Vec<String>,
}
thread_local! { pub static C02: RefCell<Option<C02State>> = RefCell::new(None); }

fn walk_elems(a: &QAddr, head: u16) -> Result<Vec<(u64, u32, bool)>, String> {
    let n = a.size;
    if head as usize >= n { return Err(format!("head {} out of range", head)); }
    let (addr, len, flags, _) = read_desc(a, head as usize).ok_or("descriptor unreadable")?;
    let mut out = vec![];
    if flags & 4 != 0 {
        if flags & 3 != 0 { return Err("INDIRECT combined with NEXT/WRITE".into()); }
        let b = hal::dev_read(addr, len as usize).map_err(|e| format!("indirect table: {}", e))?;
        let m = len as usize / 16;
        if m == 0 || len as usize % 16 != 0 { return Err("bad indirect table length".into()); }
        let mut i = 0usize; let mut steps = 0;
        loop {
            if i >= m { return Err("indirect next out of range".into()); }
            let d = &b[16 * i..16 * i + 16];
            let f = u16::from_le_bytes([d[12], d[13]]);
            if f & 4 != 0 { return Err("nested INDIRECT".into()); }
            out.push((u64::from_le_bytes(d[0..8].try_into().unwrap()), u32::from_le_bytes(d[8..12].try_into().unwrap()), f & 2 != 0));
            steps += 1;
            if f & 1 == 0 { break; }
            if steps > m { return Err("cycle in indirect table".into()); }
            i = u16::from_le_bytes([d[14], d[15]]) as usize;
        }
    } else {
        let mut cur = head as usize; let mut steps = 0;
        loop {
            if cur >= n { return Err("next out of range".into()); }
            let (a1, l1, f1, nx) = read_desc(a, cur).ok_or("descriptor unreadable")?;
            if f1 & 4 != 0 && steps > 0 { return Err("INDIRECT inside a chain".into()); }
            out.push((a1, l1, f1 & 2 != 0));
            steps += 1;
            if f1 & 1 == 0 { break; }
            if steps > n { return Err("cycle".into()); }
            cur = nx as usize;
        }
    }
    Ok(out)
}

/// run at every device-visible store: every entry between the device's fetch cursor and the available index
/// it could read right now must be completely written
pub fn c02_check(what: &str) {
    C02.with(|c| {
        let mut c = c.borrow_mut();
        let st = match c.as_mut() { Some(s) => s, None => return };
        st.checks += 1;
        let n = st.a.size;
        let idx_vis = match hal::dev_read_u16(st.a.drv + 2) { Ok(v) => v, Err(_) => return };
        // visible index as a sequence number: it can only be next_seq (all published) or next_seq + 1 (the
        // submission in progress has just been published); anything else is a violation in itself
        let base16 = st.start.wrapping_add(st.next_seq as u16);
        let ahead = idx_vis.wrapping_sub(base16);
        if ahead > 1 { st.violations.push(format!("at {}: available index {} is not {} or {}+1", what, idx_vis, base16, base16)); return; }
        let vis_seq = st.next_seq + ahead as u64;
        let mut seq = st.cursor_seq;
        while seq < vis_seq {
            let pos16 = st.start.wrapping_add(seq as u16);
            let slot = (pos16 as usize) & (n - 1);
            let head = hal::dev_read_u16(st.a.drv + 4 + 2 * slot as u64).unwrap_or(u16::MAX);
            let expected: Option<(Option<u16>, Vec<(u64, u32, bool)>)> =
                if let Some(e) = st.entries.iter().find(|e| e.0 == seq) { Some((Some(e.1), e.2.clone())) }
                else if let Some((s, bufs)) = &st.inprogress { if *s == seq {
                    let live = hal::live_share_list();
                    let mut v = vec![]; let mut ok = true;
                    for (va, l, w) in bufs { match live.iter().find(|x| x.1 == *va) { Some(x) => v.push((x.0, *l, *w)), None => ok = false } }
                    if ok { Some((None, v)) } else { Some((None, vec![(u64::MAX, 0, false)])) }
                } else { None } } else { None };
            match expected {
                None => st.violations.push(format!("at {}: index covers entry #{} which was never submitted", what, seq)),
                Some((tok, exp)) => {
                    if let Some(t) = tok { if t != head { st.violations.push(format!("at {}: ring slot {} holds {} instead of {}", what, slot, head, t)); } }
                    match walk_elems(&st.a, head) {
                        Ok(el) => if el != exp { st.violations.push(format!("at {}: entry #{} (head {}) reads {:?}, expected {:?}", what, seq, head, el, exp)); },
                        Err(e) => st.violations.push(format!("at {}: entry #{} (head {}): {}", what, seq, head, e)),
                    }
                }
            }
            seq += 1;
        }
    });
}

pub fn read_desc(q: &QAddr, i: usize) -> Option<(u64, u32, u16, u16)> {
    let b = hal::dev_read(q.desc + 16 * i as u64, 16).ok()?;
    Some((u64::from_le_bytes(b[0..8].try_into().unwrap()), u32::from_le_bytes(b[8..12].try_into().unwrap()),
          u16::from_le_bytes([b[12], b[13]]), u16::from_le_bytes([b[14], b[15]])))
}

/// the observer installed into virtio_drivers::verif
pub fn observer(e: Event) {
    let ev = match e {
        Event::Store { what: 0, index, .. } => {
            let q = CURQ.with(|c| *c.borrow());
            match read_desc(&q, index as usize) {
                Some((addr, len, flags, next)) => Ev::StoreDesc { index, addr, len, flags, next },
                None => Ev::StoreDesc { index, addr: u64::MAX, len: 0, flags: 0, next: 0 },
            }
        }
        Event::Store { what, index, value } => {
            // never trust the value the hook reports: read what is really in device-visible memory
            let q = CURQ.with(|c| *c.borrow());
            let mem = match what {
                1 => hal::dev_read_u16(q.drv + 4 + 2 * index as u64).ok().map(|v| v as u64),
                2 => hal::dev_read_u16(q.drv + 2).ok().map(|v| v as u64),
                3 => hal::dev_read_u16(q.drv).ok().map(|v| v as u64),
                4 => hal::dev_read_u16(q.drv + 4 + 2 * q.size as u64).ok().map(|v| v as u64),
                _ => Some(value),
            };
            Ev::Store { what, index, val: if q.size == 0 { value } else { mem.unwrap_or(u64::MAX) } }
        }
        Event::Fence => Ev::Fence,
        Event::Spin(site) => Ev::Spin(site),
    };
    let cb = STORE_CB.with(|c| c.borrow_mut().take());
    if let Some(mut cb) = cb { cb(&ev); STORE_CB.with(|c| { let mut c = c.borrow_mut(); if c.is_none() { *c = Some(cb); } }); }
    match &ev {
        Ev::Spin(_) => cosim_spin(),
        Ev::Fence => hal::push(ev),
        Ev::StoreDesc { index, .. } => { c02_check(&format!("store of descriptor {}", index)); hal::push(ev); }
        Ev::Store { what, .. } => { c02_check(&format!("store kind {}", what)); hal::push(ev); }
        _ => hal::push(ev),
    }
}

pub struct Sub {
    pub token: u16,
    pub ins: Vec<Box<[u8]>>,
    pub outs: Vec<Box<[u8]>>,
    pub ids: Vec<u64>,            // ids of ins then outs
    pub addrs: Vec<u64>,          // device addresses (share answers) of ins then outs
    pub idxs: Vec<u16>,           // descriptor indices the chain occupies (as walked at submission)
    pub completed: bool,
    pub written: Vec<Vec<u8>>,    // what the device wrote into each out buffer
}

pub struct Rig<const N: usize> {
    pub q: Box<VirtQueue<LedgerHal, N>>,
    pub t: ModelTransport,
    pub st: Rc<RefCell<TState>>,
    pub a: QAddr,
    /// the queue uses indirect tables: requested at `VirtQueue::new` AND the crate is built with `alloc`
    pub indirect: bool,
    /// what was passed to `VirtQueue::new`
    pub indirect_req: bool,
    pub event_idx: bool,
    pub avail_idx: u16,      // harness's own count of successful adds (mod 2^16)
    pub last_used: u16,      // ... of successful pops
    pub dev_used_idx: u16,   // device side
    pub subs: Vec<Sub>,
    pub used_order: Vec<u16>, // tokens in the order the device completed them and not yet popped
    pub next_id: u64,
    /// the device scribbles over driver-written areas: do not compare device-visible snapshots
    pub quiet_visible: bool,
    /// the device of this history follows the protocol (false in the adversarial histories of C07)
    pub honest: bool,
}

pub fn enc_qevents(evs: &[Ev], head: u128) -> Vec<u128> {
    let mut o = vec![];
    for e in evs {
        match e {
            Ev::Share { vaddr, len, dir, paddr } => {
                match BUFIDS.with(|b| b.borrow().get(vaddr).copied()) {
                    Some(id) => o.extend([1, id as u128, *len as u128, (*dir == 1) as u128, *paddr as u128]),
                    None => o.extend([2, head, (*len / 16) as u128, *paddr as u128]),
                }
            }
            Ev::Unshare { paddr, vaddr, len, dir, .. } => {
                match BUFIDS.with(|b| b.borrow().get(vaddr).copied()) {
                    Some(id) => o.extend([3, *paddr as u128, id as u128, *len as u128, (*dir == 1) as u128]),
                    None => o.extend([4, *paddr as u128, head, (*len / 16) as u128]),
                }
            }
            Ev::StoreDesc { index, addr, len, flags, next } => o.extend([5, *index as u128, *addr as u128, *len as u128, *flags as u128, *next as u128]),
            Ev::Store { what: 1, index, val } => o.extend([6, *index as u128, *val as u128]),
            Ev::Fence => o.push(7),
            Ev::Notify(_) => o.push(11),
            Ev::Store { what: 2, val, .. } => o.extend([8, *val as u128]),
            Ev::Store { what: 3, val, .. } => o.extend([9, *val as u128]),
            Ev::Store { what: 4, val, .. } => o.extend([10, *val as u128]),
            _ => {}
        }
    }
    o
}

thread_local! {
    /// the next rigs are built on a transport that requires the legacy queue layout
    pub static RIG_LEGACY: std::cell::Cell<bool> = std::cell::Cell::new(false);
    /// the platform hands out device address 0 for shared buffers whenever the bottom of the space is free
    pub static RIG_ZERO_SHARE: std::cell::Cell<bool> = std::cell::Cell::new(false);
}

impl<const N: usize> Rig<N> {
    pub fn new(ctx: &mut Ctx, indirect: bool, event_idx: bool, ap: bool, start: u16) -> Option<Self> {
        let start = eff_start(start);
        hal::reset();
        if RIG_ZERO_SHARE.with(|z| z.get()) { hal::share_from_zero(true); ctx.tr.note("hist_share_address_zero"); }
        BUFIDS.with(|b| b.borrow_mut().clear());
        virtio_drivers::verif::set_observer(Some(observer));
        let mut st = TState::new(DeviceType::Block, 0, 2, N as u32);
        // the legacy (pre-1.0) layout: one contiguous region, used ring on the next page boundary; the queue's own pointers
        // into it must agree with what is registered (every later operation goes through them)
        let legacy = RIG_LEGACY.with(|l| l.get());
        st.legacy = legacy;
        if legacy { ctx.tr.note("hist_legacy_layout"); }
        let (mut t, st) = ModelTransport::new(st);
        let qr = VirtQueue::<LedgerHal, N>::new(&mut t, 0, indirect, event_idx, ap);
        // alloc-less build (kind 169, creation form): on a transport that permits it and a platform that has the memory, the queue
        // is created whatever was requested. ins: [requested indirect; creation failed]
        if !HAVE_INDIRECT { ctx.tr.line(169, &[indirect as u128, qr.is_err() as u128], &[1]); }
        let q = qr.ok()?;
        let mut q = Box::new(q);
        let qi = st.borrow().queues[0];
        let a = QAddr { desc: qi.desc, drv: qi.drv, dev: qi.dev, size: N };
        CURQ.with(|c| *c.borrow_mut() = a);
        hal::take_log();
        // C04 / C06 (kind 612): the addresses the device is given for the queue lie inside live DMA regions obtained from the
        // platform (device addresses as dma_alloc returned them; virtual and device addresses never coincide here)
        let r1 = hal::region_of(a.desc, 1).unwrap_or((0, 0, 9));
        let r2 = hal::region_of(a.dev, 1).unwrap_or((0, 0, 9));
        ctx.tr.line(612, &[legacy as u128, N as u128, a.desc as u128, a.drv as u128, a.dev as u128, r1.0 as u128, r1.1 as u128, r2.0 as u128, r2.1 as u128, r1.2 as u128, r2.2 as u128], &[1]);
        if r1.2 == 9 || r2.2 == 9 { ctx.tr.note("queue_registered_outside_dma_memory"); return None; }
        ctx.tr.line(100, &[N as u128, indirect as u128, event_idx as u128], &[]);
        if start != 0 {
            set_indices(&mut q, start);
            hal::dev_write_u16(a.dev + 2, start).unwrap();
            ctx.tr.line(101, &[start as u128], &[]);
        }
        C02.with(|c| *c.borrow_mut() = Some(C02State { a, start, cursor_seq: 0, entries: vec![], inprogress: None, next_seq: 0, checks: 0, violations: vec![] }));
        Some(Rig { q, t, st, a, indirect: indirect && HAVE_INDIRECT, indirect_req: indirect, event_idx, avail_idx: start, last_used: start, dev_used_idx: start,
            subs: vec![], used_order: vec![], next_id: 1, quiet_visible: false, honest: true })
    }

    pub fn used_view(&self) -> (u16, u32, u32) {
        let ui = hal::dev_read_u16(self.a.dev + 2).unwrap();
        let slot = (self.last_used as usize) & (N - 1);
        let id = hal::dev_read_u32(self.a.dev + 4 + 8 * slot as u64).unwrap();
        let len = hal::dev_read_u32(self.a.dev + 8 + 8 * slot as u64).unwrap();
        (ui, id, len)
    }

    /// what the device sees when it follows the chain starting at ring slot `slot`:
    /// (ring value, head descriptor, optional indirect-table walk, direct walk), raw.
    pub fn device_walk(&self, head: u16) -> (Vec<u128>, Vec<u16>) {
        // returns encoded [is_indirect; unresolvable; m; (idx, addr, len, flags, next)*m], and the table indices used
        let mut enc = vec![]; let mut idxs = vec![];
        let hd = read_desc(&self.a, head as usize % N.max(1));
        let (addr, len, flags, _next) = hd.unwrap_or((0, 0, 0, 0));
        if (head as usize) < N && flags & 4 != 0 {
            idxs.push(head);
            let n = (len / 16) as usize;
            let mut entries = vec![]; let mut bad = 0u128;
            match hal::dev_read(addr, len as usize) {
                Ok(b) => for i in 0..n { let d = &b[16 * i..16 * i + 16];
                    entries.extend([i as u128, u64::from_le_bytes(d[0..8].try_into().unwrap()) as u128,
                        u32::from_le_bytes(d[8..12].try_into().unwrap()) as u128,
                        u16::from_le_bytes([d[12], d[13]]) as u128, u16::from_le_bytes([d[14], d[15]]) as u128]); },
                Err(_) => bad = 1,
            }
            enc.extend([1, bad, flags as u128, len as u128, (entries.len() / 5) as u128]); enc.extend(entries);
        } else {
            let mut entries = vec![]; let mut cur = head as usize; let mut steps = 0; let mut bad = 0u128;
            loop {
                if cur >= N { bad = 1; break; }
                let (a, l, f, nx) = read_desc(&self.a, cur).unwrap();
                entries.extend([cur as u128, a as u128, l as u128, f as u128, nx as u128]);
                idxs.push(cur as u16);
                steps += 1;
                if f & 1 == 0 || steps > N { break; }
                cur = nx as usize;
            }
            enc.extend([0, bad, 0, 0, (entries.len() / 5) as u128]); enc.extend(entries);
        }
        (enc, idxs)
    }

    /// C03 / C04 (kind 163): a submission of more buffers than the queue has descriptors (also 2^16 and more, where a
    /// 16-bit count would wrap) is refused with QueueFull, shares nothing and changes nothing, direct or indirect.
    /// ins: [buffers; queue size; class; is QueueFull; shares; device-visible and private state unchanged]
    pub fn add_oversized(&mut self, ctx: &mut Ctx, n: usize) {
        let data = vec![0x5au8; n];
        let snap_before = if N <= 64 { snap(&self.q) } else { None };
        let vis_before = (hal::dev_read(self.a.desc, 16 * N).ok(), hal::dev_read(self.a.drv, 4 + 2 * N + 2).ok());
        let mark = hal::log_len();
        let r = {
            let n_in = if n % 2 == 0 { n } else { n - 1 };
            let in_refs: Vec<&[u8]> = data[..n_in].chunks(1).collect();
            let mut tail = vec![0u8; n - n_in];
            let mut out_refs: Vec<&mut [u8]> = tail.chunks_mut(1).collect();
            let q = &mut self.q;
            catch_unwind(AssertUnwindSafe(|| unsafe { q.add(&in_refs, &mut out_refs) }))
        };
        let evs = hal::log_since(mark);
        let shares = evs.iter().filter(|e| matches!(e, Ev::Share { .. })).count();
        let same = snap_before.map(|sb| Some(sb) == snap(&self.q)).unwrap_or(true)
            && vis_before == (hal::dev_read(self.a.desc, 16 * N).ok(), hal::dev_read(self.a.drv, 4 + 2 * N + 2).ok());
        let (class, full) = match &r { Ok(Ok(_)) => (0u128, 0u128), Ok(Err(virtio_drivers::Error::QueueFull)) => (1, 1), Ok(Err(_)) => (1, 0), Err(_) => (2, 0) };
        ctx.tr.line(163, &[n as u128, N as u128, class, full, shares as u128, same as u128], &[1]);
        ctx.tr.note("add_oversized");
        // a submission that was wrongly accepted has changed the queue under the feet of the model: end this history
        if class != 1 { self.subs.clear(); }
    }

    /// C01 / C03 / C04 / C07 (kinds 111, 149): a submission during which the heap refuses the allocation of the indirect
    /// table (a fault at a particular point). Line 111 = the call itself against the model (`add_af`: a panic out of an
    /// untouched queue when the table is wanted, the ordinary `add` otherwise); line 149 = MONITOR
    /// [buffers; queue size; class; the refused allocation was reached; shares; private and device-visible state unchanged;
    ///  every other outstanding chain still reads as before].
    #[cfg(feature = "alloc")]
    pub fn add_alloc_fail(&mut self, ctx: &mut Ctx, lens_in: &[usize], lens_out: &[usize]) {
        let n = lens_in.len() + lens_out.len();
        let ins: Vec<Box<[u8]>> = lens_in.iter().map(|l| ctx.rng.bytes(*l).into_boxed_slice()).collect();
        let mut outs: Vec<Box<[u8]>> = lens_out.iter().map(|l| vec![0u8; *l].into_boxed_slice()).collect();
        let mut ids = vec![];
        for _ in 0..n { ids.push(self.next_id); self.next_id += 1; }
        let snap_before = if N <= 64 { Some(self.q.verif_snapshot()) } else { None };
        let vis_before = (hal::dev_read(self.a.desc, 16 * N).ok(), hal::dev_read(self.a.drv, 4 + 2 * N + 2).ok());
        let walks_before: Vec<(Vec<u128>, Vec<u16>)> = self.subs.iter().map(|s| self.device_walk(s.token)).collect();
        let mark = hal::log_len();
        let (r, hit) = {
            let in_refs: Vec<&[u8]> = ins.iter().map(|b| &b[..]).collect();
            let mut out_refs: Vec<&mut [u8]> = outs.iter_mut().map(|b| &mut b[..]).collect();
            let q = &mut self.q;
            crate::falloc::arm(16 * n, 1);
            let r = catch_unwind(AssertUnwindSafe(|| unsafe { q.add(&in_refs, &mut out_refs) }));
            let hit = crate::falloc::disarm();
            (r, hit)
        };
        let evs = hal::log_since(mark);
        let shares = evs.iter().filter(|e| matches!(e, Ev::Share { .. })).count();
        let same = snap_before.map(|sb| sb == self.q.verif_snapshot()).unwrap_or(true)
            && vis_before == (hal::dev_read(self.a.desc, 16 * N).ok(), hal::dev_read(self.a.drv, 4 + 2 * N + 2).ok());
        let walks_after: Vec<(Vec<u128>, Vec<u16>)> = self.subs.iter().map(|s| self.device_walk(s.token)).collect();
        let others = walks_before == walks_after;
        let head = match &r { Ok(Ok(h)) => *h as u128, _ => 0 };
        let mut i = vec![0u128, lens_in.len() as u128, lens_out.len() as u128];
        for (k, l) in lens_in.iter().chain(lens_out.iter()).enumerate() { i.extend([ids[k] as u128, *l as u128, 0]); }
        let mut o = enc_result(&r, |h| *h as u128).to_vec();
        o.extend(enc_qevents(&evs, head));
        ctx.tr.line(111, &i, &o);
        let class = match &r { Ok(Ok(_)) => 0u128, Ok(Err(_)) => 1, Err(_) => 2 };
        ctx.tr.line(149, &[n as u128, N as u128, class, (hit > 0) as u128, shares as u128, same as u128, others as u128], &[1]);
        ctx.tr.note(if hit > 0 { "add_table_alloc_refused" } else { "add_table_alloc_not_reached" });
        // a submission that was accepted although the table could not be had has changed the queue under the feet of the model
        if class == 0 { std::mem::forget(ins); std::mem::forget(outs); self.subs.clear(); }
    }

    /// add with `n_in` readable and `n_out` writable buffers of the given lengths
    pub fn add(&mut self, ctx: &mut Ctx, lens_in: &[usize], lens_out: &[usize]) -> Option<u16> {
        let mut ins: Vec<Box<[u8]>> = lens_in.iter().map(|l| ctx.rng.bytes(*l).into_boxed_slice()).collect();
        let mut outs: Vec<Box<[u8]>> = lens_out.iter().map(|l| vec![0u8; *l].into_boxed_slice()).collect();
        let mut ids = vec![];
        for b in ins.iter_mut() { let id = self.next_id; self.next_id += 1; ids.push(id); BUFIDS.with(|m| m.borrow_mut().insert(b.as_ptr() as usize, id)); }
        for b in outs.iter_mut() { let id = self.next_id; self.next_id += 1; ids.push(id); BUFIDS.with(|m| m.borrow_mut().insert(b.as_ptr() as usize, id)); }
        let old_idx = self.avail_idx;
        C02.with(|c| if let Some(st) = c.borrow_mut().as_mut() {
            let mut bufs: Vec<(usize, u32, bool)> = ins.iter().map(|b| (b.as_ptr() as usize, b.len() as u32, false)).collect();
            bufs.extend(outs.iter().map(|b| (b.as_ptr() as usize, b.len() as u32, true)));
            let seq = st.next_seq; st.inprogress = Some((seq, bufs));
        });
        let mark = hal::log_len();
        let r = {
            let in_refs: Vec<&[u8]> = ins.iter().map(|b| &b[..]).collect();
            let mut out_refs: Vec<&mut [u8]> = outs.iter_mut().map(|b| &mut b[..]).collect();
            let q = &mut self.q;
            catch_unwind(AssertUnwindSafe(|| unsafe { q.add(&in_refs, &mut out_refs) }))
        };
        let evs = hal::log_since(mark);
        let head = match &r { Ok(Ok(h)) => *h as u128, _ => 0 };
        let mut addrs = vec![0u64; ids.len()];
        let mut taddr = 0u64;
        for e in &evs { if let Ev::Share { vaddr, paddr, .. } = e {
            match BUFIDS.with(|b| b.borrow().get(vaddr).copied()) {
                Some(id) => { if let Some(p) = ids.iter().position(|x| *x == id) { addrs[p] = *paddr; } }
                None => taddr = *paddr,
            } } }
        let mut i = vec![taddr as u128, lens_in.len() as u128, lens_out.len() as u128];
        for (k, l) in lens_in.iter().chain(lens_out.iter()).enumerate() { i.extend([ids[k] as u128, *l as u128, addrs[k] as u128]); }
        let mut o = enc_result(&r, |h| *h as u128).to_vec();
        o.extend(enc_qevents(&evs, head));
        ctx.tr.line(110, &i, &o);
        ctx.tr.note(match &r { Ok(Ok(_)) => "add_ok", Ok(Err(_)) => "add_refused", Err(_) => "add_panic" });
        if !HAVE_INDIRECT && self.honest {
            // alloc-less build, C03 (kind 151): the outcome of add follows from what the outstanding chains hold (one descriptor
            // per buffer, the harness's own count): nothing offered -> InvalidParam; it fits -> accepted, every buffer shared once;
            // it does not fit -> QueueFull; a refusal shares nothing.
            // ins: [queue size; descriptors held; buffers offered; class; error code; shares during the call; requested indirect]
            let held: usize = self.subs.iter().map(|s| s.ins.len() + s.outs.len()).sum();
            let shares = evs.iter().filter(|e| matches!(e, Ev::Share { .. })).count();
            let rc = enc_result(&r, |h| *h as u128);
            ctx.tr.line(151, &[N as u128, held as u128, (lens_in.len() + lens_out.len()) as u128, rc[0], if rc[0] == 1 { rc[1] } else { 0 }, shares as u128, self.indirect_req as u128], &[1]);
            ctx.tr.note(if held + lens_in.len() + lens_out.len() == N { "na_add_exactly_full" } else if held + lens_in.len() + lens_out.len() == N + 1 { "na_add_one_too_many" } else { "na_add_other" });
        }
        match r {
            Ok(Ok(tok)) => {
                self.avail_idx = self.avail_idx.wrapping_add(1);
                C02.with(|c| if let Some(st) = c.borrow_mut().as_mut() {
                    let exp: Vec<(u64, u32, bool)> = lens_in.iter().chain(lens_out.iter()).enumerate()
                        .map(|(k, l)| (addrs[k], *l as u32, k >= lens_in.len())).collect();
                    let seq = st.next_seq; st.entries.push((seq, tok, exp)); st.next_seq += 1; st.inprogress = None;
                });
                // C01 monitor line: what the device reaches from the new ring entry
                let slot = (old_idx as usize) & (N - 1);
                let ring_val = hal::dev_read_u16(self.a.drv + 4 + 2 * slot as u64).unwrap();
                let aidx_now = hal::dev_read_u16(self.a.drv + 2).unwrap();
                let (walk, idxs) = self.device_walk(ring_val);
                let head_is_indirect = walk[0];
                let mut others: Vec<u128> = vec![];
                for s in &self.subs { for x in &s.idxs { others.push(*x as u128); } }
                let mut m = vec![N as u128, self.indirect as u128, old_idx as u128, tok as u128, ring_val as u128, aidx_now as u128,
                                 lens_in.len() as u128, lens_out.len() as u128];
                for (k, l) in lens_in.iter().chain(lens_out.iter()).enumerate() { m.extend([addrs[k] as u128, *l as u128]); }
                m.push(others.len() as u128); m.extend(others);
                m.extend(walk);
                ctx.tr.line(150, &m, &[1]);
                if !HAVE_INDIRECT && !self.quiet_visible {
                    // alloc-less build, C01 / C08 (kind 169): whatever was requested at VirtQueue::new (RING_INDIRECT_DESC negotiated
                    // or not), no descriptor the device can read carries INDIRECT and no table was shared.
                    // ins: [requested indirect; buffers; the published head reads as an indirect descriptor; descriptors of the
                    //       whole table carrying INDIRECT; shares during the call that are not caller buffers]
                    let flagged = (0..N).filter(|i| read_desc(&self.a, *i).map(|d| d.2 & 4 != 0).unwrap_or(true)).count();
                    let tshares = evs.iter().filter(|e| if let Ev::Share { vaddr, .. } = e { BUFIDS.with(|b| !b.borrow().contains_key(vaddr)) } else { false }).count();
                    ctx.tr.line(169, &[self.indirect_req as u128, (lens_in.len() + lens_out.len()) as u128, head_is_indirect, flagged as u128, tshares as u128], &[1]);
                    if self.indirect_req { ctx.tr.note("na_indirect_requested_published_direct"); }
                }
                if idxs.len() > 1 || lens_in.len() + lens_out.len() > 1 { ctx.tr.note(if self.indirect { "chain_multi_indirect" } else { "chain_multi_direct" }); }
                self.subs.push(Sub { token: tok, ins, outs, ids, addrs, idxs, completed: false, written: vec![] });
                Some(tok)
            }
            _ => {
                C02.with(|c| if let Some(st) = c.borrow_mut().as_mut() { st.inprogress = None; });
                for b in ins.iter() { BUFIDS.with(|m| m.borrow_mut().remove(&(b.as_ptr() as usize))); }
                for b in outs.iter() { BUFIDS.with(|m| m.borrow_mut().remove(&(b.as_ptr() as usize))); }
                None
            }
        }
    }

    /// the device completes outstanding submission number `k` (index into subs), writing data into its
    /// writable buffers through their device addresses and publishing a used element
    pub fn device_complete(&mut self, ctx: &mut Ctx, k: usize, used_id_override: Option<u32>, len_override: Option<u32>) {
        let tok = self.subs[k].token;
        // a device completing this entry has fetched it and every earlier one
        C02.with(|c| if let Some(st) = c.borrow_mut().as_mut() {
            if let Some(e) = st.entries.iter().filter(|e| e.1 == tok).map(|e| e.0).max() { if e + 1 > st.cursor_seq { st.cursor_seq = e + 1; } }
            let cur = st.cursor_seq; st.entries.retain(|e| e.0 >= cur);
        });
        let n_in = self.subs[k].ins.len();
        let mut total = 0u32; let mut written = vec![];
        for (j, b) in self.subs[k].outs.iter().enumerate() {
            let data = ctx.rng.bytes(b.len());
            let addr = self.subs[k].addrs[n_in + j];
            if hal::dev_write(addr, &data).is_err() { hal::violate(format!("device cannot write buffer at {:#x}", addr)); }
            total = total.wrapping_add(data.len() as u32);
            written.push(data);
        }
        self.subs[k].written = written; self.subs[k].completed = true;
        let slot = (self.dev_used_idx as usize) & (N - 1);
        hal::dev_write_u32(self.a.dev + 4 + 8 * slot as u64, used_id_override.unwrap_or(tok as u32)).unwrap();
        hal::dev_write_u32(self.a.dev + 8 + 8 * slot as u64, len_override.unwrap_or(total)).unwrap();
        self.dev_used_idx = self.dev_used_idx.wrapping_add(1);
        hal::dev_write_u16(self.a.dev + 2, self.dev_used_idx).unwrap();
        self.used_order.push(tok);
        ctx.tr.note("device_complete");
    }

    /// pop_used with the buffers of submission `k`, presenting `token`
    /// pop under an adversarial device: no data monitor (the device may complete without writing)
    pub fn pop_lenient(&mut self, ctx: &mut Ctx, k: usize, token: u16) -> bool { self.pop_impl(ctx, k, token, true) }
    pub fn pop(&mut self, ctx: &mut Ctx, k: usize, token: u16) -> bool { self.pop_impl(ctx, k, token, false) }
    fn pop_impl(&mut self, ctx: &mut Ctx, k: usize, token: u16, lenient: bool) -> bool {
        let (ui, uid, ulen) = self.used_view();
        let mark = hal::log_len();
        let snap_before = if N <= 64 { snap(&self.q) } else { None };
        let before: Vec<Vec<u8>> = self.subs[k].outs.iter().map(|b| b.to_vec()).collect();
        let r = {
            let sub = &mut self.subs[k];
            let in_refs: Vec<&[u8]> = sub.ins.iter().map(|b| &b[..]).collect();
            let mut out_refs: Vec<&mut [u8]> = sub.outs.iter_mut().map(|b| &mut b[..]).collect();
            let q = &mut self.q;
            let (ir, or) = (&in_refs[..], &mut out_refs[..]);
            catch_unwind(AssertUnwindSafe(move || unsafe { let or = or; q.pop_used(token, ir, or) }))
        };
        let evs = hal::log_since(mark);
        let sub = &self.subs[k];
        let mut i = vec![token as u128, ui as u128, uid as u128, ulen as u128, sub.ins.len() as u128, sub.outs.len() as u128];
        for (j, b) in sub.ins.iter().chain(sub.outs.iter()).enumerate() { i.extend([sub.ids[j] as u128, b.len() as u128]); }
        let mut o = enc_result(&r, |v| *v as u128).to_vec();
        o.extend(enc_qevents(&evs, token as u128));
        ctx.tr.line(120, &i, &o);
        let ok = matches!(r, Ok(Ok(_)));
        if let (false, Some(sb), Ok(Err(_))) = (ok, &snap_before, &r) {
            // C03: a poll that finds nothing ready or a non-matching token changes nothing
            let same = Some(sb) == snap(&self.q).as_ref();
            ctx.tr.line(159, &[same as u128, evs.len() as u128], &[1]);
        }
        if !lenient {
            // C03 (kind 161): a completion the device has published at the driver's cursor for exactly this
            // submission is consumed by a pop that presents its token and its buffers.
            // ins: [pending at the cursor; the used element names the token; the submission is the token's; consumed]
            let pending = ui != self.last_used;
            ctx.tr.line(161, &[pending as u128, (uid == token as u32) as u128, (self.subs[k].token == token) as u128, ok as u128], &[1]);
        }
        ctx.tr.note(match &r { Ok(Ok(_)) => "pop_ok", Ok(Err(virtio_drivers::Error::NotReady)) => "pop_notready",
            Ok(Err(virtio_drivers::Error::WrongToken)) => "pop_wrongtoken", Ok(Err(_)) => "pop_err", Err(_) => "pop_panic" });
        // C04 data monitor (kind 152): writable buffers hold the device's bytes exactly after a successful pop,
        // and are untouched by an unsuccessful one. ins: [success; n; per buffer: matches_device, unchanged]
        let mut m = vec![ok as u128, sub.outs.len() as u128];
        for (j, b) in sub.outs.iter().enumerate() {
            let dev = sub.written.get(j).map(|w| w[..] == b[..]).unwrap_or(false);
            let same = before[j][..] == b[..];
            m.extend([dev as u128, same as u128]);
        }
        m.push(sub.completed as u128);
        if !lenient { ctx.tr.line(152, &m, &[1]); }
        if ok {
            self.last_used = self.last_used.wrapping_add(1);
            if self.event_idx {
                // C05: the used-event index the device reads is re-armed at the next completion
                let ue = hal::dev_read_u16(self.a.drv + 4 + 2 * N as u64).unwrap();
                ctx.tr.line(157, &[ue as u128, self.last_used as u128], &[1]);
            }
            let sub = self.subs.remove(k);
            for b in sub.ins.iter() { BUFIDS.with(|m| m.borrow_mut().remove(&(b.as_ptr() as usize))); }
            for b in sub.outs.iter() { BUFIDS.with(|m| m.borrow_mut().remove(&(b.as_ptr() as usize))); }
            if let Some(p) = self.used_order.iter().position(|t| *t == sub.token) { self.used_order.remove(p); }
        }
        ok
    }

    pub fn queries(&mut self, ctx: &mut Ctx) {
        let (ui, uid, _) = self.used_view();
        let ae = hal::dev_read_u16(self.a.dev + 4 + 8 * N as u64).unwrap();
        let uf = hal::dev_read_u16(self.a.dev).unwrap();
        ctx.tr.line(130, &[ae as u128, uf as u128], &[self.q.should_notify() as u128]);
        ctx.tr.line(131, &[ui as u128], &[self.q.can_pop() as u128]);
        let pk = self.q.peek_used();
        ctx.tr.line(132, &[ui as u128, uid as u128], &match pk { Some(v) => [1, v as u128], None => [0, 0] });
        ctx.tr.line(133, &[], &[self.q.available_desc() as u128]);
        if self.honest {
            // C03 (kind 168): the free count follows from what the outstanding chains hold: one descriptor per buffer, or one per
            // chain when it went through an indirect table. available_desc() is SIZE - held on a direct queue; on an indirect
            // queue it is documented as SIZE while any descriptor is free (any chain fits) and 0 when none is
            let held: usize = self.subs.iter().map(|s| { let n = s.ins.len() + s.outs.len(); if self.indirect && n > 1 { 1 } else { n } }).sum();
            ctx.tr.line(168, &[self.q.available_desc() as u128, N as u128, held as u128, self.indirect as u128], &[1]);
        }
        if self.honest {
            // C03 (kind 162): what the device has published and the driver has not consumed is visible to the
            // driver's queries: can_pop iff something is pending, peek_used names the element at the cursor
            let pending = ui != self.last_used;
            ctx.tr.line(162, &[pending as u128, uid as u128, self.q.can_pop() as u128, pk.is_some() as u128, pk.unwrap_or(0) as u128], &[1]);
        }
    }

    pub fn set_dev_notify(&mut self, ctx: &mut Ctx, en: bool) {
        let mark = hal::log_len();
        self.q.set_dev_notify(en);
        let evs = hal::log_since(mark);
        ctx.tr.line(134, &[en as u128], &enc_qevents(&evs, 0));
        let fl = hal::dev_read_u16(self.a.drv).unwrap();
        // C05: without event-idx the flag the device reads is exactly the setting
        if !self.event_idx { ctx.tr.line(153, &[en as u128, fl as u128], &[1]); }
    }

    /// private-state (diagnostic) and device-visible state lines; only for small queues
    pub fn snapshots(&mut self, ctx: &mut Ctx) {
        if N > 64 { return; }
        if let Some(s) = snap(&self.q) {
            let mut o = vec![s.num_used as u128, s.free_head as u128, s.avail_idx as u128, s.last_used_idx as u128];
            for d in &s.shadow { o.extend([d.0 as u128, d.1 as u128, d.2 as u128, d.3 as u128]); }
            for b in &s.indirect { o.push(*b as u128); }
            ctx.tr.line(140, &[], &o);
        }
        if self.quiet_visible { return; }
        let mut v = vec![hal::dev_read_u16(self.a.drv).unwrap() as u128, hal::dev_read_u16(self.a.drv + 2).unwrap() as u128,
                         hal::dev_read_u16(self.a.drv + 4 + 2 * N as u64).unwrap() as u128];
        for i in 0..N { v.push(hal::dev_read_u16(self.a.drv + 4 + 2 * i as u64).unwrap() as u128); }
        for i in 0..N { let d = read_desc(&self.a, i).unwrap(); v.extend([d.0 as u128, d.1 as u128, d.2 as u128, d.3 as u128]); }
        ctx.tr.line(141, &[], &v);
    }

    pub fn finish_lenient(self, ctx: &mut Ctx) { self.finish(ctx) }
    pub fn finish(self, ctx: &mut Ctx) {
        let Rig { q, t, subs, .. } = self;
        // shares still live must be exactly the buffers (and tables) of the outstanding chains
        let (checks, viol) = C02.with(|c| { let mut c = c.borrow_mut(); let r = c.as_ref().map(|s| (s.checks, s.violations.clone())).unwrap_or((0, vec![])); *c = None; r });
        for v in viol.iter().take(5) { ctx.tr.comment(&format!("C02: {}", v)); }
        ctx.tr.line(158, &[checks as u128, viol.len() as u128], &[1]);
        ctx.tr.note_n("store_instants_checked", checks);
        let live = hal::live_shares();
        let expect: usize = subs.iter().map(|s| s.ids.len() + if s.idxs.len() == 1 && s.ids.len() > 1 { 1 } else { 0 }).sum();
        ctx.tr.line(154, &[live as u128, expect as u128], &[1]);
        drop(t);
        drop(q);
        virtio_drivers::verif::set_observer(None);
        STORE_CB.with(|c| *c.borrow_mut() = None);
        ledger_line(ctx);
        drop(subs);
    }
}

/// A random history on a queue of size N.
pub fn history<const N: usize>(ctx: &mut Ctx, flags: u8, start: u16, nops: usize, max_buf: usize) {
    let (indirect, event_idx, ap) = (flags & 1 != 0, flags & 2 != 0, flags & 4 != 0);
    let mut rig = match Rig::<N>::new(ctx, indirect, event_idx, ap, start) { Some(r) => r, None => return };
    ctx.tr.note(&format!("hist_size_{}", N));
    ctx.tr.note(&format!("hist_flags_{}", flags));
    if start != 0 { ctx.tr.note("hist_start_near_wrap"); }
    for _ in 0..nops {
        let r = ctx.rng.below(100);
        if r < 40 {
            // submission: shape biased towards filling capacity
            let cap = N;
            let total = match ctx.rng.below(6) { 0 => 1, 1 => ctx.rng.range(1, 3) as usize, 2 => cap.min(ctx.rng.range(1, 8) as usize),
                3 => cap, 4 => cap + 1, _ => ctx.rng.range(0, cap as u64 + 1) as usize };
            let total = total.min(40);
            let n_in = ctx.rng.range(0, total as u64) as usize;
            let li: Vec<usize> = (0..n_in).map(|_| 1 + ctx.rng.below(max_buf as u64) as usize).collect();
            let lo: Vec<usize> = (0..total - n_in).map(|_| 1 + ctx.rng.below(max_buf as u64) as usize).collect();
            rig.add(ctx, &li, &lo);
        } else if r < 65 {
            // device completes a random not-yet-completed chain (any order)
            let cands: Vec<usize> = (0..rig.subs.len()).filter(|k| !rig.subs[*k].completed).collect();
            if !cands.is_empty() { let k = *ctx.rng.pick(&cands); rig.device_complete(ctx, k, None, None); }
        } else if r < 90 {
            // pop: mostly the right token (head of used order), sometimes a wrong one / nothing ready
            if rig.subs.is_empty() { continue; }
            let right = rig.used_order.first().copied();
            let choice = ctx.rng.below(10);
            if let (Some(tok), true) = (right, choice < 7) {
                let k = rig.subs.iter().position(|s| s.token == tok).unwrap();
                rig.pop(ctx, k, tok);
            } else {
                // some other outstanding chain's token with its own buffers: must be refused without effect
                let k = ctx.rng.below(rig.subs.len() as u64) as usize;
                let tok = rig.subs[k].token;
                if Some(tok) != right { rig.pop(ctx, k, tok); }
            }
        } else if r < 94 || (r < 95 && !indirect) {
            rig.queries(ctx);
        } else if r < 95 {
            // the heap refuses the indirect table of this submission (indirect queues; two or more buffers)
            let total = 2 + ctx.rng.below((N.min(6)) as u64) as usize;
            let n_in = ctx.rng.range(0, total as u64) as usize;
            let li: Vec<usize> = (0..n_in).map(|_| 1 + ctx.rng.below(max_buf as u64) as usize).collect();
            let lo: Vec<usize> = (0..total - n_in).map(|_| 1 + ctx.rng.below(max_buf as u64) as usize).collect();
            #[cfg(feature = "alloc")]
            rig.add_alloc_fail(ctx, &li, &lo);
            #[cfg(not(feature = "alloc"))]
            { let _ = (&li, &lo); }
        } else if r < 96 {
            // more buffers than descriptors, with whatever is outstanding at this point
            let n = match ctx.rng.below(4) { 0 => N + 1, 1 => N + 2, 2 => 2 * N + 1, _ => if N <= 64 { 65536 + ctx.rng.below(N as u64 + 1) as usize } else { N + 1 } };
            rig.add_oversized(ctx, n);
        } else if r < 98 {
            let en = ctx.rng.chance(1, 2); rig.set_dev_notify(ctx, en);
        } else {
            // the device publishes suppression data
            let v = ctx.rng.boundary(16) as u16;
            hal::dev_write_u16(rig.a.dev + 4 + 8 * N as u64, v).unwrap();
            hal::dev_write_u16(rig.a.dev, ctx.rng.below(2) as u16).unwrap();
        }
        if ctx.rng.chance(1, 8) { rig.snapshots(ctx); }
    }
    rig.snapshots(ctx);
    rig.queries(ctx);
    for n in [N + 1, 65536, 65536 + N.min(3)] { if N <= 64 || n == N + 1 { rig.add_oversized(ctx, n); } }
    // drain: complete and pop everything, then the free list must be whole again
    while !rig.subs.is_empty() {
        let cands: Vec<usize> = (0..rig.subs.len()).filter(|k| !rig.subs[*k].completed).collect();
        if !cands.is_empty() { let k = *ctx.rng.pick(&cands); rig.device_complete(ctx, k, None, None); }
        if let Some(tok) = rig.used_order.first().copied() {
            let k = rig.subs.iter().position(|s| s.token == tok).unwrap();
            if !rig.pop(ctx, k, tok) { break; }
        }
    }
    rig.queries(ctx);
    rig.snapshots(ctx);
    rig.finish(ctx);
}

pub fn history_dyn(ctx: &mut Ctx, size: usize, flags: u8, start: u16, nops: usize, max_buf: usize) {
    match size {
        1 => history::<1>(ctx, flags, start, nops, max_buf), 2 => history::<2>(ctx, flags, start, nops, max_buf),
        4 => history::<4>(ctx, flags, start, nops, max_buf), 8 => history::<8>(ctx, flags, start, nops, max_buf),
        16 => history::<16>(ctx, flags, start, nops, max_buf), 32 => history::<32>(ctx, flags, start, nops, max_buf),
        64 => history::<64>(ctx, flags, start, nops, max_buf), 256 => history::<256>(ctx, flags, start, nops, max_buf),
        1024 => history::<1024>(ctx, flags, start, nops, max_buf),
        _ => {}
    }
}

/// C04 (kind 167): `add_notify_wait_pop` while an EARLIER chain of the same queue completes first: the helper returns
/// WrongToken; its own buffers stay shared (they are still in the available ring) until their completion is consumed,
/// and are then unshared exactly once. ins: [class; is WrongToken; unshares during the refused call; shares during it;
/// expected shares; result class of the later pop of the helper's chain; unshares of that pop; ledger violations]
pub fn anwp_refused<const N: usize>(ctx: &mut Ctx, flags: u8) {
    let (indirect, event_idx) = (flags & 1 != 0, flags & 2 != 0);
    let mut rig = match Rig::<N>::new(ctx, indirect, event_idx, false, 0) { Some(r) => r, None => return };
    C02.with(|c| *c.borrow_mut() = None);
    // chain A, added directly (this scenario is evaluated by the monitor only) and completed by the device before the helper is called
    let a_in = ctx.rng.bytes(3).into_boxed_slice(); let mut a_out = vec![0u8; 5].into_boxed_slice();
    let ra = { let q = &mut rig.q; let i: &[u8] = &a_in; let o: &mut [u8] = &mut a_out;
        catch_unwind(AssertUnwindSafe(move || unsafe { let ins = [i]; let mut outs = [o]; q.add(&ins, &mut outs) })) };
    let tok_a = match ra { Ok(Ok(t)) => t, _ => return };
    hal::dev_write_u32(rig.a.dev + 4, tok_a as u32).unwrap();
    hal::dev_write_u32(rig.a.dev + 8, 5).unwrap();
    rig.dev_used_idx = 1;
    hal::dev_write_u16(rig.a.dev + 2, 1).unwrap();
    let inb = ctx.rng.bytes(7).into_boxed_slice(); let mut outb = vec![0u8; 9].into_boxed_slice();
    let mark = hal::log_len();
    let r = { let q = &mut rig.q; let t = &mut rig.t; let i: &[u8] = &inb; let o: &mut [u8] = &mut outb;
        catch_unwind(AssertUnwindSafe(move || { let ins = [i]; let mut outs = [o]; q.add_notify_wait_pop(&ins, &mut outs, t) })) };
    let evs = hal::log_since(mark);
    let unshares = evs.iter().filter(|e| matches!(e, Ev::Unshare { .. })).count();
    let shares = evs.iter().filter(|e| matches!(e, Ev::Share { .. })).count();
    let tok_b = evs.iter().find_map(|e| if let Ev::Store { what: 1, val, .. } = e { Some(*val as u16) } else { None }).unwrap_or(0xffff);
    let (class, wrong) = match &r { Ok(Ok(_)) => (0u128, 0u128), Ok(Err(virtio_drivers::Error::WrongToken)) => (1, 1), Ok(Err(_)) => (1, 0), Err(_) => (2, 0) };
    // consume A with its own buffers, then let the device complete the helper's chain and consume that
    let _ = { let q = &mut rig.q; let i: &[u8] = &a_in; let o: &mut [u8] = &mut a_out;
        catch_unwind(AssertUnwindSafe(move || unsafe { let ins = [i]; let mut outs = [o]; q.pop_used(tok_a, &ins, &mut outs) })) };
    let slot = (rig.dev_used_idx as usize) & (N - 1);
    hal::dev_write_u32(rig.a.dev + 4 + 8 * slot as u64, tok_b as u32).unwrap();
    hal::dev_write_u32(rig.a.dev + 8 + 8 * slot as u64, 9).unwrap();
    rig.dev_used_idx = rig.dev_used_idx.wrapping_add(1);
    hal::dev_write_u16(rig.a.dev + 2, rig.dev_used_idx).unwrap();
    let mark = hal::log_len();
    let r2 = { let q = &mut rig.q; let i: &[u8] = &inb; let o: &mut [u8] = &mut outb;
        catch_unwind(AssertUnwindSafe(move || unsafe { let ins = [i]; let mut outs = [o]; q.pop_used(tok_b, &ins, &mut outs) })) };
    let evs2 = hal::log_since(mark);
    let unshares2 = evs2.iter().filter(|e| matches!(e, Ev::Unshare { .. })).count();
    let class2 = match &r2 { Ok(Ok(_)) => 0u128, Ok(Err(_)) => 1, Err(_) => 2 };
    let expect_shares = if indirect && HAVE_INDIRECT { 3 } else { 2 };
    ctx.tr.line(167, &[class, wrong, unshares as u128, shares as u128, expect_shares, class2, unshares2 as u128, hal::violations().len() as u128], &[1]);
    ctx.tr.note("anwp_refused_by_earlier_completion");
    ledger_line(ctx);
}

// ------------------------------------------------------------------------------------------------
// Directed histories around the capacity test of the alloc-less build (`num_used + needed > SIZE`, always add_direct):
// chains of 1..N and N+1.. buffers, exactly-full queues in several partitions, one more refused, recycling in every
// order (all permutations while there are at most four chains), re-use of the freed descriptors, indices across the 16-bit
// wrap when the pre-set hook exists. Indirect descriptors are REQUESTED in half of them (VirtQueue::new ignores it there).
fn permutations(k: usize) -> Vec<Vec<usize>> {
    if k == 0 { return vec![vec![]]; }
    let mut out = vec![];
    for p in permutations(k - 1) { for pos in 0..k { let mut q = p.clone(); q.insert(pos, k - 1); out.push(q); } }
    out
}
impl<const N: usize> Rig<N> {
    /// the device completes the outstanding chains in the order given (positions in `subs` at the time of the call),
    /// then the driver consumes them in that order; after every pop the counts are queried
    fn complete_and_pop_in(&mut self, ctx: &mut Ctx, order: &[usize]) -> bool {
        let toks: Vec<u16> = order.iter().map(|k| self.subs[*k].token).collect();
        for t in &toks { let k = self.subs.iter().position(|s| s.token == *t).unwrap(); self.device_complete(ctx, k, None, None); }
        for t in &toks {
            let k = match self.subs.iter().position(|s| s.token == *t) { Some(k) => k, None => return false };
            if !self.pop(ctx, k, *t) { return false; }
            self.queries(ctx);
        }
        true
    }
    fn add_n(&mut self, ctx: &mut Ctx, n: usize) -> Option<u16> {
        let n_in = if n == 0 { 0 } else { ctx.rng.range(0, n as u64) as usize };
        let li: Vec<usize> = (0..n_in).map(|_| 1 + ctx.rng.below(24) as usize).collect();
        let lo: Vec<usize> = (0..n - n_in).map(|_| 1 + ctx.rng.below(24) as usize).collect();
        self.add(ctx, &li, &lo)
    }
}
pub fn directed_capacity<const N: usize>(ctx: &mut Ctx, flags: u8, start: u16) {
    let mut rig = match Rig::<N>::new(ctx, flags & 1 != 0, flags & 2 != 0, flags & 4 != 0, start) { Some(r) => r, None => return };
    ctx.tr.note(&format!("directed_size_{}", N));
    if flags & 1 != 0 { ctx.tr.note("directed_indirect_requested"); }
    // (a) one chain of every length on the empty queue; N + 1 and more are refused; nothing offered is refused
    let lens: Vec<usize> = if N <= 16 { (1..=N).collect() } else { vec![1, 2, 3, N / 2, N - 1, N] };
    for n in lens {
        if rig.add_n(ctx, n).is_none() { ctx.tr.note("directed_chain_refused"); rig.snapshots(ctx); rig.finish(ctx); return; }
        rig.queries(ctx);
        if n == N { rig.add_n(ctx, 1); rig.snapshots(ctx); }
        if !rig.complete_and_pop_in(ctx, &[0]) { rig.snapshots(ctx); rig.finish(ctx); return; }
    }
    rig.add_n(ctx, 0);
    rig.add_n(ctx, N + 1);
    if N <= 16 { rig.add_n(ctx, N + 2); rig.add_n(ctx, 2 * N); }
    for n in [N + 1, 2 * N + 1, 65536, 65536 + N] { if N <= 64 || n == N + 1 { rig.add_oversized(ctx, n); } }
    rig.snapshots(ctx);
    // (b) exactly full, in several partitions; one more is refused; then recycling in every order
    let mut parts: Vec<Vec<usize>> = vec![vec![1; N]];
    if N >= 2 { parts.push(vec![N]); parts.push(vec![1, N - 1]); parts.push(vec![N - 1, 1]); parts.push(vec![N / 2, N - N / 2]); }
    if N >= 4 { parts.push(vec![1, 2, N - 3]); parts.push(vec![N / 4; 4]); let mut v = vec![2; N / 2 - 1]; v.push(1); v.push(1); parts.push(v); }
    for part in parts {
        let orders: Vec<Vec<usize>> = if part.len() <= 4 { permutations(part.len()) } else {
            let k = part.len();
            let mut v = vec![(0..k).collect::<Vec<_>>(), (0..k).rev().collect::<Vec<_>>()];
            for _ in 0..2 { let mut p: Vec<usize> = (0..k).collect(); for i in (1..k).rev() { let j = ctx.rng.below(i as u64 + 1) as usize; p.swap(i, j); } v.push(p); }
            v };
        for order in orders {
            for n in &part { if rig.add_n(ctx, *n).is_none() { ctx.tr.note("directed_fill_refused"); } }
            ctx.tr.note("directed_exactly_full");
            rig.queries(ctx);
            // full: one buffer more, a chain more, nothing at all
            rig.add_n(ctx, 1); rig.add_n(ctx, 2.min(N)); rig.add_n(ctx, 0);
            rig.snapshots(ctx);
            let order: Vec<usize> = order.into_iter().filter(|k| *k < rig.subs.len()).collect();
            if !rig.complete_and_pop_in(ctx, &order) { rig.snapshots(ctx); rig.finish(ctx); return; }
            // whatever could not be placed above is drained too
            while !rig.subs.is_empty() { if !rig.complete_and_pop_in(ctx, &[0]) { rig.snapshots(ctx); rig.finish(ctx); return; } }
            rig.snapshots(ctx);
        }
    }
    // (c) next to the boundary: N - k descriptors held, k + 1 offered (refused), then k (accepted: full), then one more (refused);
    //     the freed descriptors of a popped chain are used again by the next submission
    for k in 1..=N.min(4) {
        for _ in 0..N - k { rig.add_n(ctx, 1); }
        rig.add_n(ctx, k + 1);
        rig.queries(ctx);
        rig.add_n(ctx, k);
        rig.add_n(ctx, 1);
        rig.queries(ctx);
        // pop one chain in the middle, re-use its descriptors, fill again
        if rig.subs.is_empty() { break; }
        let mid = rig.subs.len() / 2;
        let freed = rig.subs[mid].ins.len() + rig.subs[mid].outs.len();
        if !rig.complete_and_pop_in(ctx, &[mid]) { rig.snapshots(ctx); rig.finish(ctx); return; }
        rig.add_n(ctx, freed + 1);
        rig.add_n(ctx, freed);
        rig.snapshots(ctx);
        let k_all: Vec<usize> = (0..rig.subs.len()).rev().collect();
        if !rig.complete_and_pop_in(ctx, &k_all) { rig.snapshots(ctx); rig.finish(ctx); return; }
    }
    rig.queries(ctx);
    rig.snapshots(ctx);
    rig.finish(ctx);
}
/// the directed histories of the alloc-less build (run by its registry in scen/mod.rs under C01-C04)
pub fn noalloc_directed(ctx: &mut Ctx, name: &str) {
    let sizes: &[usize] = if ctx.tier_thorough { &[1, 2, 4, 8, 16, 32, 64] } else { &[1, 2, 4, 8, 16, 64] };
    let mut h = 0u64;
    for size in sizes {
        for flags in 0..8u8 {
            // quick tier: every flag combination on the small queues, the indirect-requesting ones on the larger
            if !ctx.tier_thorough && *size > 4 && flags & 1 == 0 && flags != 0 { continue; }
            let start = match h % 4 { 0 => 0u16, 1 => 65535 - (*size as u16), 2 => 65533, _ => 32767 };
            h += 1;
            ctx.tr.scenario(&format!("{}-noalloc-directed-n{}-f{}-s{}", name, size, flags, start));
            RIG_LEGACY.with(|l| l.set(h % 5 == 4));
            match size {
                1 => directed_capacity::<1>(ctx, flags, start), 2 => directed_capacity::<2>(ctx, flags, start),
                4 => directed_capacity::<4>(ctx, flags, start), 8 => directed_capacity::<8>(ctx, flags, start),
                16 => directed_capacity::<16>(ctx, flags, start), 32 => directed_capacity::<32>(ctx, flags, start),
                _ => directed_capacity::<64>(ctx, flags, start),
            }
            RIG_LEGACY.with(|l| l.set(false));
        }
    }
}

/// the standard batch of histories used by C01-C04
pub fn standard_histories(ctx: &mut Ctx, name: &str, nhist: u64) {
    let sizes = [1usize, 2, 4, 8, 16, 32, 64, 256, 1024];
    for h in 0..nhist {
        let size = sizes[(h as usize) % sizes.len()];
        let flags = ((h / sizes.len() as u64) % 8) as u8;
        let start = match ctx.rng.below(4) { 0 => 0, 1 => 65535 - ctx.rng.below(6) as u16, 2 => 32767 - ctx.rng.below(4) as u16, _ => ctx.rng.next() as u16 };
        ctx.tr.scenario(&format!("{}-h{}-n{}-f{}-s{}", name, h, size, flags, start));
        let nops = if size <= 16 { 60 + ctx.rng.below(120) as usize } else { 60 };
        RIG_LEGACY.with(|l| l.set(h % 4 == 3));
        RIG_ZERO_SHARE.with(|z| z.set(h % 3 == 1));
        history_dyn(ctx, size, flags, start, nops, 64);
        RIG_LEGACY.with(|l| l.set(false));
        RIG_ZERO_SHARE.with(|z| z.set(false));
    }
}

// ------------------------------------------------------------------------------------------------
// Generic reference device working purely on device memory, and the single-threaded co-simulation
// used for the blocking helpers (C05): the device runs from inside Transport::notify or from inside
// the busy-wait hook, according to its servicing policy.
#[derive(Clone, Copy, PartialEq, Debug)]
pub enum Policy { OnNotify, Poll(u32), Late(u32) }

pub struct GenDev { pub a: QAddr, pub seen: u16, pub used: u16, pub event_idx: bool, pub served: u64 }
impl GenDev {
    /// process every available entry not yet seen; re-arm notification suppression at the new position
    pub fn service(&mut self) -> u32 {
        let n = self.a.size;
        let aidx = hal::dev_read_u16(self.a.drv + 2).unwrap();
        let mut count = 0;
        while self.seen != aidx {
            let slot = (self.seen as usize) & (n - 1);
            let head = hal::dev_read_u16(self.a.drv + 4 + 2 * slot as u64).unwrap();
            // total writable length of the chain (bytes are left as they are)
            let mut total = 0u32; let mut cur = head as usize; let mut steps = 0;
            if let Some((addr, len, flags, _)) = read_desc(&self.a, cur % n) {
                if flags & 4 != 0 {
                    if let Ok(b) = hal::dev_read(addr, len as usize) {
                        for i in 0..(len as usize / 16) { let d = &b[16 * i..16 * i + 16];
                            let f = u16::from_le_bytes([d[12], d[13]]);
                            if f & 2 != 0 { total = total.wrapping_add(u32::from_le_bytes(d[8..12].try_into().unwrap())); } }
                    }
                } else {
                    loop {
                        if cur >= n { break; }
                        let (_, l, f, nx) = read_desc(&self.a, cur).unwrap();
                        if f & 2 != 0 { total = total.wrapping_add(l); }
                        steps += 1; if f & 1 == 0 || steps > n { break; }
                        cur = nx as usize;
                    }
                }
            }
            let uslot = (self.used as usize) & (n - 1);
            hal::dev_write_u32(self.a.dev + 4 + 8 * uslot as u64, head as u32).unwrap();
            hal::dev_write_u32(self.a.dev + 8 + 8 * uslot as u64, total).unwrap();
            self.used = self.used.wrapping_add(1);
            hal::dev_write_u16(self.a.dev + 2, self.used).unwrap();
            self.seen = self.seen.wrapping_add(1);
            count += 1; self.served += 1;
        }
        // "tell me about the next entry": avail_event := position of the next entry to come
        if self.event_idx { hal::dev_write_u16(self.a.dev + 4 + 8 * n as u64, self.seen).unwrap(); }
        count
    }
}

pub struct CoSim { pub dev: GenDev, pub policy: Policy, pub spins: u32, pub notified: u32, pub gave_up: bool }
thread_local! { pub static COSIM: RefCell<Option<CoSim>> = RefCell::new(None); }

/// called from the busy-wait hook
pub fn cosim_spin() {
    let mut hopeless = false;
    COSIM.with(|c| {
        if let Some(cs) = c.borrow_mut().as_mut() {
            cs.spins += 1;
            match cs.policy {
                Policy::Poll(k) => { if cs.spins >= k { cs.dev.service(); } }
                Policy::Late(k) => { if cs.spins >= k { cs.dev.service(); } }
                Policy::OnNotify => {}
            }
            if cs.spins > 2000 { cs.gave_up = true; hopeless = true; }
        }
    });
    if hopeless { panic!("busy-wait can never end: device idle, not notified, not polling"); }
}
pub fn cosim_notify() {
    COSIM.with(|c| { if let Some(cs) = c.borrow_mut().as_mut() { cs.notified += 1; if cs.policy == Policy::OnNotify || matches!(cs.policy, Policy::Late(_)) { if cs.policy == Policy::OnNotify { cs.dev.service(); } } } });
}

/// C03 thorough tier: a real run of more than 65536 submissions on one queue (both 16-bit indices wrap by
/// themselves, no hook pre-set), completions in random order, interleaved wrong-token polls.
pub fn soak<const N: usize>(ctx: &mut Ctx, flags: u8, submissions: u64) {
    let mut rig = match Rig::<N>::new(ctx, flags & 1 != 0, flags & 2 != 0, false, 0) { Some(r) => r, None => return };
    let mut done = 0u64;
    while done < submissions {
        let k = 1 + ctx.rng.below(N as u64) as usize;
        for _ in 0..k { let n_in = ctx.rng.below(2) as usize; if rig.add(ctx, &vec![8; n_in], &vec![8; 1]).is_some() { done += 1; } }
        // complete everything in a random order
        loop {
            let cands: Vec<usize> = (0..rig.subs.len()).filter(|k| !rig.subs[*k].completed).collect();
            if cands.is_empty() { break; }
            let c = *ctx.rng.pick(&cands); rig.device_complete(ctx, c, None, None);
        }
        // pop in used order, sometimes trying a wrong token first
        while let Some(tok) = rig.used_order.first().copied() {
            if rig.subs.len() > 1 && ctx.rng.chance(1, 8) {
                let other = rig.subs.iter().position(|s| s.token != tok).unwrap();
                let t2 = rig.subs[other].token; rig.pop(ctx, other, t2);
            }
            let k = rig.subs.iter().position(|s| s.token == tok).unwrap();
            if !rig.pop(ctx, k, tok) { break; }
        }
        if done % 4096 < k as u64 { rig.queries(ctx); rig.snapshots(ctx); }
    }
    ctx.tr.note_n("soak_submissions", done);
    rig.queries(ctx); rig.snapshots(ctx);
    rig.finish(ctx);
}
