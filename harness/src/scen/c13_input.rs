//! C13 / C07: the configuration queries of the REAL VirtIOInput (query_config_select, name, serial_number, ids,
//! prop_bits, ev_bits, abs_info) against a device that chooses the size byte and every data byte.
//!  * over `ModelTransport` (configuration memory of 0 .. 4096 bytes: the transport refuses what it does not hold),
//!  * over the real `MmioTransport` (modern, also wrapped in `SomeTransport`) and the real `PciTransport` on
//!    the emulated register file of scen/c13.rs, the device answering EVERY read of the configuration window from a
//!    stream of values the scenario chose;
//!  * kind 1320: Model/InputCfg.v predicts every access (offset, width, value, order) and the result;
//!  * monitor 1321: the accesses follow VirtIO 5.8.5 on the layout of 5.8.4 (select, subsel written first with the
//!    caller's values; then size; then u[0], u[1], ... one byte each, at most min(size, 128)), all inside the 136 bytes;
//!  * monitor 1322: the value handed to the caller is the specification's for the size and the bytes the device
//!    answered (strings / bitmaps = the bytes up to size, ids / abs_info = the little-endian fields, wrong size or
//!    size > 128 = IoError), the rest of the caller's slice untouched;
//!  * tearing (kind 1323, correspondence only): the device replaces its configuration image (bumping the generation)
//!    between two reads of one query; the model predicts the mixed value the code returns. Recorded as an observation:
//!    monitor 1324 (value = the query on SOME exposed image) is only emitted with VERIF_INPUTCFG_OBSERVATIONS=1.
use crate::hal::{self, Ev, LedgerHal};
use crate::scen::c13::{make, DevState, Geo, St, Tp};
use crate::scen::common::{err_code, ledger_line};
use crate::tport::{ModelTransport, TState};
use crate::Ctx;
use std::cell::RefCell;
use std::panic::{catch_unwind, AssertUnwindSafe};
use std::rc::Rc;
use virtio_drivers::device::input::{InputConfigSelect as Sel, VirtIOInput};
use virtio_drivers::transport::{DeviceType, Transport};
use virtio_drivers::Error;

const FILL: u8 = 0xee;
const VERSION_1: u64 = 1 << 32;

/// op 0 query_config_select(select, subsel, out[out_len]); 1 name; 2 serial_number; 3 ids; 4 prop_bits; 5 ev_bits(subsel);
/// 6 abs_info(subsel)
#[derive(Clone, Copy, Debug)]
struct Query { op: u8, select: u8, subsel: u8, out_len: usize }
impl Query {
    fn enc(&self) -> [u128; 4] { [self.op as u128, self.select as u128, self.subsel as u128, self.out_len as u128] }
    /// what the specification says must be written into select / subsel
    fn sel_written(&self) -> u8 { match self.op { 0 => self.select, 1 => 1, 2 => 2, 3 => 3, 4 => 0x10, 5 => 0x11, _ => 0x12 } }
    fn sub_written(&self) -> u8 { match self.op { 0 | 5 | 6 => self.subsel, _ => 0 } }
    /// kind of the specification's query: 0 raw 1 string 2 bitmap 3 devids 4 absinfo
    fn qkind(&self) -> u128 { match self.op { 0 => 0, 1 | 2 => 1, 4 | 5 => 2, 3 => 3, _ => 4 } }
}
fn sel_of(v: u8) -> Sel { match v { 1 => Sel::IdName, 2 => Sel::IdSerial, 3 => Sel::IdDevids, 0x10 => Sel::PropBits, 0x11 => Sel::EvBits, _ => Sel::AbsInfo } }

type Res = std::thread::Result<Result<Vec<u128>, Error>>;

/// runs the query on the real driver; returns (result as numbers, the caller's slice after the call (op 0))
fn run_query<T: Transport>(input: &mut VirtIOInput<LedgerHal, T>, q: &Query) -> (Res, Vec<u8>) {
    let mut out = vec![FILL; q.out_len];
    let r = {
        let out = &mut out;
        catch_unwind(AssertUnwindSafe(move || -> Result<Vec<u128>, Error> {
            match q.op {
                0 => input.query_config_select(sel_of(q.select), q.subsel, out).map(|sz| vec![sz as u128]),
                1 => input.name().map(|s| s.into_bytes().iter().map(|b| *b as u128).collect()),
                2 => input.serial_number().map(|s| s.into_bytes().iter().map(|b| *b as u128).collect()),
                3 => input.ids().map(|d| vec![d.bustype as u128, d.vendor as u128, d.product as u128, d.version as u128]),
                4 => input.prop_bits().map(|b| b.iter().map(|x| *x as u128).collect()),
                5 => input.ev_bits(q.subsel).map(|b| b.iter().map(|x| *x as u128).collect()),
                _ => input.abs_info(q.subsel).map(|a| vec![a.min as u128, a.max as u128, a.fuzz as u128, a.flat as u128, a.res as u128]),
            }
        }))
    };
    (r, out)
}

/// result as kind 1320 / 1323 print it
fn enc_model_res(q: &Query, r: &Res, out: &[u8]) -> Vec<u128> {
    match r {
        Ok(Ok(v)) if q.op == 0 => { let mut o = vec![0, v[0], q.out_len as u128]; o.extend(out.iter().map(|b| *b as u128)); o }
        Ok(Ok(v)) => { let mut o = vec![0, v.len() as u128]; o.extend(v); o }
        Ok(Err(e)) => vec![1, err_code(e)],
        Err(_) => vec![2, 0],
    }
}
/// result as the monitors read it: for op 0 the size followed by the bytes the call stored (the first min(size, out_len)
/// of the slice); second component: the rest of the slice still holds the fill pattern
fn enc_monitor_res(q: &Query, r: &Res, out: &[u8]) -> (Vec<u128>, bool) {
    match r {
        Ok(Ok(v)) if q.op == 0 => {
            let n = (v[0] as usize).min(out.len());
            let mut o = vec![0, 1 + n as u128, v[0]]; o.extend(out[..n].iter().map(|b| *b as u128));
            (o, out[n..].iter().all(|b| *b == FILL))
        }
        Ok(Ok(v)) => { let mut o = vec![0, v.len() as u128]; o.extend(v); (o, true) }
        // a query that fails half-way may have stored the bytes it had read: nothing is demanded of the slice then
        Ok(Err(e)) => (vec![1, err_code(e)], true),
        Err(_) => (vec![2, 0], true),
    }
}

fn note_result(ctx: &mut Ctx, q: &Query, r: &Res) {
    let what = match r { Ok(Ok(_)) => "ok", Ok(Err(Error::IoError)) => "io_error", Ok(Err(Error::ConfigSpaceTooSmall)) => "too_small",
        Ok(Err(Error::ConfigSpaceMissing)) => "missing", Ok(Err(_)) => "other_error", Err(_) => "panic" };
    ctx.tr.note(&format!("input_cfg_op{}_{}", q.op, what));
}

/// the three lines of one query. `window`: [tk; present; len; base]; `answers`: what the device answers to the reads in
/// order; `trace`: the accesses seen, (tag, off, width, val) each
fn query_lines(ctx: &mut Ctx, window: [u128; 4], q: &Query, answers: &[u8], r: &Res, out: &[u8], trace: &[[u128; 4]]) {
    let mode = ctx.release as u128;
    let mut ins = vec![mode]; ins.extend(window); ins.extend(q.enc()); ins.extend(answers.iter().map(|b| *b as u128));
    let mut outs = enc_model_res(q, r, out);
    for e in trace { outs.extend(e); }
    ctx.tr.line(1320, &ins, &outs);
    let mut mi = vec![q.sel_written() as u128, q.sub_written() as u128];
    for e in trace { mi.extend(e); }
    ctx.tr.line(1321, &mi, &[1]);
    let (mr, untouched) = enc_monitor_res(q, r, out);
    let mut mv = vec![q.qkind(), q.out_len as u128, untouched as u128]; mv.extend(mr); mv.push(trace.len() as u128);
    for e in trace { mv.extend(e); }
    ctx.tr.line(1322, &mv, &[1]);
    note_result(ctx, q, r);
    let data_reads = trace.iter().filter(|e| e[0] == 0 && e[1] >= 8).count();
    ctx.tr.note(match data_reads { 0 => "input_cfg_data_reads_0", 1..=8 => "input_cfg_data_reads_1_8", 9..=127 => "input_cfg_data_reads_9_127", 128 => "input_cfg_data_reads_128", _ => "input_cfg_data_reads_above_128" });
}

// ---------------------------------------------------------------- generators
fn sizes(ctx: &mut Ctx, few: bool) -> Vec<u8> {
    let mut v: Vec<u8> = if few { vec![0, 8, 20, 128, 129, 255] } else { vec![0, 1, 7, 8, 9, 19, 20, 21, 127, 128, 129, 255] };
    for _ in 0..(if few { 1 } else { 3 }) { v.push(ctx.rng.next() as u8); }
    v
}
fn queries(ctx: &mut Ctx, size: u8) -> Vec<Query> {
    let mut v = vec![];
    let lens = [0usize, 1, 7, 8, 9, 20, 127, 128, 129, 200, 255, 256, 300];
    // raw queries: a slice shorter than, equal to, and longer than what the device announces; always one beyond 128
    let mut ol: Vec<usize> = vec![*ctx.rng.pick(&lens), size as usize, *ctx.rng.pick(&[129usize, 200, 255, 256, 300])];
    if ctx.rng.chance(1, 2) { ol.push(ctx.rng.below(301) as usize); }
    for out_len in ol { v.push(Query { op: 0, select: *ctx.rng.pick(&[1u8, 2, 3, 0x10, 0x11, 0x12]), subsel: ctx.rng.next() as u8, out_len }); }
    for op in 1..=6u8 { v.push(Query { op, select: 0, subsel: ctx.rng.next() as u8, out_len: 0 }); }
    v
}
const TEXTS: [&[u8]; 10] = [b"Test input device", b"Serial number", b"a", b"caf\xc3\xa9", b"\xe2\x82\xac5", b"\xf0\x9f\x98\x80", b"\x80", b"\xc0\x80", b"\xed\xa0\x80", b"ab\xe2\x82"];
/// what the device puts into u: random bytes, ASCII, or one of the UTF-8 boundary texts cut / padded to `size`
fn data_for(ctx: &mut Ctx, size: u8) -> Vec<u8> {
    let mut d = ctx.rng.bytes(255);
    match ctx.rng.below(4) {
        0 => { for b in d.iter_mut() { *b = 0x20 + (*b % 0x5f); } }
        1 => { let t = TEXTS[ctx.rng.below(TEXTS.len() as u64) as usize]; for b in d.iter_mut() { *b = b'x'; } for (i, b) in t.iter().enumerate() { d[i] = *b; }
               // a multi-byte sequence cut by `size`
               if size as usize > 0 && (size as usize) < 255 && ctx.rng.chance(1, 3) { d[size as usize - 1] = 0xc3; } }
        _ => {}
    }
    d
}

// ---------------------------------------------------------------- ModelTransport
fn model_transport_window(ctx: &mut Ctx, cfg_len: usize, few: bool) {
    hal::reset();
    let mut ts = TState::new(DeviceType::Input, VERSION_1 | (1 << 28) * ctx.rng.below(2), 2, 32);
    ts.config = vec![0u8; cfg_len];
    let (t, st) = ModelTransport::new(ts);
    let r = catch_unwind(AssertUnwindSafe(move || VirtIOInput::<LedgerHal, ModelTransport>::new(t)));
    let mut input = match r { Ok(Ok(i)) => i, _ => { ctx.tr.comment("C13-input: VirtIOInput::new failed on ModelTransport"); ctx.tr.line(1399, &[], &[0]); return; } };
    let window = [1u128, 1, cfg_len as u128, 0];
    for size in sizes(ctx, few) {
        for q in queries(ctx, size) {
            let data = data_for(ctx, size);
            { let mut s = st.borrow_mut(); if cfg_len > 2 { s.config[2] = size; } for (i, b) in data.iter().enumerate() { if 8 + i < cfg_len { s.config[8 + i] = *b; } } }
            let mut answers = vec![size]; answers.extend(&data);
            hal::take_log();
            let (r, out) = run_query(&mut input, &q);
            let evs = hal::take_log();
            let cfg = st.borrow().config.clone();
            let le = |off: usize, len: usize| -> u128 { let mut v = 0u128; for i in 0..len { v |= (cfg[off + i] as u128) << (8 * i); } v };
            let mut trace = vec![];
            for e in &evs { match e {
                // ModelTransport logs a call before its window test: only accesses inside the memory are performed
                Ev::WriteConfig { off, len } if off + len <= cfg_len => trace.push([1, *off as u128, *len as u128, le(*off, *len)]),
                Ev::ReadConfig { off, len } if off + len <= cfg_len => trace.push([0, *off as u128, *len as u128, le(*off, *len)]),
                Ev::ReadGen => trace.push([2, 0xfc, 4, st.borrow().config_gen as u128]),
                _ => {} } }
            query_lines(ctx, window, &q, &answers, &r, &out, &trace);
            if matches!(r, Err(_)) { ctx.tr.note("input_cfg_panic"); }
        }
    }
    let _ = catch_unwind(AssertUnwindSafe(move || drop(input)));
    hal::take_log();
    ledger_line(ctx);
    ctx.tr.note("input_cfg_window_model_transport");
}

// ---------------------------------------------------------------- real transports over the emulated register file
fn real_window_go<T: Transport>(ctx: &mut Ctx, t: T, g: &Geo, st: &St, few: bool) {
    let r = catch_unwind(AssertUnwindSafe(move || VirtIOInput::<LedgerHal, T>::new(t)));
    let mut input = match r { Ok(Ok(i)) => i, _ => { ctx.tr.comment(&format!("C13-input: VirtIOInput::new failed on {:?}", g)); ctx.tr.line(1399, &[], &[0]); return; } };
    let window = g.enc();
    for size in sizes(ctx, few) {
        for q in queries(ctx, size) {
            let data = data_for(ctx, size);
            let mut answers = vec![size]; answers.extend(&data);
            { let mut s = st.borrow_mut(); s.answers = Some(answers.iter().map(|b| *b as u64).collect()); s.evs.clear(); }
            hal::take_log();
            let (r, out) = run_query(&mut input, &q);
            hal::take_log();
            let trace: Vec<[u128; 4]> = st.borrow().evs.iter().map(|e| [e[0], e[1], e[2], e[3]]).collect();
            query_lines(ctx, window, &q, &answers, &r, &out, &trace);
        }
    }
    st.borrow_mut().answers = None;
    let _ = catch_unwind(AssertUnwindSafe(move || drop(input)));
    hal::take_log();
    ledger_line(ctx);
    ctx.tr.note(&format!("input_cfg_window_{}", g.name()));
}
fn real_window(ctx: &mut Ctx, g: Geo, wrapped: bool, few: bool) {
    let st: St = Rc::new(RefCell::new(DevState::new(vec![0u8; g.len as usize], ctx.rng.next() as u32, g.gen_bits(), if g.tk == 0 { 1 } else { 2 }, 18, VERSION_1)));
    let Some(tp) = make(&g, &st, wrapped) else { ctx.tr.comment(&format!("C13-input: no transport for {:?}", g)); ctx.tr.line(1399, &[], &[0]); return };
    match tp { Tp::M(t) => real_window_go(ctx, t, &g, &st, few), Tp::P(t) => real_window_go(ctx, t, &g, &st, few), Tp::S(t) => real_window_go(ctx, t, &g, &st, few), Tp::H(t) => real_window_go(ctx, t, &g, &st, few) }
}

// ---------------------------------------------------------------- tearing (observation)
fn image(ctx: &mut Ctx, len: usize, size: u8, text: bool) -> Vec<u8> {
    let mut v = ctx.rng.bytes(len);
    if text { for b in v.iter_mut() { *b = 0x41 + (*b % 26); } }
    if len > 2 { v[2] = size; }
    v
}
fn torn_go<T: Transport>(ctx: &mut Ctx, t: T, g: &Geo, st: &St, q: &Query, cfg: &[u8], gen0: u32, sched: &[Vec<Vec<u8>>]) {
    let r = catch_unwind(AssertUnwindSafe(move || VirtIOInput::<LedgerHal, T>::new(t)));
    let mut input = match r { Ok(Ok(i)) => i, _ => { ctx.tr.line(1399, &[], &[0]); return; } };
    { let mut s = st.borrow_mut(); s.evs.clear(); s.sched = sched.iter().cloned().collect(); let c = s.cfg.clone(); s.snaps = vec![c]; s.cur = 0; }
    hal::take_log();
    let (r, out) = run_query(&mut input, q);
    hal::take_log();
    let (snaps, evs) = { let s = st.borrow(); (s.snaps.clone(), s.evs.clone()) };
    let mode = ctx.release as u128;
    let mut ins = vec![mode]; ins.extend(g.enc()); ins.extend([(gen0 & st.borrow().gen_mask) as u128, cfg.len() as u128]);
    ins.extend(cfg.iter().map(|b| *b as u128));
    ins.push(sched.len() as u128);
    for sl in sched { ins.push(sl.len() as u128); for img in sl { ins.extend(img.iter().map(|b| *b as u128)); } }
    ins.extend(q.enc());
    let mut outs = enc_model_res(q, &r, &out);
    for e in &evs { outs.extend(&e[0..4]); }
    ctx.tr.line(1323, &ins, &outs);
    // the accesses themselves stay inside the structure whatever the device does
    let mut mi = vec![q.sel_written() as u128, q.sub_written() as u128];
    for e in &evs { mi.extend(&e[0..4]); }
    ctx.tr.line(1321, &mi, &[1]);
    // which images did the reads see?
    let seen: std::collections::BTreeSet<u128> = evs.iter().filter(|e| e[0] == 0).map(|e| e[4]).collect();
    if seen.len() > 1 { ctx.tr.note("input_cfg_reads_span_several_images"); } else { ctx.tr.note("input_cfg_reads_one_image"); }
    if evs.iter().any(|e| e[0] == 2) { ctx.tr.note("input_cfg_generation_read_seen"); } else { ctx.tr.note("input_cfg_no_generation_read"); }
    if std::env::var("VERIF_INPUTCFG_OBSERVATIONS").is_ok() {
        let (mr, _) = enc_monitor_res(q, &r, &out);
        let mut m = vec![mode]; m.extend(g.enc()); m.extend([cfg.len() as u128, snaps.len() as u128]);
        for s in &snaps { m.extend(s.iter().map(|b| *b as u128)); }
        m.extend(q.enc()); m.extend(mr);
        ctx.tr.line(1324, &m, &[1]);
    }
    let _ = catch_unwind(AssertUnwindSafe(move || drop(input)));
    hal::take_log();
    ledger_line(ctx);
}
fn torn_case(ctx: &mut Ctx, tk: u8, q: Query, size_a: u8, size_b: u8, slot: usize) {
    let g = Geo { tk, present: true, len: 136, delta: if ctx.rng.chance(1, 2) { 0 } else { 4 } };
    let text = matches!(q.op, 1 | 2);
    let cfg = image(ctx, 136, size_a, text);
    let imgb = image(ctx, 136, size_b, text);
    let gen0 = match ctx.rng.below(3) { 0 => 0, 1 => u32::MAX, _ => ctx.rng.next() as u32 };
    let mut sched: Vec<Vec<Vec<u8>>> = vec![vec![]; slot]; sched.push(vec![imgb]);
    let st: St = Rc::new(RefCell::new(DevState::new(cfg.clone(), gen0, g.gen_bits(), 2, 18, VERSION_1)));
    let Some(tp) = make(&g, &st, false) else { ctx.tr.line(1399, &[], &[0]); return };
    match tp { Tp::M(t) => torn_go(ctx, t, &g, &st, &q, &cfg, gen0, &sched), Tp::P(t) => torn_go(ctx, t, &g, &st, &q, &cfg, gen0, &sched), Tp::S(t) => torn_go(ctx, t, &g, &st, &q, &cfg, gen0, &sched), Tp::H(t) => torn_go(ctx, t, &g, &st, &q, &cfg, gen0, &sched) }
}
fn torn_scenarios(ctx: &mut Ctx) {
    for tk in [1u8, 2] {
        // the witness of InputCfgProofs.ic_untorn_refuted: "ab" / "cd", the new image installed before the read of u[1]
        torn_case(ctx, tk, Query { op: 1, select: 0, subsel: 0, out_len: 0 }, 2, 2, 2);
        for (op, sa, sb) in [(1u8, 5u8, 5u8), (1, 4, 9), (3, 8, 8), (6, 20, 20), (0, 12, 6), (4, 3, 3), (3, 8, 7)] {
            let n = sa as usize + 1;
            for slot in [0usize, 1, 2, n / 2, n - 1, n] {
                let subsel = ctx.rng.next() as u8;
                torn_case(ctx, tk, Query { op, select: 0x10, subsel, out_len: 16 }, sa, sb, slot);
            }
        }
    }
}

/// the finding of this check as a minimal history: runs first on every check
fn finding_size_above_128(ctx: &mut Ctx) {
    hal::reset();
    let mut ts = TState::new(DeviceType::Input, VERSION_1, 2, 32);
    ts.config = (0..4096usize).map(|i| (i % 251) as u8).collect();
    ts.config[2] = 255;
    let (t, st) = ModelTransport::new(ts);
    let r = catch_unwind(AssertUnwindSafe(move || VirtIOInput::<LedgerHal, ModelTransport>::new(t)));
    let mut input = match r { Ok(Ok(i)) => i, _ => { ctx.tr.line(1399, &[], &[0]); return; } };
    let q = Query { op: 0, select: 1, subsel: 0, out_len: 255 };
    hal::take_log();
    let (r, out) = run_query(&mut input, &q);
    let evs = hal::take_log();
    let cfg = st.borrow().config.clone();
    let mut trace = vec![];
    for e in &evs { match e {
        Ev::WriteConfig { off, len } if off + len <= cfg.len() => trace.push([1, *off as u128, *len as u128, cfg[*off] as u128]),
        Ev::ReadConfig { off, len } if off + len <= cfg.len() => trace.push([0, *off as u128, *len as u128, cfg[*off] as u128]),
        _ => {} } }
    let mut answers = vec![255u8]; answers.extend(&cfg[8..8 + 255]);
    query_lines(ctx, [1, 1, 4096, 0], &q, &answers, &r, &out, &trace);
    let _ = catch_unwind(AssertUnwindSafe(move || drop(input)));
    hal::take_log();
    ledger_line(ctx);
}

/// the part about a misbehaving device (run under C07 as well)
pub fn run_device_chosen(ctx: &mut Ctx) {
    ctx.tr.scenario("c13-input-finding-size-above-128");
    finding_size_above_128(ctx);
    ctx.tr.scenario("c13-input-model-transport");
    for len in [136usize, 256, 4096, 0, 2, 3, 9, 100] { model_transport_window(ctx, len, true); }
    ctx.tr.scenario("c13-input-mmio");
    real_window(ctx, Geo { tk: 1, present: true, len: 256, delta: 0 }, false, true);
    real_window(ctx, Geo { tk: 1, present: true, len: 4096, delta: 4 }, true, true);
    real_window(ctx, Geo { tk: 1, present: true, len: 12, delta: 0 }, false, true);
    ctx.tr.scenario("c13-input-pci");
    real_window(ctx, Geo { tk: 2, present: true, len: 136, delta: 0 }, false, true);
    real_window(ctx, Geo { tk: 2, present: false, len: 4, delta: 0 }, false, true);
}

pub fn run(ctx: &mut Ctx) {
    ctx.tr.scenario("c13-input-finding-size-above-128");
    finding_size_above_128(ctx);
    ctx.tr.scenario("c13-input-model-transport");
    for len in [136usize, 137, 256, 4096, 0, 1, 2, 3, 7, 8, 9, 10, 28, 100, 135] { model_transport_window(ctx, len, false); }
    ctx.tr.scenario("c13-input-mmio");
    for (i, len) in [136u64, 256, 4096, 0, 2, 3, 9, 12, 100, 135].iter().enumerate() {
        real_window(ctx, Geo { tk: 1, present: true, len: *len, delta: if i % 2 == 0 { 0 } else { 4 } }, i % 3 == 2, i > 2);
    }
    // (a legacy MMIO device cannot carry VirtIOInput: the constructor of the driver does not complete on it)
    ctx.tr.scenario("c13-input-pci");
    for (i, len) in [136u64, 256, 4, 8, 12, 135].iter().enumerate() {
        real_window(ctx, Geo { tk: 2, present: true, len: *len, delta: if i % 2 == 0 { 0 } else { 4 } }, i % 3 == 1, i > 1);
    }
    real_window(ctx, Geo { tk: 2, present: false, len: 4, delta: 0 }, false, true);
    for _ in 0..ctx.budget(2, 10) {
        let g = Geo { tk: *ctx.rng.pick(&[1u8, 2]), present: true, len: 4 + ctx.rng.below(300), delta: 4 * ctx.rng.below(2) as usize };
        let wrapped = ctx.rng.chance(1, 3);
        real_window(ctx, g, wrapped, true);
    }
    ctx.tr.scenario("c13-input-torn");
    torn_scenarios(ctx);
}
