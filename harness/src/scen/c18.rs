//! C18: the real `VsockConnectionManager<LedgerHal, ModelTransport, RXSZ>` driven through the memory of its
//! three virtqueues by a reference vsock device/peer, in lock-step with the Coq implementation model
//! (lines 1801..1812 / 1821..1832, 1840) and with the abstract connection map (monitors 1851..1862 / 1871..1882, 1890), plus
//! the stateless property monitors 1891..1898 (see coq/theories/Extract/ConnMgrIO.v).
//!  * rx: completed buffers carry crafted 44-byte headers + payload (any buffer order, bursts, short / oversized
//!    used lengths, inconsistent length fields, invalid / unknown operations, foreign guests, unknown peers);
//!  * tx: every chain the driver publishes is read through device addresses only (direct or indirect) and
//!    compared byte for byte with the packets the model predicts;
//!  * after every operation the public API is probed for every key of the scenario's universe
//!    (is_connection_established / recv_buffer_available_bytes): the connection table sorted by key.
//!  * transmissions that FAIL (scenarios c18-finding-*, c18-txfail-*): the tx device completes a chain under a wrong id
//!    (`add_notify_wait_pop` returns WrongToken and leaves its chain allocated and the used element unconsumed), either in a
//!    way that lets the next transmission succeed again (`TxMode::WrongHeal`) or not (`WrongSticky`: every later
//!    transmission fails, until the descriptors are used up and `add` fails with QueueFull - the only way QueueFull is
//!    reachable through the manager, whose sends all wait for their completion). The device keeps the books of the driver
//!    side of the queue and PREDICTS the fate of every transmission before the call: that prediction is the input
//!    [s1 e1 s2 e2] of the lines 1821..1832 (implementation model `cm_step_tx`) and 1871..1882 (specification
//!    `sp_step_tx`); monitors 1896..1898 state single clauses (a failed operation leaves the connection it names as it was,
//!    a failed send consumes no credit, a peer shutdown whose RST fails is not forgotten). Every public operation and every
//!    reply sent from inside `poll` is failed in directed scripts and in random histories, and the history goes on.
use crate::hal::{self, LedgerHal};
use crate::scen::c19::ODev;
use crate::scen::common::*;
use crate::scen::qrig::{read_desc, QAddr};
use crate::tport::{ModelTransport, TState};
use crate::Ctx;
use std::cell::RefCell;
use std::panic::{catch_unwind, AssertUnwindSafe};
use std::rc::Rc;
use virtio_drivers::device::socket::{SocketError, VirtIOSocket, VsockAddr, VsockConnectionManager, VsockEvent, VsockEventType, DisconnectReason};
use virtio_drivers::transport::DeviceType;
use virtio_drivers::verif::Event;
use virtio_drivers::Error;

const QN: usize = 8;
const SPIN_LIMIT: u32 = 64;

/// what the reference device does with the NEXT chain the driver publishes on the tx queue
#[derive(Clone, Copy, PartialEq, Eq, Debug)]
enum TxMode {
    /// completes it under its own id
    Healthy,
    /// completes it under the id of the chain the driver will publish AFTER it (and puts that id into every used
    /// element the driver has not consumed yet): this transmission fails with WrongToken, its descriptors stay
    /// allocated, and the following transmissions succeed again (the driver then consumes the used element of the
    /// transmission before)
    WrongHeal,
    /// completes it under this id, once; what follows is whatever the driver makes of the unconsumed element
    WrongSticky(u32),
}

/// the transmit side of the reference device. It also keeps the books of the driver side of the tx queue as far as
/// the device can know them (which descriptors were never recycled, how many used elements were consumed): after
/// a WrongToken `add_notify_wait_pop` leaves its chain allocated and the used element unconsumed, so the fate of every
/// later transmission is decided by what the used ring holds at the element the driver looks at next, and by the
/// number of descriptors left (QueueFull). `predict` computes that fate BEFORE the operation: it is an input of the
/// model; `service` books what really happened and `check_prediction` compares.
struct TxDev { a: QAddr, seen: u16, used: u16, event_idx: bool, on_notify: bool, serve_at: u32, spins: u32, packets: Vec<Vec<u8>>, gave_up: bool, malformed: u32,
    indirect: bool, mode: TxMode, leaked: [bool; QN], pops: u16, serviced: Vec<(u16, usize, bool)>, late: u32 }
thread_local! { static TX: RefCell<Option<TxDev>> = RefCell::new(None); }

impl TxDev {
    /// bytes of the readable elements of the chain starting at `head` (direct or indirect), in order, and the
    /// descriptors of the table the chain occupies
    fn chain_bytes(&mut self, head: u16) -> (Vec<u8>, Vec<usize>) {
        let mut out = vec![];
        let mut descs = vec![];
        let n = self.a.size;
        if head as usize >= n { self.malformed += 1; return (out, descs); }
        let (addr, len, flags, _) = match read_desc(&self.a, head as usize) { Some(d) => d, None => { self.malformed += 1; return (out, descs); } };
        if flags & 4 != 0 {
            descs.push(head as usize);
            match hal::dev_read(addr, len as usize) {
                Ok(t) => {
                    let m = len as usize / 16; let mut i = 0usize; let mut steps = 0;
                    while i < m && steps <= m {
                        let d = &t[16 * i..16 * i + 16];
                        let (a, l, f) = (u64::from_le_bytes(d[0..8].try_into().unwrap()), u32::from_le_bytes(d[8..12].try_into().unwrap()), u16::from_le_bytes([d[12], d[13]]));
                        if f & 2 != 0 { self.malformed += 1; } else { match hal::dev_read(a, l as usize) { Ok(b) => out.extend(b), Err(_) => self.malformed += 1 } }
                        steps += 1;
                        if f & 1 == 0 { break; }
                        i = u16::from_le_bytes([d[14], d[15]]) as usize;
                    }
                }
                Err(_) => self.malformed += 1,
            }
        } else {
            let mut cur = head as usize; let mut steps = 0;
            loop {
                if cur >= n { self.malformed += 1; break; }
                let (a, l, f, nx) = read_desc(&self.a, cur).unwrap();
                descs.push(cur);
                if f & 2 != 0 { self.malformed += 1; } else { match hal::dev_read(a, l as usize) { Ok(b) => out.extend(b), Err(_) => self.malformed += 1 } }
                steps += 1;
                if f & 1 == 0 || steps > n { break; }
                cur = nx as usize;
            }
        }
        (out, descs)
    }
    fn ring_id(&self, idx: u16) -> u32 { hal::dev_read(self.a.dev + 4 + 8 * ((idx as usize) & (self.a.size - 1)) as u64, 4).map(|b| u32::from_le_bytes(b[0..4].try_into().unwrap())).unwrap_or(u32::MAX) }
    fn write_used(&self, idx: u16, id: u32) {
        let uslot = (idx as usize) & (self.a.size - 1);
        hal::dev_write_u32(self.a.dev + 4 + 8 * uslot as u64, id).unwrap();
        hal::dev_write_u32(self.a.dev + 8 + 8 * uslot as u64, 0).unwrap();
    }
    /// descriptors the driver can still allocate, in the order of its free list (ascending: `recycle_descriptors`
    /// puts a chain back in front of the list it was taken from)
    fn free_list(&self) -> Vec<usize> { (0..QN).filter(|i| !self.leaked[*i]).collect() }
    /// the id under which a chain (head, the table descriptors it occupies) is completed in mode `mode`
    fn completion_id(&self, mode: TxMode, head: u16, descs: &[usize]) -> u32 {
        match mode {
            TxMode::Healthy => head as u32,
            TxMode::WrongSticky(x) => x,
            TxMode::WrongHeal => self.free_list().into_iter().find(|d| !descs.contains(d)).map(|d| d as u32).unwrap_or(0xffff),
        }
    }
    /// the fate of the next transmission of a packet needing `needed` buffers (1 = header only, 2 = header + payload):
    /// (0, 0) Ok, (1, 1) `add` fails with QueueFull, (2, 3) `pop_used` fails with WrongToken
    fn predict(&self, needed: usize) -> (u128, u128) {
        let need = if self.indirect { 1 } else { needed };
        let fl = self.free_list();
        if fl.len() < need { return (1, 1); }
        let head = fl[0] as u16;
        let id = self.completion_id(self.mode, head, &fl[..need]);
        let checked = if self.pops == self.used || self.mode == TxMode::WrongHeal { id } else { self.ring_id(self.pops) };
        if checked == head as u32 { (0, 0) } else { (2, 3) }
    }
    fn service(&mut self) {
        let n = self.a.size;
        let aidx = hal::dev_read_u16(self.a.drv + 2).unwrap();
        while self.seen != aidx {
            let slot = (self.seen as usize) & (n - 1);
            let head = hal::dev_read_u16(self.a.drv + 4 + 2 * slot as u64).unwrap();
            let (bytes, descs) = self.chain_bytes(head);
            self.packets.push(bytes);
            let mode = std::mem::replace(&mut self.mode, TxMode::Healthy);
            let id = self.completion_id(mode, head, &descs);
            if mode == TxMode::WrongHeal { let mut i = self.pops; while i != self.used { self.write_used(i, id); i = i.wrapping_add(1); } }
            self.write_used(self.used, id);
            self.used = self.used.wrapping_add(1);
            hal::dev_write_u16(self.a.dev + 2, self.used).unwrap();
            self.seen = self.seen.wrapping_add(1);
            // what pop_used(head) finds at the element the driver consumes next
            let ok = self.ring_id(self.pops) == head as u32;
            if ok { self.pops = self.pops.wrapping_add(1); } else { for d in &descs { if *d < QN { self.leaked[*d] = true; } } }
            self.serviced.push((head, descs.len(), ok));
        }
        if self.event_idx { hal::dev_write_u16(self.a.dev + 4 + 8 * n as u64, self.seen).unwrap(); }
    }
}

fn observer(e: Event) {
    if let Event::Spin(0) = e {
        let mut hopeless = false;
        TX.with(|t| { if let Some(tx) = t.borrow_mut().as_mut() {
            tx.spins += 1;
            if tx.spins >= tx.serve_at { tx.service(); }
            if tx.spins > SPIN_LIMIT { tx.gave_up = true; hopeless = true; }
        } });
        if hopeless { panic!("add_notify_wait_pop on the tx queue can never end"); }
    }
}

fn sock_code(e: &SocketError) -> u128 {
    let (c, a): (u128, u128) = match e {
        SocketError::ConnectionExists => (1, 0), SocketError::NotConnected => (2, 0), SocketError::PeerSocketShutdown => (3, 0),
        SocketError::BufferTooShort => (4, 0), SocketError::OutputBufferTooShort(n) => (5, *n as u128), SocketError::BufferTooLong(a, _) => (6, *a as u128),
        SocketError::UnknownOperation(o) => (7, *o as u128), SocketError::InvalidOperation => (8, 0), SocketError::InvalidNumber => (9, 0),
        SocketError::UnexpectedDataInPacket => (10, 0), SocketError::InsufficientBufferSpaceInPeer => (11, 0), SocketError::RecycledWrongBuffer => (12, 0),
    };
    100 + c + 256 * a
}
fn ecode(e: &Error) -> u128 { match e { Error::SocketDeviceError(s) => sock_code(s), _ => err_code(e) } }

#[derive(Clone, Copy, PartialEq, Eq, Debug)]
struct Key { cid: u64, port: u32, lp: u32 }
impl Key { fn addr(&self) -> VsockAddr { VsockAddr { cid: self.cid, port: self.port } } fn enc(&self) -> [u128; 3] { [self.cid as u128, self.port as u128, self.lp as u128] } }

#[derive(Clone, Debug)]
struct Hdr { src_cid: u64, dst_cid: u64, src_port: u32, dst_port: u32, len: u32, ty: u16, op: u16, flags: u32, buf_alloc: u32, fwd_cnt: u32 }
impl Hdr {
    fn bytes(&self) -> Vec<u8> {
        let mut v = vec![];
        v.extend(self.src_cid.to_le_bytes()); v.extend(self.dst_cid.to_le_bytes()); v.extend(self.src_port.to_le_bytes()); v.extend(self.dst_port.to_le_bytes());
        v.extend(self.len.to_le_bytes()); v.extend(self.ty.to_le_bytes()); v.extend(self.op.to_le_bytes()); v.extend(self.flags.to_le_bytes());
        v.extend(self.buf_alloc.to_le_bytes()); v.extend(self.fwd_cnt.to_le_bytes());
        v
    }
}

#[derive(Clone, Debug)]
enum Act {
    Listen(u32), Unlisten(u32), Connect(Key), Send(Key, Vec<u8>), Recv(Key, usize), Avail(Key), Established(Key), UpdateCredit(Key),
    Shutdown(Key), ForceClose(Key), PortUsed(u32), Poll,
    /// the device completes an rx buffer: header, payload actually written, claimed used length (None = 44 + payload)
    Packet(Hdr, Vec<u8>, Option<u32>),
    /// raw bytes (shorter than a header, say)
    Raw(Vec<u8>, u32),
}

struct Sim<const RXSZ: usize> {
    mgr: VsockConnectionManager<LedgerHal, ModelTransport, RXSZ>,
    st: Rc<RefCell<TState>>,
    rx: ODev,
    /// completions the driver has not polled yet, in used-ring order: (claimed length, what buffer[0..min(len,RXSZ)] holds)
    pending: Vec<(u32, Vec<u8>)>,
    guest: u64,
    cap: u32,
    universe: Vec<Key>,
    table: Vec<[u128; 3]>,
    monitors: bool,
    /// the tx device of this simulation may fail transmissions: every operation line carries the predicted fate of
    /// its transmission (kinds 1821..1832 / 1871..1882 instead of 1801..1812 / 1851..1862)
    txf: bool,
    /// a monitor kind that is written even when `monitors` is off (the scenarios that exhibit one finding each)
    only: Option<u64>,
    /// transmissions that failed in this simulation
    tx_failures: u32,
}

/// how an operation's transmission is to fare
#[derive(Clone, Copy, PartialEq, Eq, Debug)]
enum Arm {
    /// the device is healthy for this operation (the transmission may still fail because of what an earlier failure left behind)
    No,
    /// the device fails the transmission of this operation in the given way
    Force(TxMode),
    /// random histories: fail it (healing mode) with probability 1/n where the policy `may_fail` allows
    Auto(u64),
}

/// Failure points at which the UNCHANGED code violates the property (findings C18-txfail-A..E, see DESIGN / the
/// report): `send` debits tx_cnt before a transmission that fails; `recv` drains the buffer before the RST that
/// fails; a REQUEST for a new connection leaves its entry behind when the RESPONSE / RST cannot be sent; a
/// SHUTDOWN of a drained connection is forgotten when the RST cannot be sent. Each is exhibited by its own
/// scenario `c18-finding-*` (first in the run). While they are open the RANDOM histories and the directed
/// failure scripts do not fail a transmission at these four points, so that every other error path stays
/// checkable against the specification; set to false once the code is repaired.
const OPEN_FINDINGS: bool = true;

fn ev_enc(ev: &VsockEvent) -> Vec<u128> {
    let (t, a): (u128, u128) = match ev.event_type {
        VsockEventType::ConnectionRequest => (0, 0), VsockEventType::Connected => (1, 0),
        VsockEventType::Disconnected { reason: DisconnectReason::Reset } => (2, 0), VsockEventType::Disconnected { reason: DisconnectReason::Shutdown } => (3, 0),
        VsockEventType::Received { length } => (4, length as u128), VsockEventType::CreditRequest => (5, 0), VsockEventType::CreditUpdate => (6, 0),
    };
    vec![0, 4, ev.source.cid as u128, ev.source.port as u128, ev.destination.cid as u128, ev.destination.port as u128,
         ev.buffer_status.buffer_allocation as u128, ev.buffer_status.forward_count as u128, t, a]
}

impl<const RXSZ: usize> Sim<RXSZ> {
    fn new(ctx: &mut Ctx, feats: u64, guest: u64, cap: u32, universe: Vec<Key>, monitors: bool) -> Option<Self> { Self::new_tx(ctx, feats, guest, cap, universe, monitors, false) }
    fn new_tx(ctx: &mut Ctx, feats: u64, guest: u64, cap: u32, universe: Vec<Key>, monitors: bool, txf: bool) -> Option<Self> {
        hal::reset();
        TX.with(|t| *t.borrow_mut() = None);
        virtio_drivers::verif::set_observer(Some(observer));
        let mut ts = TState::new(DeviceType::Socket, feats, 3, 8 + ctx.rng.below(3) as u32 * 12);
        ts.config = { let mut c = vec![]; c.extend((guest as u32).to_le_bytes()); c.extend(((guest >> 32) as u32).to_le_bytes()); c };
        let (t, st) = ModelTransport::new(ts);
        let r = catch_unwind(AssertUnwindSafe(move || VirtIOSocket::<LedgerHal, ModelTransport, RXSZ>::new(t)));
        let drv = match r { Ok(Ok(d)) => d, _ => { ctx.tr.comment("VirtIOSocket::new failed"); return None; } };
        let mgr = VsockConnectionManager::new_with_capacity(drv, cap);
        let (rxq, txq) = { let s = st.borrow(); (s.queues[0], s.queues[1]) };
        let rxa = QAddr { desc: rxq.desc, drv: rxq.drv, dev: rxq.dev, size: QN };
        let txa = QAddr { desc: txq.desc, drv: txq.drv, dev: txq.dev, size: QN };
        let negotiated = feats & ((1 << 28) | (1 << 29) | (1 << 32) | (1 << 33));
        // a device that may fail transmissions serves the queue when it is notified: once the driver is one used element
        // behind (after a WrongToken) it no longer waits, so a device serving on the busy-wait hook would be overtaken
        let on_notify = ctx.rng.chance(1, 2) || txf;
        let serve_at = if on_notify { 2 } else { 1 + ctx.rng.below(3) as u32 };
        TX.with(|t| *t.borrow_mut() = Some(TxDev { a: txa, seen: 0, used: 0, event_idx: negotiated & (1 << 29) != 0, on_notify, serve_at, spins: 0, packets: vec![], gave_up: false, malformed: 0,
            indirect: negotiated & (1 << 28) != 0, mode: TxMode::Healthy, leaked: [false; QN], pops: 0, serviced: vec![], late: 0 }));
        st.borrow_mut().on_notify = Some(Box::new(|q, _s| { if q == 1 { TX.with(|t| { if let Some(tx) = t.borrow_mut().as_mut() { if tx.on_notify { tx.service(); } } }); } }));
        hal::take_log();
        ctx.tr.line(1800, &[ctx.release as u128, guest as u128, cap as u128, RXSZ as u128], &[]);
        let mut s = Sim { mgr, st, rx: ODev { a: rxa, seen: 0, used: 0, fetched: vec![] }, pending: vec![], guest, cap, universe, table: vec![], monitors, txf, only: None, tx_failures: 0 };
        s.rx.fetch();
        s.stock_line(ctx);
        s.table = s.probe(ctx);
        Some(s)
    }

    fn mon(&self, ctx: &mut Ctx, kind: u64, ins: &[u128]) { if self.monitors || self.only == Some(kind) { ctx.tr.line(kind, ins, &[1]); } }

    fn stock_line(&mut self, ctx: &mut Ctx) {
        self.rx.fetch();
        self.mon(ctx, 1893, &[self.rx.posted() as u128, self.pending.len() as u128, QN as u128]);
    }

    /// [present; established; available] of one key through the public API
    fn probe_key(&mut self, k: &Key) -> [u128; 3] {
        let m = &mut self.mgr;
        let e = catch_unwind(AssertUnwindSafe(|| m.is_connection_established(k.addr(), k.lp)));
        let m = &mut self.mgr;
        let a = catch_unwind(AssertUnwindSafe(|| m.recv_buffer_available_bytes(k.addr(), k.lp)));
        match (e, a) {
            (Ok(Ok(est)), Ok(Ok(av))) => [1, est as u128, av as u128],
            (Ok(Err(Error::SocketDeviceError(SocketError::NotConnected))), Ok(Err(Error::SocketDeviceError(SocketError::NotConnected)))) => [0, 0, 0],
            _ => [9, 9, 9],
        }
    }
    fn probe(&mut self, ctx: &mut Ctx) -> Vec<[u128; 3]> {
        let keys = self.universe.clone();
        let tab: Vec<[u128; 3]> = keys.iter().map(|k| self.probe_key(k)).collect();
        let ins: Vec<u128> = keys.iter().flat_map(|k| k.enc()).collect();
        let outs: Vec<u128> = tab.iter().flat_map(|t| t.iter().cloned()).collect();
        ctx.tr.line(1840, &ins, &outs);
        let mut m = vec![keys.len() as u128]; m.extend(ins); m.extend(outs);
        self.mon(ctx, 1890, &m);
        tab
    }

    fn take_tx(&mut self) -> Vec<Vec<u8>> {
        TX.with(|t| { let mut t = t.borrow_mut(); let tx = t.as_mut().unwrap(); tx.spins = 0;
            // a chain the driver published but did not wait for (it must not happen: the device serves on notify)
            let before = tx.packets.len(); tx.service(); if tx.packets.len() != before { tx.late += 1; }
            tx.mode = TxMode::Healthy;
            std::mem::take(&mut tx.packets) })
    }
    /// the fate of the transmission the next operation may make, [s1, e1, s2, e2] (header only / with payload), with
    /// the device in mode `mode` for it; and the chain the driver is expected to publish (head, free descriptors)
    fn arm_tx(&mut self, mode: TxMode) -> [u128; 4] {
        TX.with(|t| { let mut t = t.borrow_mut(); let tx = t.as_mut().unwrap(); tx.mode = mode; tx.serviced.clear();
            let (a, b) = (tx.predict(1), tx.predict(2)); [a.0, a.1, b.0, b.1] })
    }
    fn tx_free(&self) -> usize { TX.with(|t| t.borrow().as_ref().unwrap().free_list().len()) }
    /// is a healthy device able to carry the next transmission (false: an earlier failure still poisons the queue)?
    fn tx_usable(&self) -> bool { TX.with(|t| { let t = t.borrow(); let tx = t.as_ref().unwrap(); tx.mode == TxMode::Healthy && tx.predict(1) == (0, 0) && tx.predict(2) == (0, 0) }) }
    /// what the device saw the driver do against what was predicted: at most one chain per operation, published under
    /// the predicted head, and faring as predicted
    fn check_prediction(&mut self, pred: &[u128; 4], head_pred: Option<u16>, class: u128, code: u128) -> Option<(u128, u128)> {
        let serviced = TX.with(|t| std::mem::take(&mut t.borrow_mut().as_mut().unwrap().serviced));
        if serviced.len() > 1 { hal::violate(format!("{} tx chains in one operation", serviced.len())); }
        let mut fate = None;
        if let Some((head, ndesc, ok)) = serviced.first() {
            if Some(*head) != head_pred { hal::violate(format!("tx chain published under head {} where the device's books say {:?}", head, head_pred)); }
            // two table descriptors: a packet with a payload on a queue without indirect descriptors (with them both
            // shapes take one descriptor and share their fate)
            let p = if *ndesc >= 2 { (pred[2], pred[3]) } else { (pred[0], pred[1]) };
            if *ok != (p.0 == 0) { hal::violate(format!("tx chain fared ok={} where the device's books predicted {:?}", ok, pred)); }
            if !*ok { fate = Some((2u128, 3u128)); self.tx_failures += 1; }
        } else if class == 1 && ((pred[0] == 1 && code == pred[1]) || (pred[2] == 1 && code == pred[3])) {
            // `add` refused the chain: nothing reached the device
            fate = Some((1, code)); self.tx_failures += 1;
        }
        fate
    }
    fn enc_tx(pk: &[Vec<u8>]) -> Vec<u128> {
        let mut o = vec![pk.len() as u128];
        for p in pk { o.push(p.len() as u128); o.extend(p.iter().map(|b| *b as u128)); }
        o
    }
    fn tx_op(pk: &[Vec<u8>]) -> u128 { pk.first().map(|p| if p.len() >= 32 { u16::from_le_bytes([p[30], p[31]]) as u128 } else { 999 }).unwrap_or(0) }

    /// the device writes `data` into an available rx buffer (any of those it holds) and publishes `ulen`
    fn deliver(&mut self, ctx: &mut Ctx, data: &[u8], ulen: u32) -> bool {
        self.rx.fetch();
        if self.rx.fetched.is_empty() { return false; }
        let k = ctx.rng.below(self.rx.fetched.len() as u64) as usize;
        self.rx.complete(k, data, ulen);
        let m = (ulen as usize).min(RXSZ);
        let mut held = data.to_vec(); held.truncate(m); held.resize(m, 0);
        self.pending.push((ulen, held));
        true
    }

    /// one operation of the real code: the lock-step line, the spec monitor line, the property monitors, the probe
    fn exec(&mut self, ctx: &mut Ctx, act: &Act) { self.exec_arm(ctx, act, Arm::No); }

    /// where the policy for random histories lets a transmission fail (everywhere once the findings are closed)
    fn may_fail(&self, act: &Act, pkt_op: Option<u128>, present_before: bool) -> bool {
        if !OPEN_FINDINGS { return true; }
        match act {
            Act::Connect(_) | Act::UpdateCredit(_) | Act::Shutdown(_) | Act::ForceClose(_) => true,
            Act::Send(_, d) => d.is_empty(),            // finding A: tx_cnt is debited before the transmission
            Act::Recv(..) => false,                      // finding B: the buffer is drained before the RST
            // finding C: a request for a NEW connection; finding D: the shutdown of a drained connection
            Act::Poll => match pkt_op { Some(7) => true, Some(1) => present_before, _ => false },
            _ => false,
        }
    }

    /// [class, code, s, e, bytes received]: (s, e) = the failure of this operation's transmission, (0, 0) if none
    fn exec_arm(&mut self, ctx: &mut Ctx, act: &Act, arm: Arm) -> [u128; 5] {
        let (kind, ins, key): (u64, Vec<u128>, Option<Key>) = match act {
            Act::Packet(h, payload, claimed) => {
                let mut data = h.bytes(); data.extend(payload);
                let ulen = claimed.unwrap_or(data.len() as u32);
                if !self.deliver(ctx, &data, ulen) { ctx.tr.note("rx_no_buffer_available"); }
                ctx.tr.note(&format!("packet_op_{}", if h.op <= 8 { h.op } else { 9 }));
                return [0; 5];
            }
            Act::Raw(data, ulen) => { if self.deliver(ctx, data, *ulen) { ctx.tr.note("packet_raw"); } return [0; 5]; }
            Act::Listen(p) => (1801, vec![*p as u128], None),
            Act::Unlisten(p) => (1802, vec![*p as u128], None),
            Act::Connect(k) => (1803, k.enc().to_vec(), Some(*k)),
            Act::Send(k, d) => { let mut i = k.enc().to_vec(); i.extend(d.iter().map(|b| *b as u128)); (1804, i, Some(*k)) }
            Act::Recv(k, n) => { let mut i = k.enc().to_vec(); i.push(*n as u128); (1805, i, Some(*k)) }
            Act::Avail(k) => (1806, k.enc().to_vec(), Some(*k)),
            Act::Established(k) => (1807, k.enc().to_vec(), Some(*k)),
            Act::UpdateCredit(k) => (1808, k.enc().to_vec(), Some(*k)),
            Act::Shutdown(k) => (1809, k.enc().to_vec(), Some(*k)),
            Act::ForceClose(k) => (1810, k.enc().to_vec(), Some(*k)),
            Act::PortUsed(p) => (1811, vec![*p as u128], None),
            Act::Poll => {
                let mut i = vec![];
                match self.pending.first() { Some((ulen, held)) => { i.push(1); i.push(*ulen as u128); i.extend(held.iter().map(|b| *b as u128)); } None => { i.extend([0, 0]); } }
                (1812, i, None)
            }
        };
        // the key a packet names, and what the harness knows about its framing (inputs of the packet monitor)
        let mut pkt_info: Option<(Key, [u128; 4], u128, u128)> = None; // key, [framing_ok, for_us, op, len], body_len, _
        let key = if let Act::Poll = act {
            match self.pending.first() {
                Some((ulen, held)) => {
                    let ul = *ulen as usize;
                    if ul <= RXSZ && held.len() >= 44 {
                        let f = |o: usize, n: usize| -> u64 { let mut b = [0u8; 8]; b[..n].copy_from_slice(&held[o..o + n]); u64::from_le_bytes(b) };
                        let (src_cid, dst_cid, src_port, dst_port, len, op) = (f(0, 8), f(8, 8), f(16, 4) as u32, f(20, 4) as u32, f(24, 4), f(30, 2));
                        let framing_ok = 44 + len as usize <= held.len();
                        let k = Key { cid: src_cid, port: src_port, lp: dst_port };
                        pkt_info = Some((k, [framing_ok as u128, (dst_cid == self.guest) as u128, op as u128, len as u128], if framing_ok { len as u128 } else { 0 }, 0));
                        if framing_ok && dst_cid == self.guest { Some(k) } else { None }
                    } else {
                        pkt_info = Some((Key { cid: 0, port: 0, lp: 0 }, [0, 0, 0, 0], 0, 0));
                        None
                    }
                }
                None => None,
            }
        } else { key };
        let before_key = match (&key, &pkt_info) { (Some(k), _) => Some(self.probe_key(k)), (None, Some((k, ..))) => Some(self.probe_key(k)), _ => None };
        let probe_k = match (&key, &pkt_info) { (Some(k), _) => Some(*k), (None, Some((k, ..))) => Some(*k), _ => None };

        // ---- the fate of the transmission this operation may make ----
        let pkt_op = match (act, &pkt_info) { (Act::Poll, Some((_, info, ..))) if info[0] == 1 && info[1] == 1 => Some(info[2]), _ => None };
        let mode = match arm {
            Arm::No => TxMode::Healthy,
            Arm::Force(m) => m,
            Arm::Auto(n) => if self.txf && self.may_fail(act, pkt_op, before_key.map(|b| b[0] == 1).unwrap_or(false)) && self.tx_free() >= 4 && self.tx_usable() && ctx.rng.chance(1, n) { TxMode::WrongHeal } else { TxMode::Healthy },
        };
        let pred = self.arm_tx(mode);
        let head_pred = TX.with(|t| t.borrow().as_ref().unwrap().free_list().first().map(|d| *d as u16));
        if mode != TxMode::Healthy { ctx.tr.note(&format!("tx_armed_op_{}", kind)); }

        // ---- the call ----
        let m = &mut self.mgr;
        let mut recv_bytes: Vec<u8> = vec![];
        let res: Vec<u128> = match act {
            Act::Listen(p) => { match catch_unwind(AssertUnwindSafe(|| m.listen(*p))) { Ok(()) => vec![0, 0], Err(_) => vec![2, 0] } }
            Act::Unlisten(p) => { match catch_unwind(AssertUnwindSafe(|| m.unlisten(*p))) { Ok(()) => vec![0, 0], Err(_) => vec![2, 0] } }
            Act::Connect(k) => unit_res(catch_unwind(AssertUnwindSafe(|| m.connect(k.addr(), k.lp)))),
            Act::Send(k, d) => unit_res(catch_unwind(AssertUnwindSafe(|| m.send(k.addr(), k.lp, d)))),
            Act::Recv(k, n) => {
                let mut buf = vec![0xEEu8; *n];
                let r = catch_unwind(AssertUnwindSafe(|| m.recv(k.addr(), k.lp, &mut buf)));
                match r {
                    Ok(Ok(cnt)) => { let c = cnt.min(*n); recv_bytes = buf[..c].to_vec();
                        // bytes beyond the count must be untouched
                        if buf[c..].iter().any(|b| *b != 0xEE) { hal::violate("recv wrote beyond the returned count".into()); }
                        let mut v = vec![0, 2, cnt as u128]; v.extend(recv_bytes.iter().map(|b| *b as u128)); v }
                    Ok(Err(e)) => vec![1, ecode(&e)], Err(_) => vec![2, 0],
                }
            }
            Act::Avail(k) => num_res(catch_unwind(AssertUnwindSafe(|| m.recv_buffer_available_bytes(k.addr(), k.lp).map(|v| v as u128)))),
            Act::Established(k) => num_res(catch_unwind(AssertUnwindSafe(|| m.is_connection_established(k.addr(), k.lp).map(|v| v as u128)))),
            Act::UpdateCredit(k) => unit_res(catch_unwind(AssertUnwindSafe(|| m.update_credit(k.addr(), k.lp)))),
            Act::Shutdown(k) => unit_res(catch_unwind(AssertUnwindSafe(|| m.shutdown(k.addr(), k.lp)))),
            Act::ForceClose(k) => unit_res(catch_unwind(AssertUnwindSafe(|| m.force_close(k.addr(), k.lp)))),
            Act::PortUsed(p) => { match catch_unwind(AssertUnwindSafe(|| m.is_local_port_used(*p))) { Ok(b) => vec![0, 1, b as u128], Err(_) => vec![2, 0] } }
            Act::Poll => {
                match catch_unwind(AssertUnwindSafe(|| m.poll())) {
                    Ok(Ok(None)) => vec![0, 3], Ok(Ok(Some(ev))) => ev_enc(&ev), Ok(Err(e)) => vec![1, ecode(&e)], Err(_) => vec![2, 0],
                }
            }
            _ => unreachable!(),
        };
        let tx = self.take_tx();
        let mut outs = res.clone(); outs.extend(Self::enc_tx(&tx));
        let (lkind, lins): (u64, Vec<u128>) = if self.txf { let mut v = pred.to_vec(); v.extend(ins.iter().cloned()); (kind + 20, v) } else { (kind, ins.clone()) };
        ctx.tr.line(lkind, &lins, &outs);
        let mut mi = vec![lins.len() as u128]; mi.extend(lins.iter().cloned()); mi.extend(outs.iter().cloned());
        self.mon(ctx, lkind + 50, &mi);
        let class = res[0]; let code = res.get(1).cloned().unwrap_or(0);
        ctx.tr.note(&format!("op_{}_class_{}", kind, class));
        if class == 1 { ctx.tr.note(&format!("err_{}", code & 0xff)); }
        let fate = self.check_prediction(&pred, head_pred, class, code);
        if !self.txf && fate.is_some() { hal::violate("a transmission failed on a healthy tx device".into()); }
        if let Some((s, e)) = fate { ctx.tr.note(&format!("tx_failed_op_{}_stage_{}_err_{}", kind, s, e)); }

        if let Act::Poll = act {
            if !self.pending.is_empty() && class != 2 { self.pending.remove(0); }
            self.stock_line(ctx);
        }
        let after_key = probe_k.map(|k| self.probe_key(&k));
        // ---- property monitors on what was observed ----
        if let (Some(b), Some(a), true, 1803..=1812) = (&before_key, &after_key, self.txf, kind) {
            let (s, e) = fate.unwrap_or((0, 0));
            self.mon(ctx, 1896, &[kind as u128, s, e, b[0], b[1], b[2], class, code, a[0], a[1], a[2]]);
        }
        if let (Some(k), 1803..=1810, None) = (&key, kind, fate) {
            let b = before_key.unwrap(); let a = after_key.unwrap();
            let _ = k;
            self.mon(ctx, 1892, &[kind as u128, b[0], class, code, tx.len() as u128, a[0]]);
        }
        if let (Act::Recv(_, n), None) = (act, fate) {
            let b = before_key.unwrap(); let a = after_key.unwrap();
            self.mon(ctx, 1895, &[b[0], b[2], *n as u128, class, recv_bytes.len() as u128, tx.len() as u128, Self::tx_op(&tx), a[0], a[2]]);
        }
        if let (Act::Poll, Some((_, info, body_len, _))) = (act, &pkt_info) {
            let b = before_key.unwrap(); let a = after_key.unwrap();
            let has_event = (res.len() > 1 && res[0] == 0 && res[1] == 4) as u128;
            if fate.is_none() { self.mon(ctx, 1894, &[info[0], info[1], info[2], info[3], b[0], b[2], *body_len, class, has_event, tx.len() as u128, Self::tx_op(&tx), a[0], a[2], a[1]]); }
            ctx.tr.note(if info[0] == 0 { "poll_bad_framing" } else if info[1] == 0 { "poll_foreign_guest" } else if b[0] == 0 { "poll_unknown_connection" } else { "poll_known_connection" });
        }
        // the whole table, and the frame condition
        let tab = self.probe(ctx);
        let mut f = match &key { Some(k) => { let mut v = vec![1u128]; v.extend(k.enc()); v } None => vec![0, 0, 0, 0] };
        for (i, k) in self.universe.iter().enumerate() { f.extend(k.enc()); f.extend(self.table[i]); f.extend(tab[i]); }
        self.mon(ctx, 1891, &f);
        let live = tab.iter().filter(|t| t[0] == 1).count();
        ctx.tr.note(&format!("table_size_{}", live.min(6)));
        self.table = tab;
        let (s, e) = fate.unwrap_or((0, 0));
        [class, code, s, e, recv_bytes.len() as u128]
    }

    fn finish(mut self, ctx: &mut Ctx) {
        // drain what the device still has to say, then every buffer, then close everything
        // a tx queue that an earlier failure has left unusable (an unconsumed wrong id, no descriptors) fails every
        // further transmission: the clean-up below would only repeat the error paths already taken
        let usable = self.tx_usable();
        if !usable { ctx.tr.note("finish_tx_unusable"); }
        let mut polls = 0;
        while !self.pending.is_empty() && usable && polls < 2 * QN { self.exec(ctx, &Act::Poll); polls += 1; }
        for k in self.universe.clone() {
            if !usable { break; }
            self.exec(ctx, &Act::UpdateCredit(k));
            // what the connection believes about the peer's credit shows in which of these are accepted
            for l in [1usize, 9, 40, 70, 700] { self.exec(ctx, &Act::Send(k, vec![0x5a; l])); }
            self.exec(ctx, &Act::Recv(k, 4096)); self.exec(ctx, &Act::ForceClose(k));
        }
        let (gave_up, malformed, late) = TX.with(|t| { let t = t.borrow(); let tx = t.as_ref().unwrap(); (tx.gave_up, tx.malformed, tx.late) });
        if gave_up { hal::violate("tx wait did not end".into()); }
        if late > 0 { hal::violate(format!("{} tx chains published but not waited for", late)); }
        ctx.tr.note(&format!("tx_failures_{}", self.tx_failures.min(9)));
        if malformed > 0 { hal::violate(format!("{} malformed tx chains", malformed)); }
        let Sim { mgr, st, .. } = self;
        st.borrow_mut().on_notify = None;
        drop(mgr);
        TX.with(|t| *t.borrow_mut() = None);
        virtio_drivers::verif::set_observer(None);
        ledger_line(ctx);
    }
}

fn unit_res(r: std::thread::Result<Result<(), Error>>) -> Vec<u128> { match r { Ok(Ok(())) => vec![0, 0], Ok(Err(e)) => vec![1, ecode(&e)], Err(_) => vec![2, 0] } }
fn num_res(r: std::thread::Result<Result<u128, Error>>) -> Vec<u128> { match r { Ok(Ok(v)) => vec![0, 1, v], Ok(Err(e)) => vec![1, ecode(&e)], Err(_) => vec![2, 0] } }

fn hdr(guest: u64, k: &Key, op: u16, len: u32, buf_alloc: u32, fwd_cnt: u32) -> Hdr {
    Hdr { src_cid: k.cid, dst_cid: guest, src_port: k.port, dst_port: k.lp, len, ty: 1, op, flags: 0, buf_alloc, fwd_cnt }
}

fn universe(guest: u64) -> Vec<Key> {
    let _ = guest;
    let mut u = vec![];
    for cid in [2u64, 5, 0x1_0000_0002] { for port in [1000u32, 1001] { for lp in [80u32, 81, 55] { u.push(Key { cid, port, lp }); } } }
    u
}

/// random history
fn history<const RXSZ: usize>(ctx: &mut Ctx, feats: u64, guest: u64, cap: u32, nops: usize) { history_tx::<RXSZ>(ctx, feats, guest, cap, nops, false) }

/// random history; with `txf` the tx device fails the transmission of about every third operation that the policy
/// `may_fail` admits (in the healing mode: the operation after it finds the device healthy again), at most five times
/// (each failure costs the tx queue the descriptors of its chain)
fn history_tx<const RXSZ: usize>(ctx: &mut Ctx, feats: u64, guest: u64, cap: u32, nops: usize, txf: bool) {
    let uni = universe(guest);
    let arm = if txf { Arm::Auto(3) } else { Arm::No };
    let mut sim = match Sim::<RXSZ>::new_tx(ctx, feats, guest, cap, uni.clone(), true, txf) { Some(s) => s, None => return };
    let lports = [80u32, 81, 55, 99];
    for _ in 0..nops {
        let live: Vec<Key> = uni.iter().zip(sim.table.iter()).filter(|(_, t)| t[0] == 1).map(|(k, _)| *k).collect();
        let pick_key = |ctx: &mut Ctx, live: &Vec<Key>| -> Key {
            if !live.is_empty() && ctx.rng.chance(7, 10) { *ctx.rng.pick(live) } else { *ctx.rng.pick(&uni) }
        };
        let r = ctx.rng.below(100);
        let act = if r < 5 { Act::Listen(*ctx.rng.pick(&lports)) }
        else if r < 8 { Act::Unlisten(*ctx.rng.pick(&lports)) }
        else if r < 12 { Act::Connect(*ctx.rng.pick(&uni)) }
        else if r < 20 { let k = pick_key(ctx, &live); let n = match ctx.rng.below(6) { 0 => 0, 1 => 1, 2 => 5, 3 => cap as usize, 4 => 300, _ => ctx.rng.below(40) as usize }; Act::Send(k, ctx.rng.bytes(n)) }
        else if r < 30 { let k = pick_key(ctx, &live); let n = match ctx.rng.below(6) { 0 => 0, 1 => 1, 2 => 3, 3 => cap as usize, 4 => 1000, _ => ctx.rng.below(12) as usize }; Act::Recv(k, n) }
        else if r < 32 { Act::Avail(pick_key(ctx, &live)) }
        else if r < 34 { Act::Established(pick_key(ctx, &live)) }
        else if r < 38 { Act::UpdateCredit(pick_key(ctx, &live)) }
        else if r < 41 { Act::Shutdown(pick_key(ctx, &live)) }
        else if r < 44 { Act::ForceClose(pick_key(ctx, &live)) }
        else if r < 46 { Act::PortUsed(*ctx.rng.pick(&lports)) }
        else if r < 70 { Act::Poll }
        else {
            // a packet from the peer side
            let mut k = pick_key(ctx, &live);
            if ctx.rng.chance(1, 12) { k = Key { cid: 9, port: 9, lp: *ctx.rng.pick(&lports) }; }
            if ctx.rng.chance(1, 12) { k.lp = 99; }
            let op: u16 = match ctx.rng.below(40) { 0..=7 => 1, 8..=10 => 2, 11..=12 => 3, 13..=16 => 4, 17..=29 => 5, 30..=31 => 6, 32..=33 => 7, 34 => 0, 35 => 8, 36 => 0xffff, 37 => 0x105, _ => 5 };
            let dst = if ctx.rng.chance(1, 10) { *ctx.rng.pick(&[guest ^ (1 << 32), guest + 1, 0, 2]) } else { guest };
            let maxp = RXSZ - 44;
            let plen = if op == 5 { match ctx.rng.below(6) { 0 => 0, 1 => 1, 2 => cap as usize, 3 => cap as usize + 1, 4 => maxp, _ => ctx.rng.below(10) as usize } } else if ctx.rng.chance(1, 12) { 3 } else { 0 };
            let plen = plen.min(maxp);
            let payload = ctx.rng.bytes(plen);
            let len_field = if ctx.rng.chance(1, 14) { *ctx.rng.pick(&[plen as u32 + 1, 0, 1, 0xffff_ffff, plen.saturating_sub(1) as u32]) } else { plen as u32 };
            let ba = match ctx.rng.below(6) { 0 => 0, 1 => 10, 2 => 64, 3 => 1000, 4 => u32::MAX, _ => ctx.rng.next() as u32 >> ctx.rng.below(32) };
            let fc = match ctx.rng.below(8) { 0 => 1, 1 => ctx.rng.below(50) as u32, 2 => u32::MAX, _ => 0 };
            let mut h = hdr(dst, &k, op, len_field, ba, fc);
            if ctx.rng.chance(1, 16) { h.ty = *ctx.rng.pick(&[0u16, 2, 7]); }
            if ctx.rng.chance(1, 16) { h.flags = ctx.rng.next() as u32; }
            let claimed = match ctx.rng.below(30) { 0 => Some(43), 1 => Some(0), 2 => Some(RXSZ as u32 + 1), 3 => Some(44), 4 => Some(RXSZ as u32), 5 => Some(u32::MAX), _ => None };
            Act::Packet(h, payload, claimed)
        };
        let r = sim.exec_arm(ctx, &act, arm);
        // an operation whose transmission failed is tried again, sometimes
        if r[2] != 0 && !matches!(act, Act::Poll) && ctx.rng.chance(1, 2) { sim.exec(ctx, &act); }
        if matches!(act, Act::Listen(_) | Act::Unlisten(_)) && ctx.rng.chance(1, 2) { for p in lports { sim.exec(ctx, &Act::PortUsed(p)); } }
        // the driver polls most of what arrives
        if matches!(act, Act::Packet(..)) && ctx.rng.chance(2, 3) { sim.exec_arm(ctx, &Act::Poll, arm); }
    }
    sim.finish(ctx);
}

/// fixed scripts at the boundaries named in the property text
fn directed<const RXSZ: usize>(ctx: &mut Ctx, feats: u64, guest: u64, cap: u32, which: u32) {
    let uni = universe(guest);
    let mut sim = match Sim::<RXSZ>::new(ctx, feats, guest, cap, uni.clone(), true) { Some(s) => s, None => return };
    let a = Key { cid: 2, port: 1000, lp: 80 };
    let b = Key { cid: 2, port: 1000, lp: 81 };          // same peer, other local port
    let c = Key { cid: 2, port: 1001, lp: 80 };          // same peer cid, other peer port
    let d = Key { cid: 0x1_0000_0002, port: 1000, lp: 80 }; // cid differing in the high half only
    let e = Key { cid: 5, port: 1000, lp: 55 };
    let g = guest;
    let pk = |k: &Key, op: u16, payload: &[u8]| Act::Packet(hdr(g, k, op, payload.len() as u32, 1000, 0), payload.to_vec(), None);
    let mut script: Vec<Act> = vec![];
    match which {
        0 => {
            // the two scripts of the unit tests, then every operation on a missing key, duplicates
            script.extend([Act::Listen(80), pk(&Key { cid: 2, port: 1000, lp: 99 }, 1, &[]), Act::Poll, pk(&a, 1, &[]), Act::Poll,
                Act::Connect(e), pk(&e, 2, &[]), Act::Poll, Act::Send(e, b"Hello from guest".to_vec()), pk(&e, 5, b"Hello from host"), Act::Poll,
                Act::Recv(e, 64), Act::Shutdown(e), pk(&e, 3, &[]), Act::Poll]);
            for k in [b, c, d] { script.extend([Act::Send(k, vec![1]), Act::Recv(k, 4), Act::Avail(k), Act::Established(k), Act::UpdateCredit(k), Act::Shutdown(k), Act::ForceClose(k)]); }
            script.extend([Act::Connect(b), Act::Connect(b), Act::Connect(a), Act::Listen(80), Act::Listen(80), Act::Unlisten(80), Act::PortUsed(80), Act::PortUsed(81), Act::PortUsed(99)]);
        }
        1 => {
            // peer shutdown / reset with data buffered; drained in pieces; with an empty buffer
            script.extend([Act::Listen(80), Act::Listen(81), pk(&a, 1, &[]), Act::Poll, pk(&b, 1, &[]), Act::Poll, pk(&c, 1, &[]), Act::Poll,
                pk(&a, 5, &[1, 2, 3, 4, 5]), Act::Poll, pk(&b, 5, &[6, 7]), Act::Poll,
                pk(&a, 4, &[]), Act::Poll, Act::Send(a, vec![9]), Act::UpdateCredit(a), Act::Avail(a), Act::Recv(a, 0), Act::Recv(a, 2), pk(&a, 5, &[8]), Act::Poll,
                Act::Recv(a, 3), Act::Recv(a, 1), Act::Recv(a, 1),
                pk(&b, 3, &[]), Act::Poll, Act::Recv(b, 100), Act::Recv(b, 100),
                pk(&c, 4, &[]), Act::Poll, Act::Established(c), pk(&c, 5, &[1]), Act::Poll]);
        }
        2 => {
            // swap_remove: removing the first / middle / last of several, then using the moved ones
            for k in [a, b, c, d, e] { script.push(Act::Connect(k)); }
            for k in [a, b, c, d, e] { script.extend([pk(&k, 2, &[]), Act::Poll]); }
            script.extend([Act::ForceClose(a), pk(&e, 5, &[1, 2]), Act::Poll, pk(&b, 5, &[3]), Act::Poll, Act::ForceClose(c), pk(&d, 5, &[4, 5, 6]), Act::Poll,
                pk(&e, 3, &[]), Act::Poll, Act::Recv(e, 9), Act::Recv(d, 2), Act::Connect(a), Act::ForceClose(a), Act::Recv(d, 9), Act::Recv(b, 9), Act::ForceClose(d), Act::ForceClose(b)]);
        }
        3 => {
            // requests naming existing connections, with and without a listener; unknown / invalid ops; framing
            script.extend([Act::Connect(a), pk(&a, 1, &[]), Act::Poll, Act::Established(a), Act::Connect(a), Act::Listen(80), pk(&a, 1, &[]), Act::Poll, Act::Established(a),
                pk(&a, 5, &[1, 2]), Act::Poll, pk(&a, 1, &[]), Act::Poll, Act::Avail(a), Act::Unlisten(80), pk(&a, 1, &[]), Act::Poll, Act::Avail(a)]);
            for op in [0u16, 8, 9, 0xffff, 0x100, 0x105] { script.extend([pk(&c, op, &[]), Act::Poll]); }
            script.extend([Act::Listen(80), pk(&c, 1, &[]), Act::Poll]);
            for op in [1u16, 2, 3, 4, 6, 7] { script.extend([Act::Packet(hdr(g, &c, op, 2, 5, 0), vec![1, 2], None), Act::Poll]); }
            for l in [0u32, 1, 43] { script.extend([Act::Raw(vec![7u8; l as usize], l), Act::Poll]); }
            script.extend([Act::Packet(hdr(g, &c, 5, 3, 5, 0), vec![1, 2], None), Act::Poll, Act::Packet(hdr(g, &c, 5, 1, 5, 0), vec![1, 2], None), Act::Poll,
                Act::Packet(hdr(g, &c, 5, u32::MAX, 5, 0), vec![1, 2], None), Act::Poll, Act::Packet(hdr(g, &c, 5, 2, 5, 0), vec![1, 2], Some(RXSZ as u32 + 1)), Act::Poll,
                Act::Packet(hdr(g, &c, 5, 2, 5, 0), vec![1, 2], Some(u32::MAX)), Act::Poll, Act::Packet(hdr(g, &c, 5, (RXSZ - 44) as u32, 5, 0), vec![3u8; RXSZ - 44], None), Act::Poll,
                Act::Avail(c), Act::Recv(c, 4096)]);
        }
        4 => {
            // buffer capacity boundary, and packets for foreign guests / near-miss keys
            script.extend([Act::Listen(80), pk(&a, 1, &[]), Act::Poll, pk(&a, 5, &vec![1u8; cap as usize - 1]), Act::Poll, pk(&a, 5, &[2, 3]), Act::Poll, pk(&a, 5, &[2]), Act::Poll,
                pk(&a, 5, &[4]), Act::Poll, pk(&a, 5, &[]), Act::Poll, Act::Recv(a, 1), pk(&a, 5, &[5]), Act::Poll, Act::Avail(a)]);
            for dst in [g + 1, g ^ (1 << 32), 0] {
                for op in [1u16, 5, 4, 3, 7] { script.extend([Act::Packet(hdr(dst, &a, op, if op == 5 { 1 } else { 0 }, 9, 0), if op == 5 { vec![1] } else { vec![] }, None), Act::Poll]); }
            }
            for k in [b, c, d] { for op in [5u16, 4, 3, 6, 7, 2] { script.extend([Act::Packet(hdr(g, &k, op, if op == 5 { 1 } else { 0 }, 9, 0), if op == 5 { vec![1] } else { vec![] }, None), Act::Poll]); } }
            script.extend([Act::Avail(a), Act::Established(a), Act::Recv(a, 4096)]);
        }
        6 | 7 => {
            // sweep: every buffered length 0..=cap at the moment the peer shuts down (6) / resets (7), drained with every chunk size
            let op_close: u16 = if which == 6 { 4 } else { 3 };
            script.push(Act::Listen(80));
            for l in 0..=cap as usize {
                for chunk in [1usize, 2, 3, cap as usize] {
                    if l > 3 && chunk == 2 && l % 2 == 1 { continue; }
                    script.extend([pk(&a, 1, &[]), Act::Poll]);
                    if l > 0 { let data: Vec<u8> = (0..l).map(|i| (l * 16 + i) as u8).collect(); script.extend([pk(&a, 5, &data), Act::Poll]); }
                    script.extend([pk(&a, op_close, &[]), Act::Poll, Act::Avail(a), Act::Recv(a, 0)]);
                    let mut left = l;
                    while left > 0 { script.push(Act::Recv(a, chunk)); left = left.saturating_sub(chunk); }
                    script.extend([Act::Recv(a, chunk), Act::Established(a)]);
                }
            }
        }
        8 => {
            // credit isolation: three connections of the same peer cid (two share the peer port), one of another peer;
            // credit updates / requests / data for one of them must not move the others' view of the peer
            let rsp = |k: &Key, ba: u32, fc: u32| Act::Packet(hdr(g, k, 2, 0, ba, fc), vec![], None);
            let cu = |k: &Key, op: u16, ba: u32, fc: u32| Act::Packet(hdr(g, k, op, 0, ba, fc), vec![], None);
            for k in [a, b, c, e] { script.push(Act::Connect(k)); }
            script.extend([rsp(&a, 100, 0), Act::Poll, rsp(&b, 10, 0), Act::Poll, rsp(&c, 10, 0), Act::Poll, rsp(&e, 10, 0), Act::Poll]);
            // b, c, e run out of credit: one credit request each, then silence
            for k in [b, c, e] { script.extend([Act::Send(k, vec![7; 20]), Act::Send(k, vec![7; 20])]); }
            script.extend([cu(&a, 6, 50, 0), Act::Poll]);
            for k in [b, c, e] { script.extend([Act::Send(k, vec![7; 20]), Act::Send(k, vec![7; 10]), Act::Send(k, vec![7; 1])]); }
            script.extend([Act::Send(a, vec![1; 50]), Act::Send(a, vec![1; 1]), cu(&b, 6, 40, 5), Act::Poll, cu(&c, 7, 30, 0), Act::Poll]);
            for k in [a, b, c, e] { script.extend([Act::Send(k, vec![2; 31]), Act::Send(k, vec![2; 25]), Act::Send(k, vec![2; 6]), Act::Send(k, vec![2; 1])]); }
            script.extend([pk(&a, 5, &[1, 2, 3]), Act::Poll, Act::Recv(a, 2)]);
            for k in [a, b, c, e] { script.push(Act::UpdateCredit(k)); }
        }
        9 => {
            // the listening set: several ports, removal of the first / a middle / the last one, duplicates
            let peers = [a, b, Key { cid: 2, port: 1000, lp: 55 }, Key { cid: 2, port: 1000, lp: 99 }];
            let probe_all = |script: &mut Vec<Act>| { for p in [80u32, 81, 55, 99] { script.push(Act::PortUsed(p)); }
                for k in peers.iter() { script.extend([pk(k, 1, &[]), Act::Poll, Act::ForceClose(*k)]); } };
            for p in [80u32, 81, 55, 99] { script.push(Act::Listen(p)); }
            probe_all(&mut script);
            script.push(Act::Unlisten(81)); probe_all(&mut script);
            script.extend([Act::Listen(81), Act::Listen(81), Act::Unlisten(80)]); probe_all(&mut script);
            script.push(Act::Unlisten(81)); probe_all(&mut script);
            script.push(Act::Unlisten(99)); probe_all(&mut script);
            script.extend([Act::Unlisten(55), Act::Unlisten(55)]); probe_all(&mut script);
        }
        _ => {
            // a burst: all eight buffers completed (in any buffer order) before the driver polls
            script.extend([Act::Listen(80), Act::Listen(81), Act::Listen(55)]);
            for k in [a, b, c, d] { script.push(pk(&k, 1, &[])); }
            for k in [a, b, c, d] { script.push(pk(&k, 5, &[k.lp as u8, 2])); }
            script.push(pk(&e, 5, &[1]));  // no buffer left: dropped by the device
            for _ in 0..10 { script.push(Act::Poll); }
            for k in [a, b, c, d] { script.push(Act::Recv(k, 1)); }
        }
    }
    for act in &script { sim.exec(ctx, act); }
    sim.finish(ctx);
}

/// The four failure points at which the code as it stands violates the property, one minimal script each. Only the
/// one monitor that states the violated clause is written (plus the lock-step lines of the implementation model,
/// which follows the code), so that each finding is one (monitor, scenario) pair of the verdict.
fn finding<const RXSZ: usize>(ctx: &mut Ctx, feats: u64, which: u32) {
    let guest = 3u64;
    let uni = universe(guest);
    let mut sim = match Sim::<RXSZ>::new_tx(ctx, feats, guest, 8, uni.clone(), false, true) { Some(s) => s, None => return };
    let a = Key { cid: 2, port: 1000, lp: 80 };
    let b = Key { cid: 2, port: 1000, lp: 81 };
    let e = Key { cid: 5, port: 1000, lp: 55 };
    let g = guest;
    let pk = |k: &Key, op: u16, payload: &[u8], ba: u32| Act::Packet(hdr(g, k, op, payload.len() as u32, ba, 0), payload.to_vec(), None);
    let fail = Arm::Force(TxMode::WrongHeal);
    match which {
        0 => {
            // A: the peer grants 16 bytes; a send of 16 bytes fails in the tx queue; the same send again, device healthy
            sim.only = Some(1897);
            for act in [Act::Connect(e), pk(&e, 2, &[], 16), Act::Poll] { sim.exec(ctx, &act); }
            let r1 = sim.exec_arm(ctx, &Act::Send(e, vec![0x41; 16]), fail);
            let r2 = sim.exec_arm(ctx, &Act::Send(e, vec![0x41; 16]), Arm::No);
            sim.mon(ctx, 1897, &[16, r1[0], r1[1], r1[3], 16, r2[0]]);
        }
        1 => {
            // B: three bytes buffered, the peer shuts down, the recv that drains them cannot send its RST; recv again
            sim.only = Some(1896);
            for act in [Act::Listen(80), pk(&a, 1, &[], 1000), Act::Poll, pk(&a, 5, &[1, 2, 3], 1000), Act::Poll, pk(&a, 4, &[], 1000), Act::Poll] { sim.exec(ctx, &act); }
            sim.exec_arm(ctx, &Act::Recv(a, 8), fail);
            for act in [Act::Avail(a), Act::Recv(a, 8), Act::Established(a)] { sim.exec(ctx, &act); }
        }
        2 => {
            // C: a request to a listening port whose RESPONSE cannot be sent, a request to a port nobody listens on whose
            // RST cannot be sent: the connection that was never accepted / was refused must not exist afterwards
            sim.only = Some(1896);
            for act in [Act::Listen(80), pk(&a, 1, &[], 1000)] { sim.exec(ctx, &act); }
            sim.exec_arm(ctx, &Act::Poll, fail);
            for act in [Act::Established(a), Act::PortUsed(80), pk(&a, 5, &[9], 1000), Act::Poll, Act::Recv(a, 4), pk(&b, 1, &[], 1000)] { sim.exec(ctx, &act); }
            sim.exec_arm(ctx, &Act::Poll, fail);
            for act in [Act::Avail(b), Act::PortUsed(81), pk(&b, 5, &[7, 7], 1000), Act::Poll, Act::Recv(b, 4), Act::Connect(b)] { sim.exec(ctx, &act); }
        }
        _ => {
            // D: the peer shuts a drained connection down, the RST cannot be sent: the connection is shut down all the same
            sim.only = Some(1898);
            for act in [Act::Listen(80), pk(&a, 1, &[], 1000), Act::Poll, pk(&a, 4, &[], 1000)] { sim.exec(ctx, &act); }
            let r1 = sim.exec_arm(ctx, &Act::Poll, fail);
            let r2 = sim.exec_arm(ctx, &Act::Send(a, vec![1]), Arm::No);
            sim.mon(ctx, 1898, &[r1[0], r1[1], r1[3], r2[0], r2[1]]);
            for act in [Act::Recv(a, 4), Act::Established(a)] { sim.exec(ctx, &act); }
        }
    }
    sim.finish(ctx);
}

/// fixed scripts in which transmissions fail: every public operation and every reply sent from inside `poll`, with the
/// device healthy again afterwards (healing mode), and what a wrong id that stays in the used ring does to everything
/// that follows, down to QueueFull
fn directed_tx<const RXSZ: usize>(ctx: &mut Ctx, feats: u64, guest: u64, cap: u32, which: u32) {
    let uni = universe(guest);
    let mut sim = match Sim::<RXSZ>::new_tx(ctx, feats, guest, cap, uni.clone(), true, true) { Some(s) => s, None => return };
    let a = Key { cid: 2, port: 1000, lp: 80 };
    let b = Key { cid: 2, port: 1000, lp: 81 };
    let c = Key { cid: 2, port: 1001, lp: 80 };
    let e = Key { cid: 5, port: 1000, lp: 55 };
    let g = guest;
    let pk = |k: &Key, op: u16, payload: &[u8]| (Act::Packet(hdr(g, k, op, payload.len() as u32, 1000, 0), payload.to_vec(), None), Arm::No);
    let ok = |act: Act| (act, Arm::No);
    let fl = |act: Act| (act, Arm::Force(TxMode::WrongHeal));
    let mut script: Vec<(Act, Arm)> = vec![];
    match which {
        0 => {
            // a connect that cannot send its request leaves nothing behind: the port is free, every operation on the key says
            // NotConnected, a response and data "for it" match no connection, and it can be tried again; then send (of
            // nothing: see OPEN_FINDINGS), update_credit, shutdown, force_close failing once each and tried again
            script.extend([ok(Act::Listen(80)), fl(Act::Connect(e)), ok(Act::PortUsed(55)), ok(Act::Recv(e, 4)), ok(Act::Established(e)), ok(Act::Avail(e)), ok(Act::Send(e, vec![1])),
                pk(&e, 2, &[]), ok(Act::Poll), pk(&e, 5, &[1, 2, 3, 4]), ok(Act::Poll), ok(Act::Recv(e, 8)), ok(Act::PortUsed(55)),
                ok(Act::Connect(e)), ok(Act::Connect(e)), pk(&e, 2, &[]), ok(Act::Poll), ok(Act::Established(e)),
                fl(Act::Send(e, vec![])), ok(Act::Send(e, vec![1, 2])),
                fl(Act::UpdateCredit(e)), ok(Act::UpdateCredit(e)), fl(Act::Shutdown(e)), ok(Act::Shutdown(e)),
                fl(Act::ForceClose(e)), ok(Act::Established(e)), ok(Act::PortUsed(55)), ok(Act::ForceClose(e)), ok(Act::Established(e)), ok(Act::PortUsed(55))]);
            if !OPEN_FINDINGS { script.extend([ok(Act::Connect(e)), pk(&e, 2, &[]), ok(Act::Poll), fl(Act::Send(e, vec![5; 9])), ok(Act::Send(e, vec![5; 9]))]); }
        }
        1 => {
            // replies sent from inside poll: CREDIT_UPDATE, the RESPONSE to a request naming a connection that exists (it is not
            // established by the failure), the RST to a request naming one whose port is no longer listened on (it stays);
            // the credit request of a send that finds no credit (not marked pending by the failure)
            script.extend([ok(Act::Listen(80)), pk(&a, 1, &[]), ok(Act::Poll), pk(&a, 5, &[4, 5]), ok(Act::Poll),
                pk(&a, 7, &[]), fl(Act::Poll), ok(Act::Avail(a)), pk(&a, 7, &[]), ok(Act::Poll),
                ok(Act::Connect(b)), ok(Act::Listen(81)), pk(&b, 1, &[]), fl(Act::Poll), ok(Act::Established(b)), pk(&b, 1, &[]), ok(Act::Poll), ok(Act::Established(b)),
                ok(Act::Unlisten(80)), pk(&a, 1, &[]), fl(Act::Poll), ok(Act::Avail(a)), ok(Act::Recv(a, 1)), pk(&a, 1, &[]), ok(Act::Poll), ok(Act::Avail(a)),
                ok(Act::Connect(c)), (Act::Packet(hdr(g, &c, 2, 0, 4, 0), vec![], None), Arm::No), ok(Act::Poll),
                fl(Act::Send(c, vec![7; 10])), ok(Act::Send(c, vec![7; 10])), ok(Act::Send(c, vec![7; 10])), ok(Act::Send(c, vec![7; 4]))]);
            if !OPEN_FINDINGS {
                script.extend([ok(Act::Listen(80)), pk(&a, 1, &[]), fl(Act::Poll), ok(Act::Established(a)), pk(&e, 1, &[]), fl(Act::Poll), ok(Act::Established(e)),
                    pk(&a, 1, &[]), ok(Act::Poll), pk(&a, 4, &[]), fl(Act::Poll), ok(Act::Send(a, vec![1])), ok(Act::Recv(a, 1))]);
            }
        }
        2 => {
            // the device completes one chain under an id that is no descriptor at all (9): the used element is never consumed,
            // every later transmission fails with WrongToken and keeps its descriptors, until `add` finds none left: QueueFull,
            // for good. Every operation at every stage; nothing changes any connection.
            let step = |script: &mut Vec<(Act, Arm)>| {
                script.extend([ok(Act::UpdateCredit(e)), ok(Act::Shutdown(e)), ok(Act::ForceClose(e)), ok(Act::Established(e)), ok(Act::Connect(b)), ok(Act::PortUsed(81)), ok(Act::Established(b)),
                    pk(&a, 7, &[]), ok(Act::Poll), ok(Act::Send(e, vec![])), pk(&a, 1, &[]), ok(Act::Poll), ok(Act::Established(a)), ok(Act::UpdateCredit(a)),
                    ok(Act::Recv(a, 1)), ok(Act::Avail(a)), pk(&a, 5, &[6]), ok(Act::Poll), pk(&c, 5, &[6]), ok(Act::Poll), pk(&a, 6, &[]), ok(Act::Poll)]);
            };
            script.extend([ok(Act::Listen(80)), ok(Act::Connect(e)), pk(&e, 2, &[]), ok(Act::Poll), pk(&a, 1, &[]), ok(Act::Poll), pk(&a, 5, &[1, 2, 3]), ok(Act::Poll),
                (Act::UpdateCredit(e), Arm::Force(TxMode::WrongSticky(9)))]);
            step(&mut script); step(&mut script); step(&mut script);
        }
        _ => {
            // the state after a healed failure (the driver consumes the used element of the transmission before): every
            // operation succeeds in it; a second healing failure; then a wrong id written in that state: the transmission
            // during which it is written still succeeds, everything after it fails
            script.extend([ok(Act::Listen(80)), ok(Act::Connect(e)), (Act::Packet(hdr(g, &e, 2, 0, 1000, 0), vec![], None), Arm::No), ok(Act::Poll),
                fl(Act::UpdateCredit(e)), ok(Act::UpdateCredit(e)), ok(Act::Send(e, vec![1, 2, 3])), pk(&a, 1, &[]), ok(Act::Poll), pk(&a, 5, &[1, 2]), ok(Act::Poll), ok(Act::Recv(a, 1)),
                pk(&a, 7, &[]), ok(Act::Poll), ok(Act::Shutdown(e)),
                fl(Act::UpdateCredit(a)), ok(Act::UpdateCredit(a)), ok(Act::Send(e, vec![4; 5])), fl(Act::Connect(b)), ok(Act::Established(b)), ok(Act::Connect(b)), ok(Act::ForceClose(b)),
                (Act::UpdateCredit(a), Arm::Force(TxMode::WrongSticky(9))), ok(Act::UpdateCredit(a)), ok(Act::Shutdown(e)), ok(Act::Connect(c)), ok(Act::Established(c)),
                pk(&a, 7, &[]), ok(Act::Poll), ok(Act::ForceClose(e)), ok(Act::Established(e)), ok(Act::Avail(a))]);
        }
    }
    for (act, arm) in &script { sim.exec_arm(ctx, act, *arm); }
    sim.finish(ctx);
}

/// several connections at once (same peer, same local port, different peer ports, ...): also run under C17, whose
/// stream and credit clauses are per connection
pub fn run_multi(ctx: &mut Ctx) {
    let all: u64 = (1 << 28) | (1 << 29) | (1 << 32) | (1 << 33);
    let nh = ctx.budget(6, 10);
    for h in 0..nh {
        let f = [0u64, all][(h % 2) as usize];
        let cap = match h % 3 { 0 => 8, 1 => 64, _ => 1024 };
        ctx.tr.scenario(&format!("c18-history-h{}-f{}-cap{}", h, h % 2, cap));
        if h % 2 == 0 { history::<96>(ctx, f, 3, cap, 120); } else { history::<512>(ctx, f, 0x1_0000_0003, cap, 120); }
    }
}

pub fn run(ctx: &mut Ctx) {
    let all: u64 = (1 << 28) | (1 << 29) | (1 << 32) | (1 << 33);
    let featsets = [0u64, 1 << 28, 1 << 29, all];
    // Four points at which a FAILING transmission leaves the manager in a state the specification of the error paths
    // (Model/ConnMgrSpec.v sp_step_tx) does not allow (send debits the credit first; the closing recv drains before the
    // reset is sent; a request's entry survives a failed reply; a peer shutdown is forgotten when the reset fails) are
    // recorded as OBSERVATIONS, not as violations of C18: a transmission only fails when the TX device breaks the
    // protocol (completes a foreign id), which is outside C18's quantifier (local operations and peer packets). The
    // scenarios below stay available (`VERIF_C18_OBSERVATIONS=1`) and the Coq witnesses are in Proofs/ConnMgrProofs.v
    // (`*_refuted`); proposed repairs: corpus/proposals/C18_*_fix.diff.
    if std::env::var("VERIF_C18_OBSERVATIONS").is_ok() {
        for which in 0..4u32 {
            ctx.tr.scenario(&format!("c18-finding-{}", ["send-credit", "recv-data", "request-reply", "shutdown-forgotten"][which as usize]));
            finding::<96>(ctx, featsets[(which % 4) as usize], which);
        }
    }
    for which in 0..4u32 {
        for (fi, f) in featsets.iter().enumerate() {
            ctx.tr.scenario(&format!("c18-txfail-directed-{}-f{}", which, fi));
            directed_tx::<96>(ctx, *f, if fi % 2 == 0 { 3 } else { 0x1_0000_0003 }, 8, which);
        }
    }
    for which in 0..11u32 {
        let f = featsets[(which % 4) as usize];
        ctx.tr.scenario(&format!("c18-directed-{}-f{}", which, which % 4));
        directed::<96>(ctx, f, if which % 2 == 0 { 3 } else { 0x1_0000_0003 }, 8, which);
    }
    let nh = ctx.budget(18, 20);
    for h in 0..nh {
        let f = featsets[(h % 4) as usize];
        let guest = if h % 3 == 0 { 0x1_0000_0003 } else { 3 };
        let cap = match h % 4 { 0 => 8, 1 => 64, 2 => 1, _ => 1024 };
        ctx.tr.scenario(&format!("c18-history-h{}-f{}-cap{}", h, h % 4, cap));
        if h % 2 == 0 { history::<96>(ctx, f, guest, cap, 120); } else { history::<512>(ctx, f, guest, cap, 120); }
    }
    // random histories in which transmissions fail
    let nt = ctx.budget(12, 20);
    for h in 0..nt {
        let f = featsets[(h % 4) as usize];
        let guest = if h % 3 == 0 { 0x1_0000_0003 } else { 3 };
        let cap = match h % 3 { 0 => 8, 1 => 64, _ => 1024 };
        ctx.tr.scenario(&format!("c18-txfail-history-h{}-f{}-cap{}", h, h % 4, cap));
        if h % 2 == 0 { history_tx::<96>(ctx, f, guest, cap, 140, true); } else { history_tx::<512>(ctx, f, guest, cap, 140, true); }
    }
}
