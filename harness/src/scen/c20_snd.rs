//! C20 (sound part): `VirtIOSound<LedgerHal, ModelTransport>` in lock-step with Model/Sound.v.
//!  * reference sound device: finds every control and TX message through device addresses only
//!    (hal::dev_read / dev_write), decodes it with its own decoder written from VirtIO 1.2 section 5.14,
//!    answers with OK or any error status, completes TX messages in order (blocking call) or in PRNG
//!    order (token interface); event queue completions for latest_notification;
//!  * blocking calls are co-simulated through the busy-wait hooks (site 0: control request, site 2:
//!    pcm_xfer) and Transport::notify; every iteration of the pcm_xfer loop is recorded with the device
//!    words the driver read in it, so that the model replays the loop iteration by iteration;
//!  * monitors 2050..2060 evaluate the property on what the implementation was seen to do.
use crate::hal::{self, Ev, LedgerHal};
use crate::scen::c19::ODev;
use crate::scen::common::*;
use crate::scen::qrig::{self, QAddr, CURQ};
use crate::tport::{ModelTransport, TState};
use crate::Ctx;
use std::cell::RefCell;
use std::collections::HashMap;
use std::panic::{catch_unwind, AssertUnwindSafe};
use std::rc::Rc;
use virtio_drivers::device::sound::{PcmFeatures, PcmFormat, PcmRate, VirtIOSound};
use virtio_drivers::transport::DeviceType;
use virtio_drivers::verif::Event;

type Snd = VirtIOSound<LedgerHal, ModelTransport>;
const N: usize = 32;
const F_IND: u64 = 1 << 28;
const F_EV: u64 = 1 << 29;
const F_V1: u64 = 1 << 32;
const F_AP: u64 = 1 << 33;
const S_OK: u32 = 0x8000;
const S_BAD_MSG: u32 = 0x8001;
const S_NOT_SUPP: u32 = 0x8002;
const S_IO_ERR: u32 = 0x8003;

// ------------------------------------------------------------------------------------------------
// what the device reports (VirtIO 1.2, 5.14.6.4.1 / 5.14.6.6.2 / 5.14.6.9.1)
#[derive(Clone, Debug)]
pub struct JackInfo { nid: u32, features: u32, defconf: u32, caps: u32, connected: u8, pad: [u8; 7] }
#[derive(Clone, Debug)]
pub struct PcmInfo { nid: u32, features: u32, formats: u64, rates: u64, direction: u8, chmin: u8, chmax: u8, pad: [u8; 5] }
#[derive(Clone, Debug)]
pub struct ChmapInfo { nid: u32, direction: u8, channels: u8, positions: [u8; 18] }
impl JackInfo { fn bytes(&self) -> Vec<u8> { let mut v = vec![]; v.extend(self.nid.to_le_bytes()); v.extend(self.features.to_le_bytes());
    v.extend(self.defconf.to_le_bytes()); v.extend(self.caps.to_le_bytes()); v.push(self.connected); v.extend(self.pad); v } }
impl PcmInfo { fn bytes(&self) -> Vec<u8> { let mut v = vec![]; v.extend(self.nid.to_le_bytes()); v.extend(self.features.to_le_bytes());
    v.extend(self.formats.to_le_bytes()); v.extend(self.rates.to_le_bytes()); v.extend([self.direction, self.chmin, self.chmax]); v.extend(self.pad); v } }
impl ChmapInfo { fn bytes(&self) -> Vec<u8> { let mut v = vec![]; v.extend(self.nid.to_le_bytes()); v.extend([self.direction, self.channels]); v.extend(self.positions); v } }

#[derive(Clone, Debug)]
pub struct CtlSeen { head: u16, els: Vec<(u64, u32, bool)>, rb: Vec<u8>, wlen: u32, code: u32, status: u32, rsp: Vec<u8>, pre: (u16, u16), uidx: u16 }
#[derive(Clone, Debug)]
pub struct TxSeen { head: u16, els: Vec<(u64, u32, bool)>, rb: Vec<u8>, wlen: u32, sid: u32, status: u32, period: u32, had_params: bool, done: bool }

pub struct SndDev {
    ctl: QAddr, evq: QAddr, tx: QAddr, event_idx: bool,
    jacks: Vec<JackInfo>, pcms: Vec<PcmInfo>, chmaps: Vec<ChmapInfo>,
    ctl_seen: u16, ctl_used: u16, tx_seen: u16, tx_used: u16,
    ctl_log: Vec<CtlSeen>,            // control messages served during the current operation
    tx_log: Vec<TxSeen>,              // TX messages fetched and not yet looked at by the harness
    tx_pending: Vec<TxSeen>,          // fetched, completion not yet published
    tx_done: Vec<TxSeen>,             // published
    accepted: Vec<Option<(u32, u32)>>, // per stream: (buffer_bytes, period_bytes) of the last SET_PARAMS answered OK
    force_ctl: Vec<(u32, u32)>,       // one-shot: answer the next request with this code with this status
    force_tx: Option<(usize, u32)>,   // answer the k-th TX message fetched from now on with this status
    tx_fetched_op: usize, max_out: usize,
}

fn rd_desc(b: &[u8]) -> (u64, u32, u16, u16) {
    (u64::from_le_bytes(b[0..8].try_into().unwrap()), u32::from_le_bytes(b[8..12].try_into().unwrap()),
     u16::from_le_bytes([b[12], b[13]]), u16::from_le_bytes([b[14], b[15]]))
}
fn le32(b: &[u8]) -> u32 { u32::from_le_bytes([b[0], b[1], b[2], b[3]]) }

/// 2.7.5 / 2.7.5.3: follow the chain from `head` (direct or through an indirect table)
fn walk(a: &QAddr, head: u16) -> Option<Vec<(u64, u32, bool)>> {
    let mut els = vec![];
    if head as usize >= N { return None; }
    let (addr, len, flags, _) = rd_desc(&hal::dev_read(a.desc + 16 * head as u64, 16).ok()?);
    if flags & 4 != 0 {
        if flags & 3 != 0 || len % 16 != 0 || len == 0 { return None; }
        let tbl = hal::dev_read(addr, len as usize).ok()?;
        let n = len as usize / 16;
        let mut i = 0usize; let mut steps = 0;
        loop {
            if i >= n || steps > n { return None; }
            let (a1, l, f, nx) = rd_desc(&tbl[16 * i..16 * i + 16]);
            if f & 4 != 0 { return None; }
            els.push((a1, l, f & 2 != 0));
            steps += 1;
            if f & 1 == 0 { break; }
            i = nx as usize;
        }
    } else {
        let mut cur = head as usize; let mut steps = 0;
        loop {
            if cur >= N || steps > N { return None; }
            let (a1, l, f, nx) = rd_desc(&hal::dev_read(a.desc + 16 * cur as u64, 16).ok()?);
            if f & 4 != 0 { return None; }
            els.push((a1, l, f & 2 != 0));
            steps += 1;
            if f & 1 == 0 { break; }
            cur = nx as usize;
        }
    }
    Some(els)
}

/// device-readable bytes in chain order and total device-writable length; None if a writable element
/// precedes a readable one (2.7.4.2) or memory is not accessible
fn chain_view(els: &[(u64, u32, bool)]) -> Option<(Vec<u8>, u32)> {
    let first_w = els.iter().position(|e| e.2).unwrap_or(els.len());
    if !els[first_w..].iter().all(|e| e.2) { return None; }
    let mut rb = vec![];
    for e in els.iter().filter(|e| !e.2) { rb.extend(hal::dev_read(e.0, e.1 as usize).ok()?); }
    let wl: u32 = els.iter().filter(|e| e.2).map(|e| e.1).sum();
    Some((rb, wl))
}
fn write_over(els: &[(u64, u32, bool)], bytes: &[u8]) -> bool {
    let mut off = 0; let mut ok = true;
    for e in els.iter().filter(|e| e.2) {
        if off >= bytes.len() { break; }
        let l = (e.1 as usize).min(bytes.len() - off);
        if hal::dev_write(e.0, &bytes[off..off + l]).is_err() { ok = false; }
        off += l;
    }
    ok && off == bytes.len()
}

impl SndDev {
    fn take_force(&mut self, code: u32) -> Option<u32> {
        self.force_ctl.iter().position(|f| f.0 == code).map(|p| self.force_ctl.remove(p).1)
    }
    /// 5.14.6: decode one control request and build the response (status header ++ payload)
    fn respond(&mut self, rb: &[u8], wlen: usize) -> (u32, u32, Vec<u8>) {
        if rb.len() < 4 { return (0, S_BAD_MSG, S_BAD_MSG.to_le_bytes().to_vec()); }
        let code = le32(rb);
        let forced = self.take_force(code);
        let mut payload: Vec<u8> = vec![];
        let mut status = S_OK;
        match code {
            1 | 0x100 | 0x200 => {
                if rb.len() != 16 { status = S_BAD_MSG; } else {
                    let (start, count, size) = (le32(&rb[4..]) as usize, le32(&rb[8..]) as usize, le32(&rb[12..]) as usize);
                    let items: Vec<Vec<u8>> = match code { 1 => self.jacks.iter().map(|j| j.bytes()).collect(),
                        0x100 => self.pcms.iter().map(|p| p.bytes()).collect(), _ => self.chmaps.iter().map(|c| c.bytes()).collect() };
                    let isz = if code == 0x100 { 32 } else { 24 };
                    if size != isz || start.checked_add(count).map(|e| e > items.len()).unwrap_or(true) || 4 + count * size > wlen { status = S_BAD_MSG; }
                    else { for it in &items[start..start + count] { payload.extend(it); } }
                }
            }
            2 => { if rb.len() != 16 { status = S_BAD_MSG; } else {
                let j = le32(&rb[4..]) as usize;
                if j >= self.jacks.len() { status = S_BAD_MSG; } else if self.jacks[j].features & 1 == 0 { status = S_NOT_SUPP; } } }
            0x101 => { if rb.len() != 24 { status = S_BAD_MSG; } else {
                let (sid, buffer, period) = (le32(&rb[4..]) as usize, le32(&rb[8..]), le32(&rb[12..]));
                if sid >= self.pcms.len() || period == 0 || buffer % period != 0 || rb[23] != 0 { status = S_BAD_MSG; }
                else if forced.is_none() { self.accepted[sid] = Some((buffer, period)); } } }
            0x102..=0x105 => { if rb.len() != 8 || le32(&rb[4..]) as usize >= self.pcms.len() { status = S_BAD_MSG; } }
            _ => { status = S_NOT_SUPP; }
        }
        if let Some(f) = forced { status = f; if f != S_OK { payload.clear(); } }
        if status != S_OK { payload.clear(); }
        let mut rsp = status.to_le_bytes().to_vec(); rsp.extend(payload);
        (code, status, rsp)
    }
    /// serve every new control message: decode, answer, publish
    fn serve_ctl(&mut self, pre: (u16, u16)) {
        let aidx = hal::dev_read_u16(self.ctl.drv + 2).unwrap();
        while self.ctl_seen != aidx {
            let slot = (self.ctl_seen as usize) & (N - 1);
            let head = hal::dev_read_u16(self.ctl.drv + 4 + 2 * slot as u64).unwrap();
            self.ctl_seen = self.ctl_seen.wrapping_add(1);
            let els = walk(&self.ctl, head).unwrap_or_default();
            let (rb, wl) = chain_view(&els).unwrap_or((vec![], 0));
            let (code, status, rsp) = self.respond(&rb, wl as usize);
            let n = rsp.len().min(wl as usize);
            write_over(&els, &rsp[..n]);
            let uslot = (self.ctl_used as usize) & (N - 1);
            hal::dev_write_u32(self.ctl.dev + 4 + 8 * uslot as u64, head as u32).unwrap();
            hal::dev_write_u32(self.ctl.dev + 8 + 8 * uslot as u64, n as u32).unwrap();
            self.ctl_used = self.ctl_used.wrapping_add(1);
            hal::dev_write_u16(self.ctl.dev + 2, self.ctl_used).unwrap();
            self.ctl_log.push(CtlSeen { head, els, rb, wlen: wl, code, status, rsp: rsp[..n].to_vec(), pre, uidx: self.ctl_used });
        }
        if self.event_idx { hal::dev_write_u16(self.ctl.dev + 4 + 8 * N as u64, self.ctl_seen).unwrap(); }
    }
    /// fetch every new TX message: decode (5.14.6.8), write the status, keep the completion pending
    fn fetch_tx(&mut self, rng: &mut crate::rng::Rng) -> usize {
        let aidx = hal::dev_read_u16(self.tx.drv + 2).unwrap();
        let mut n = 0;
        while self.tx_seen != aidx {
            let slot = (self.tx_seen as usize) & (N - 1);
            let head = hal::dev_read_u16(self.tx.drv + 4 + 2 * slot as u64).unwrap();
            self.tx_seen = self.tx_seen.wrapping_add(1);
            let els = walk(&self.tx, head).unwrap_or_default();
            let (rb, wl) = chain_view(&els).unwrap_or((vec![], 0));
            let sid = if rb.len() >= 4 { le32(&rb) } else { u32::MAX };
            let acc = self.accepted.get(sid as usize).copied().flatten();
            let mut status = match acc { Some((_, period)) if rb.len() > 4 && rb.len() - 4 <= period as usize && wl == 8 => S_OK, _ => S_BAD_MSG };
            if let Some((k, f)) = self.force_tx { if k == self.tx_fetched_op { status = f; self.force_tx = None; } }
            let mut st = status.to_le_bytes().to_vec(); st.extend((rng.next() as u32).to_le_bytes());
            let m = st.len().min(wl as usize);
            write_over(&els, &st[..m]);
            let s = TxSeen { head, els, rb, wlen: wl, sid, status, period: acc.map(|a| a.1).unwrap_or(0), had_params: acc.is_some(), done: false };
            self.tx_log.push(s.clone()); self.tx_pending.push(s);
            self.tx_fetched_op += 1; n += 1;
            if self.tx_pending.len() > self.max_out { self.max_out = self.tx_pending.len(); }
        }
        if self.event_idx { hal::dev_write_u16(self.tx.dev + 4 + 8 * N as u64, self.tx_seen).unwrap(); }
        n
    }
    fn publish_tx(&mut self, k: usize) -> u16 {
        let s = self.tx_pending.remove(k);
        let uslot = (self.tx_used as usize) & (N - 1);
        hal::dev_write_u32(self.tx.dev + 4 + 8 * uslot as u64, s.head as u32).unwrap();
        hal::dev_write_u32(self.tx.dev + 8 + 8 * uslot as u64, s.wlen.min(8)).unwrap();
        self.tx_used = self.tx_used.wrapping_add(1);
        hal::dev_write_u16(self.tx.dev + 2, self.tx_used).unwrap();
        let h = s.head; self.tx_done.push(s); h
    }
    fn tx_status_of(&self, head: u16) -> u32 {
        self.tx_done.iter().rev().chain(self.tx_pending.iter().rev()).find(|s| s.head == head).map(|s| s.status).unwrap_or(0)
    }
}

// ------------------------------------------------------------------------------------------------
// co-simulation
#[derive(Clone, Copy, PartialEq, Debug)]
pub enum Policy { OnNotify, Poll(u32), Late(u32) }
#[derive(Default)]
pub struct XCap { on: bool, started: bool, envs: Vec<[u128; 10]>, pre: (u16, u16), last_used: u16, mark: usize }
pub struct Sim { dev: SndDev, policy: Policy, spins0: u32, spins2: u32, rng: crate::rng::Rng, active: bool,
    ctl_pre: Vec<(u16, u16)>, x: XCap, shadow_ctl: Vec<u8>, shadow_tx: Vec<u8> }
thread_local! { static SIM: RefCell<Option<Sim>> = RefCell::new(None); }
fn with_sim<R>(f: impl FnOnce(&mut Sim) -> R) -> R { SIM.with(|c| f(c.borrow_mut().as_mut().unwrap())) }

fn snapshot(a: &QAddr) -> Vec<u8> {
    let mut v = hal::dev_read(a.desc, 16 * N).unwrap_or_default();
    v.extend(hal::dev_read(a.drv, 6 + 2 * N).unwrap_or_default());
    v
}
fn suppression(a: &QAddr) -> (u16, u16) {
    (hal::dev_read_u16(a.dev + 4 + 8 * N as u64).unwrap(), hal::dev_read_u16(a.dev).unwrap())
}

/// split the events of one call into the part made on the control queue (m requests) and the rest
fn split_ctl(evs: &[Ev], m: usize) -> usize {
    if m == 0 { return 0; }
    let mut seen = 0;
    for (i, e) in evs.iter().enumerate() {
        if let Ev::Unshare { len: 4096, dir: 1, .. } = e { seen += 1;
            if seen == m { return evs[i..].iter().position(|x| matches!(x, Ev::Share { .. })).map(|p| i + p).unwrap_or(evs.len()); } }
    }
    evs.len()
}

/// one iteration of the pcm_xfer loop has just ended (or the call has returned): record what the driver read in it
fn xcap_record(s: &mut Sim) {
    let all = hal::log_since(s.x.mark);
    let evs: &[Ev] = if !s.x.started { let p = split_ctl(&all, s.dev.ctl_log.len()); &all[p..] } else { &all[..] };
    s.x.started = true;
    let mut addrs = [0u64; 4]; let mut pos = 0;
    for e in evs { match e { Ev::Share { paddr, .. } => { if pos < 4 { addrs[pos] = *paddr; } pos += 1; } Ev::Store { what: 2, .. } => break, _ => {} } }
    let popped = evs.iter().any(|e| matches!(e, Ev::Unshare { .. }));
    let ui = hal::dev_read_u16(s.dev.tx.dev + 2).unwrap();
    let slot = (s.x.last_used as usize) & (N - 1);
    let uid = hal::dev_read_u32(s.dev.tx.dev + 4 + 8 * slot as u64).unwrap();
    let ulen = hal::dev_read_u32(s.dev.tx.dev + 8 + 8 * slot as u64).unwrap();
    let st = if popped { s.dev.tx_status_of(uid as u16) } else { 0 };
    s.x.envs.push([addrs[0] as u128, addrs[1] as u128, addrs[2] as u128, addrs[3] as u128, s.x.pre.0 as u128, s.x.pre.1 as u128,
        ui as u128, uid as u128, ulen as u128, st as u128]);
    if popped { s.x.last_used = s.x.last_used.wrapping_add(1); }
}

fn observer(e: Event) {
    match e {
        Event::Spin(site) => {
            let mut hopeless = false;
            SIM.with(|c| { if let Some(s) = c.borrow_mut().as_mut() {
                if !s.active { return; }
                if site == 0 {
                    s.spins0 += 1;
                    let pre = suppression(&s.dev.ctl);
                    if s.ctl_pre.len() == s.dev.ctl_log.len() { s.ctl_pre.push(pre); }
                    let p = *s.ctl_pre.last().unwrap();
                    match s.policy { Policy::Poll(k) | Policy::Late(k) => { if s.spins0 >= k { s.dev.serve_ctl(p); s.spins0 = 0; } } Policy::OnNotify => {} }
                    if s.spins0 > 3000 { hopeless = true; }
                } else if site == 2 {
                    s.spins2 += 1;
                    if s.x.on { xcap_record(s); }
                    let mut r = s.rng.clone();
                    match s.policy {
                        Policy::Poll(k) => { s.dev.fetch_tx(&mut r); if s.spins2 % k == 0 && !s.dev.tx_pending.is_empty() {
                            let n = 1 + r.below(s.dev.tx_pending.len() as u64) as usize; for _ in 0..n { s.dev.publish_tx(0); } } }
                        Policy::Late(k) => { if s.spins2 % k == 0 { s.dev.fetch_tx(&mut r); while !s.dev.tx_pending.is_empty() { s.dev.publish_tx(0); } } }
                        Policy::OnNotify => {}
                    }
                    s.rng = r;
                    if s.x.on { s.x.pre = suppression(&s.dev.tx); s.x.mark = hal::log_len(); }
                    if s.spins2 > 5000 { hopeless = true; }
                }
            } });
            if hopeless { panic!("busy-wait can never end"); }
        }
        Event::Store { .. } => {
            // which queue was written? compare the driver-written areas with their shadows
            SIM.with(|c| { if let Some(s) = c.borrow_mut().as_mut() {
                let nc = snapshot(&s.dev.ctl);
                if nc != s.shadow_ctl { s.shadow_ctl = nc; CURQ.with(|q| *q.borrow_mut() = s.dev.ctl); }
                else { let nt = snapshot(&s.dev.tx); if nt != s.shadow_tx { s.shadow_tx = nt; CURQ.with(|q| *q.borrow_mut() = s.dev.tx); } }
            } });
            qrig::observer(e)
        }
        other => qrig::observer(other),
    }
}
fn sim_notify(q: u16) {
    SIM.with(|c| { if let Some(s) = c.borrow_mut().as_mut() {
        if !s.active { return; }
        if q == 0 {
            let pre = suppression(&s.dev.ctl);
            if s.ctl_pre.len() == s.dev.ctl_log.len() { s.ctl_pre.push(pre); }
            if s.policy == Policy::OnNotify { let p = *s.ctl_pre.last().unwrap(); s.dev.serve_ctl(p); }
        } else if q == 2 && s.policy == Policy::OnNotify {
            let mut r = s.rng.clone(); s.dev.fetch_tx(&mut r); s.rng = r;
            while !s.dev.tx_pending.is_empty() { s.dev.publish_tx(0); }
        }
    } });
}

// ------------------------------------------------------------------------------------------------
// event encoding (Extract/SoundIO.enc_sevs): buffers are named by position within their add
#[derive(Clone, Copy)]
enum Mode { Ctl, Xfer { base: usize, period: usize }, Nb { bid: u64, rid: u64 }, Pop }
#[derive(Default)]
pub struct Enc { map: HashMap<usize, u64>, tables: HashMap<u64, u128> }
impl Enc {
    fn enc(&mut self, evs: &[Ev], mode: Mode, k: &mut usize) -> Vec<u128> {
        let mut o = vec![]; let mut pos = 0usize;
        for (i, e) in evs.iter().enumerate() {
            match e {
                Ev::Share { vaddr, len, dir, paddr } => {
                    pos += 1;
                    let id: Option<u64> = match mode {
                        Mode::Ctl => match pos { 1 => Some(1), 2 => Some(2), _ => None },
                        Mode::Xfer { base, period } => match pos { 1 => Some(3),
                            2 => Some(if *vaddr == base + *k * period { 1000 + *k as u64 } else { 999_999 }),
                            3 => Some(10 + (*k % 32) as u64), _ => None },
                        Mode::Nb { bid, rid } => match pos { 1 => Some(bid), 2 => Some(rid), _ => None },
                        Mode::Pop => None,
                    };
                    match id {
                        Some(id) => { self.map.insert(*vaddr, id); o.extend([1, id as u128, *len as u128, (*dir == 1) as u128, *paddr as u128]); }
                        None => { let head = evs[i..].iter().find_map(|x| if let Ev::Store { what: 1, val, .. } = x { Some(*val as u128) } else { None }).unwrap_or(0);
                            self.tables.insert(*paddr, head); o.extend([2, head, (*len / 16) as u128, *paddr as u128]); }
                    }
                }
                Ev::Unshare { paddr, vaddr, len, dir, .. } => {
                    if let Some(head) = self.tables.remove(paddr) { o.extend([4, *paddr as u128, head, (*len / 16) as u128]); }
                    else { let id = self.map.get(vaddr).copied().unwrap_or(0); o.extend([3, *paddr as u128, id as u128, *len as u128, (*dir == 1) as u128]); }
                }
                Ev::StoreDesc { index, addr, len, flags, next } => o.extend([5, *index as u128, *addr as u128, *len as u128, *flags as u128, *next as u128]),
                Ev::Store { what: 1, index, val } => o.extend([6, *index as u128, *val as u128]),
                Ev::Fence => o.push(7),
                Ev::Store { what: 2, val, .. } => { o.extend([8, *val as u128]); *k += 1; pos = 0; }
                Ev::Store { what: 3, val, .. } => o.extend([9, *val as u128]),
                Ev::Store { what: 4, val, .. } => o.extend([10, *val as u128]),
                Ev::Notify(q) => o.extend([11, *q as u128]),
                _ => {}
            }
        }
        o
    }
}

/// share answers of each control request of a call: (request, receive buffer, table)
fn ctl_share_addrs(evs: &[Ev]) -> Vec<[u64; 3]> {
    let mut out: Vec<[u64; 3]> = vec![]; let mut pos = 0usize;
    for e in evs {
        match e {
            Ev::Share { paddr, .. } => { if pos == 0 { out.push([0; 3]); } if pos < 3 { out.last_mut().unwrap()[pos] = *paddr; } pos += 1; }
            Ev::Store { what: 2, .. } => pos = 0,
            _ => {}
        }
    }
    out
}

fn enc_view(rb: &[u8], wl: u32, ok: bool) -> Vec<u128> {
    if !ok { return vec![0, 0, 0]; }
    let mut v = vec![1, wl as u128, rb.len() as u128]; v.extend(rb.iter().map(|b| *b as u128)); v
}

// ------------------------------------------------------------------------------------------------
pub struct Rig {
    snd: Option<Snd>, st: Rc<RefCell<TState>>, ctl: QAddr, evq: QAddr, tx: QAddr,
    indirect: bool, event_idx: bool, tx_last_used: u16, enc: Enc, next_id: u64,
    cfg: (u32, u32, u32), setup_done: bool, broken: bool,
    /// the platform / transport log of VirtIOSound::new; the last OK answer of the device to PCM_INFO
    new_evs: Vec<Ev>, pcm_rsp: Option<Vec<u8>>,
}

fn gen_infos(ctx: &mut Ctx, nj: usize, np: usize, nc: usize) -> (Vec<JackInfo>, Vec<PcmInfo>, Vec<ChmapInfo>) {
    let r = &mut ctx.rng;
    let jacks = (0..nj).map(|_| JackInfo { nid: r.boundary(32) as u32, features: if r.chance(2, 3) { 1 | if r.chance(1, 2) { 0 } else { r.next() as u32 } } else { (r.next() as u32) & !1 },
        defconf: r.next() as u32, caps: r.boundary(32) as u32, connected: r.below(3) as u8, pad: { let mut p = [0u8; 7]; if r.chance(1, 3) { for x in p.iter_mut() { *x = r.next() as u8; } } p } }).collect();
    let pcms = (0..np).map(|_| PcmInfo { nid: r.next() as u32, features: r.boundary(32) as u32, formats: r.boundary(64), rates: r.boundary(64),
        direction: match r.below(8) { 0..=3 => 0, 4..=6 => 1, _ => 2 + r.below(254) as u8 }, chmin: r.next() as u8, chmax: r.next() as u8,
        pad: { let mut p = [0u8; 5]; if r.chance(1, 3) { for x in p.iter_mut() { *x = r.next() as u8; } } p } }).collect();
    let chmaps = (0..nc).map(|_| ChmapInfo { nid: r.next() as u32, direction: r.below(2) as u8, channels: r.below(19) as u8,
        positions: { let mut p = [0u8; 18]; for x in p.iter_mut() { *x = r.below(40) as u8; } p } }).collect();
    (jacks, pcms, chmaps)
}

fn make(ctx: &mut Ctx, feats: u64, nj: usize, np: usize, nc: usize) -> Option<Rig> {
    hal::reset();
    qrig::BUFIDS.with(|b| b.borrow_mut().clear());
    CURQ.with(|c| *c.borrow_mut() = QAddr::default());
    SIM.with(|c| *c.borrow_mut() = None);
    virtio_drivers::verif::set_observer(None);
    let (jacks, pcms, chmaps) = gen_infos(ctx, nj, np, nc);
    let mut ts = TState::new(DeviceType::Sound, feats, 4, N as u32);
    let mut cfg = vec![]; cfg.extend((nj as u32).to_le_bytes()); cfg.extend((np as u32).to_le_bytes()); cfg.extend((nc as u32).to_le_bytes());
    ts.config = cfg;
    let (t, st) = ModelTransport::new(ts);
    let r = catch_unwind(AssertUnwindSafe(move || Snd::new(t)));
    let evs = hal::take_log();
    let accepted = evs.iter().find_map(|e| if let Ev::WriteFeatures(v) = e { Some(*v) } else { None }).unwrap_or(0);
    let (indirect, event_idx) = (accepted & F_IND != 0, accepted & F_EV != 0);
    let snd = match r { Ok(Ok(s)) => s, _ => { ctx.tr.note("new_failed"); ctx.tr.line(2058, &[nj as u128, np as u128, nc as u128, u128::MAX, 0, 0], &[1]); return None; } };
    ctx.tr.line(2034, &[feats as u128, nj as u128, np as u128, nc as u128], &[indirect as u128, event_idx as u128, snd.jacks() as u128, snd.streams() as u128, snd.chmaps() as u128]);
    ctx.tr.line(2058, &[nj as u128, np as u128, nc as u128, snd.jacks() as u128, snd.streams() as u128, snd.chmaps() as u128], &[1]);
    // the three configuration reads of new, predicted (2039), and the counters against the raw configuration bytes (2061)
    let mut co = vec![0u128, 0, snd.jacks() as u128, snd.streams() as u128, snd.chmaps() as u128];
    for e in &evs { if let Ev::ReadConfig { off, len } = e { co.extend([*off as u128, *len as u128]); } }
    ctx.tr.line(2039, &[0, nj as u128, 0, np as u128, 0, nc as u128], &co);
    let mut cm = vec![0u128, snd.jacks() as u128, snd.streams() as u128, snd.chmaps() as u128]; cm.extend(st.borrow().config.iter().map(|b| *b as u128));
    ctx.tr.line(2061, &cm, &[1]);
    let q = |i: usize| { let qi = st.borrow().queues[i]; QAddr { desc: qi.desc, drv: qi.drv, dev: qi.dev, size: N } };
    let (ctl, evq, tx) = (q(0), q(1), q(2));
    let seed = ctx.rng.next();
    let dev = SndDev { ctl, evq, tx, event_idx, accepted: vec![None; pcms.len()], jacks, pcms, chmaps, ctl_seen: 0, ctl_used: 0, tx_seen: 0, tx_used: 0,
        ctl_log: vec![], tx_log: vec![], tx_pending: vec![], tx_done: vec![], force_ctl: vec![], force_tx: None, tx_fetched_op: 0, max_out: 0 };
    let (sc, stx) = (snapshot(&ctl), snapshot(&tx));
    SIM.with(|c| *c.borrow_mut() = Some(Sim { dev, policy: Policy::OnNotify, spins0: 0, spins2: 0, rng: crate::rng::Rng::new(seed), active: false,
        ctl_pre: vec![], x: XCap::default(), shadow_ctl: sc, shadow_tx: stx }));
    st.borrow_mut().on_notify = Some(Box::new(|q, _s| sim_notify(q)));
    virtio_drivers::verif::set_observer(Some(observer));
    Some(Rig { snd: Some(snd), st, ctl, evq, tx, indirect, event_idx, tx_last_used: 0, enc: Enc::default(), next_id: 5000,
        cfg: (nj as u32, np as u32, nc as u32), setup_done: false, broken: false, new_evs: evs, pcm_rsp: None })
}

fn finish(mut rig: Rig, ctx: &mut Ctx, clean: bool) {
    rig.st.borrow_mut().on_notify = None;
    // the 32 event buffers stay posted for the whole life of the driver; everything else must be gone
    let ev_shares = 32;
    if clean && !rig.broken { ctx.tr.line(2, &[], &[(hal::live_shares().saturating_sub(ev_shares)) as u128]); }
    drop(rig.snd.take());
    virtio_drivers::verif::set_observer(None);
    SIM.with(|c| *c.borrow_mut() = None);
    ledger_line(ctx);
}

fn set_policy(rig: &Rig, ctx: &mut Ctx, policy: Policy) {
    // notification suppression as this device policy wants it, on both queues
    let suppress = matches!(policy, Policy::Poll(_) | Policy::Late(_));
    for (a, seen) in [(rig.ctl, with_sim(|s| s.dev.ctl_seen)), (rig.tx, with_sim(|s| s.dev.tx_seen))] {
        if rig.event_idx { hal::dev_write_u16(a.dev + 4 + 8 * N as u64, if suppress { seen.wrapping_add(0x4000) } else { seen }).unwrap(); }
        hal::dev_write_u16(a.dev, if rig.event_idx { ctx.rng.below(2) as u16 } else { suppress as u16 }).unwrap();
    }
    with_sim(|s| { s.policy = policy; s.spins0 = 0; s.spins2 = 0; s.ctl_pre.clear(); s.dev.ctl_log.clear(); s.dev.tx_log.clear(); s.dev.tx_fetched_op = 0; s.dev.max_out = s.dev.tx_pending.len(); s.active = true; });
}
fn pick_policy(ctx: &mut Ctx) -> Policy {
    match ctx.rng.below(3) { 0 => Policy::OnNotify, 1 => Policy::Poll(1 + ctx.rng.below(4) as u32), _ => Policy::Late(1 + ctx.rng.below(12) as u32) }
}

/// the control part of a call: environments for the model, views, monitors 2050 / 2059. Returns (cenvs encoded, n, views encoded, n views)
fn ctl_part(rig: &mut Rig, ctx: &mut Ctx, ctl_evs: &[Ev], own_code: Option<u32>, kind_args: (u128, [u128; 7])) -> (Vec<u128>, usize, Vec<u128>, usize, Vec<CtlSeen>) {
    let log: Vec<CtlSeen> = with_sim(|s| s.dev.ctl_log.clone());
    let addrs = ctl_share_addrs(ctl_evs);
    let mut cenvs = vec![]; let mut views = vec![];
    for (j, m) in log.iter().enumerate() {
        let a = addrs.get(j).copied().unwrap_or([0; 3]);
        cenvs.extend([a[0] as u128, a[1] as u128, a[2] as u128, m.pre.0 as u128, m.pre.1 as u128, m.uidx as u128, m.head as u128, m.rsp.len() as u128, m.rsp.len() as u128]);
        cenvs.extend(m.rsp.iter().map(|b| *b as u128));
        views.extend(enc_view(&m.rb, m.wlen, !m.els.is_empty()));
        // monitor 2050: what the device decoded against what the caller asked
        let (kind, a7): (u128, [u128; 7]) = match m.code {
            1 => (1, [1, rig.cfg.0 as u128, 0, 0, 0, 0, 0]), 0x100 => (1, [0x100, rig.cfg.1 as u128, 0, 0, 0, 0, 0]), 0x200 => (1, [0x200, rig.cfg.2 as u128, 0, 0, 0, 0, 0]),
            c if Some(c) == own_code => kind_args, _ => (0, [0; 7]) };
        let mut mi = vec![kind]; mi.extend(a7); mi.push(m.els.len() as u128);
        for e in &m.els { mi.extend([e.1 as u128, e.2 as u128]); }
        mi.extend(m.rb.iter().map(|b| *b as u128));
        ctx.tr.line(2050, &mi, &[1]);
        ctx.tr.note(&format!("ctl_msg_{:#x}_st_{:#x}", m.code, m.status));
    }
    let qcodes: Vec<u128> = log.iter().filter(|m| matches!(m.code, 1 | 0x100 | 0x200)).map(|m| m.code as u128).collect();
    if !qcodes.is_empty() { let mut mi = vec![qcodes.len() as u128]; mi.extend(qcodes); ctx.tr.line(2059, &mi, &[1]); }
    if log.iter().any(|m| m.code == 0x200) || (log.iter().any(|m| m.code == 0x100 && m.status == S_OK)) { /* set_up got past the pcm query */ }
    (cenvs, log.len(), views, log.len(), log)
}

fn res_class<T>(r: &std::thread::Result<Result<T, virtio_drivers::Error>>) -> (u128, u128) {
    match r { Ok(Ok(_)) => (0, 0), Ok(Err(e)) => (1, err_code(e)), Err(_) => (2, 0) }
}

fn fmt_of(n: u8) -> PcmFormat {
    use PcmFormat::*;
    [ImaAdpcm, MuLaw, ALaw, S8, U8, S16, U16, S18_3, U18_3, S20_3, U20_3, S24_3, U24_3, S20, U20, S24, U24, S32, U32, FLOAT, FLOAT64, DsdU8, DsdU16, DsdU32, Iec958Subframe][n as usize % 25]
}
fn rate_of(n: u8) -> PcmRate {
    use PcmRate::*;
    [Rate5512, Rate8000, Rate11025, Rate16000, Rate22050, Rate32000, Rate44100, Rate48000, Rate64000, Rate88200, Rate96000, Rate176400, Rate192000, Rate384000][n as usize % 14]
}

/// one control operation. op 1 set_params, 2 pcm command, 3 jack_remap, 4 query. Returns the result class.
fn ctl_op(rig: &mut Rig, ctx: &mut Ctx, op: u8, a: [u64; 7], policy: Policy) -> u128 {
    set_policy(rig, ctx, policy);
    let mark = hal::log_len();
    let snd = rig.snd.as_mut().unwrap();
    let mut vals: Vec<u128> = vec![];
    let (class, code) = match op {
        1 => res_class(&catch_unwind(AssertUnwindSafe(|| snd.pcm_set_params(a[0] as u32, a[1] as u32, a[2] as u32, PcmFeatures::from_bits_retain(a[3] as u32), a[4] as u8, fmt_of(a[5] as u8), rate_of(a[6] as u8))))),
        2 => res_class(&catch_unwind(AssertUnwindSafe(|| match a[0] { 0x102 => snd.pcm_prepare(a[1] as u32), 0x103 => snd.pcm_release(a[1] as u32), 0x104 => snd.pcm_start(a[1] as u32), _ => snd.pcm_stop(a[1] as u32) }))),
        3 => res_class(&catch_unwind(AssertUnwindSafe(|| snd.jack_remap(a[0] as u32, a[1] as u32, a[2] as u32)))),
        _ => {
            let r: std::thread::Result<Result<Vec<u128>, virtio_drivers::Error>> = catch_unwind(AssertUnwindSafe(|| match a[0] {
                0 => snd.output_streams().map(|v| v.iter().map(|x| *x as u128).collect()),
                1 => snd.input_streams().map(|v| v.iter().map(|x| *x as u128).collect()),
                2 => snd.rates_supported(a[1] as u32).map(|v| vec![v.bits() as u128]),
                3 => snd.formats_supported(a[1] as u32).map(|v| vec![v.bits() as u128]),
                4 => snd.channel_range_supported(a[1] as u32).map(|v| vec![*v.start() as u128, *v.end() as u128]),
                _ => snd.features_supported(a[1] as u32).map(|v| vec![v.bits() as u128]),
            }));
            if let Ok(Ok(v)) = &r { vals = v.clone(); }
            res_class(&r)
        }
    };
    with_sim(|s| s.active = false);
    let evs = hal::log_since(mark);
    let own_code: Option<u32> = match op { 1 => Some(0x101), 2 => Some(a[0] as u32), 3 => Some(2), _ => None };
    let kind_args: (u128, [u128; 7]) = match op {
        1 => (3, [a[0] as u128, a[1] as u128, a[2] as u128, a[3] as u128, a[4] as u128, (a[5] % 25) as u128, (a[6] % 14) as u128]),
        2 => (4, [a[0] as u128, a[1] as u128, 0, 0, 0, 0, 0]), 3 => (2, [a[0] as u128, a[1] as u128, a[2] as u128, 0, 0, 0, 0]), _ => (0, [0; 7]) };
    let (cenvs, n_env, views, n_views, log) = ctl_part(rig, ctx, &evs, own_code, kind_args);
    let mut ins: Vec<u128> = vec![op as u128];
    match op { 1 => ins.extend([a[0] as u128, a[1] as u128, a[2] as u128, a[3] as u128, a[4] as u128, (a[5] % 25) as u128, (a[6] % 14) as u128]),
               _ => ins.extend(a.iter().map(|x| *x as u128)) }
    ins.push(n_env as u128); ins.extend(cenvs);
    let mut outs = vec![class, code, vals.len() as u128]; outs.extend(vals.iter().cloned());
    outs.push(n_views as u128); outs.extend(views); outs.push(99);
    let mut k = 0; outs.extend(rig.enc.enc(&evs, Mode::Ctl, &mut k));
    ctx.tr.line(2035, &ins, &outs);
    ctx.tr.note(&format!("ctl_op{}_class{}", op, class));
    // monitor 2051: result against the statuses the device answered
    let own = own_code.and_then(|c| log.iter().rev().find(|m| m.code == c)).map(|m| m.status).unwrap_or(0);
    let pcmq = log.iter().find(|m| m.code == 0x100).map(|m| m.status).unwrap_or(0);
    ctx.tr.line(2051, &[(op != 4) as u128, class, own as u128, pcmq as u128], &[1]);
    // monitor 2060: a panic is excused only by a documented precondition (stream id out of range in set_params)
    let excused = op == 1 && a[0] >= rig.cfg.1 as u64;
    ctx.tr.line(2060, &[class, excused as u128], &[1]);
    if op == 4 {
        let mut mi = vec![a[0] as u128, a[1] as u128, class, vals.len() as u128]; mi.extend(vals.iter().cloned());
        with_sim(|s| { mi.push(s.dev.pcms.len() as u128); for p in &s.dev.pcms { mi.extend([p.direction as u128, p.rates as u128, p.formats as u128, p.chmin as u128, p.chmax as u128, p.features as u128]); } });
        // only meaningful once the device has answered the PCM_INFO query successfully (before or during this call)
        if class == 0 || rig.setup_done { ctx.tr.line(2055, &mi, &[1]); }
    }
    // the device's answer to PCM_INFO as it wrote it (status ++ items), kept for the queries that follow
    if let Some(m) = log.iter().find(|m| m.code == 0x100 && m.status == S_OK) { if class != 2 { rig.pcm_rsp = Some(m.rsp.clone()); } }
    if op == 4 {
        if let Some(rsp) = &rig.pcm_rsp {
            // monitor 2062: the value returned against the RAW answer, read with the field table of 5.14.6.6.2
            let mut mi = vec![a[0] as u128, a[1] as u128, class, code, vals.len() as u128]; mi.extend(vals.iter().cloned());
            mi.push(rig.cfg.1 as u128); mi.extend(rsp.iter().map(|b| *b as u128));
            ctx.tr.line(2062, &mi, &[1]);
            ctx.tr.note(&format!("query{}_{}", a[0], if class == 0 { "ok" } else { "refused" }));
        }
    }
    if log.iter().any(|m| m.code == 0x100 && m.status == S_OK) && class != 2 { rig.setup_done = true; }
    if class == 2 { rig.broken = true; }
    class
}

/// blocking pcm_xfer
fn xfer_op(rig: &mut Rig, ctx: &mut Ctx, sid: u32, frames: &[u8], policy: Policy, force_tx: Option<(usize, u32)>) -> u128 {
    set_policy(rig, ctx, policy);
    let tlu = rig.tx_last_used;
    let mark = hal::log_len();
    let pre = suppression(&rig.tx);
    with_sim(|s| { s.dev.force_tx = force_tx; s.x = XCap { on: true, started: false, envs: vec![], pre, last_used: tlu, mark }; });
    let had_params = with_sim(|s| s.dev.accepted.get(sid as usize).copied().flatten());
    let snd = rig.snd.as_mut().unwrap();
    let r = catch_unwind(AssertUnwindSafe(|| snd.pcm_xfer(sid, frames)));
    let (class, code) = res_class(&r);
    // the iteration in which the loop ended has no busy-wait report: record it now
    with_sim(|s| { xcap_record(s); s.x.on = false; s.active = false; });
    // chains published but never fetched (error paths): the device looks at them now
    with_sim(|s| { let mut r = s.rng.clone(); s.dev.fetch_tx(&mut r); s.rng = r; s.dev.force_tx = None; });
    let evs = hal::log_since(mark);
    let n_ctl = with_sim(|s| s.dev.ctl_log.len());
    let p = split_ctl(&evs, n_ctl);
    let (cenvs, n_env, mut views, mut n_views, log) = ctl_part(rig, ctx, &evs[..p], None, (0, [0; 7]));
    let (xenvs, txlog, max_out, left): (Vec<[u128; 10]>, Vec<TxSeen>, usize, usize) = with_sim(|s| (std::mem::take(&mut s.x.envs), std::mem::take(&mut s.dev.tx_log), s.dev.max_out, s.dev.tx_pending.len()));
    rig.tx_last_used = with_sim(|s| s.x.last_used);
    for t in &txlog { views.extend(enc_view(&t.rb, t.wlen, !t.els.is_empty())); n_views += 1; }
    let mut ins = vec![sid as u128, frames.len() as u128]; ins.extend(frames.iter().map(|b| *b as u128));
    ins.push(n_env as u128); ins.extend(cenvs);
    ins.push(xenvs.len() as u128); for e in &xenvs { ins.extend(e.iter().cloned()); }
    let mut outs = vec![class, code, 0, n_views as u128]; outs.extend(views); outs.push(99);
    let mut k = 0; outs.extend(rig.enc.enc(&evs[..p], Mode::Ctl, &mut k));
    let period = had_params.map(|x| x.1 as usize).unwrap_or(0);
    let mut k = 0; outs.extend(rig.enc.enc(&evs[p..], Mode::Xfer { base: frames.as_ptr() as usize, period }, &mut k));
    ctx.tr.line(2036, &ins, &outs);
    ctx.tr.note(&format!("xfer_class{}_chunks{}", class, txlog.len().min(40)));
    ctx.tr.note(match policy { Policy::OnNotify => "xfer_policy_on_notify", Policy::Poll(_) => "xfer_policy_poll", Policy::Late(_) => "xfer_policy_late" });
    // monitors
    let pcmq = log.iter().find(|m| m.code == 0x100).map(|m| m.status).unwrap_or(0);
    let setup_failed = pcmq != 0 && pcmq != S_OK;
    let mut off = 0usize; let mut all_match = true; let mut all_ok = true;
    for t in &txlog {
        let data: &[u8] = if t.rb.len() >= 4 { &t.rb[4..] } else { &[] };
        let ok = frames.len() >= off + data.len() && frames[off..off + data.len()] == *data;
        if !ok { all_match = false; }
        off += data.len();
        if t.status != S_OK { all_ok = false; }
        let mut mi = vec![sid as u128, t.period as u128, t.had_params as u128, ok as u128, t.els.len() as u128];
        for e in &t.els { mi.extend([e.1 as u128, e.2 as u128]); }
        for i in 0..4 { mi.push(*t.rb.get(i).unwrap_or(&0) as u128); }
        mi.push(t.rb.len() as u128);
        ctx.tr.line(2052, &mi, &[1]);
    }
    ctx.tr.line(2057, &[had_params.is_some() as u128, class, code, txlog.len() as u128], &[1]);
    if had_params.is_some() && !setup_failed && (sid as usize) < rig.cfg.1 as usize {
        let concat_ok = all_match && off == frames.len();
        ctx.tr.line(2053, &[class, all_ok as u128, concat_ok as u128, txlog.len() as u128, max_out as u128, N as u128, if rig.indirect { 1 } else { 3 }, left as u128], &[1]);
        ctx.tr.note_n("tx_messages", txlog.len() as u64);
        ctx.tr.note(&format!("xfer_max_outstanding_{}", max_out));
    }
    ctx.tr.line(2060, &[class, (sid >= rig.cfg.1) as u128], &[1]);
    if log.iter().any(|m| m.code == 0x100 && m.status == S_OK) && class != 2 { rig.setup_done = true; }
    if class != 0 && !txlog.is_empty() { rig.broken = true; }
    if class == 2 { rig.broken = true; }
    class
}

// ------------------------------------------------------------------------------------------------
// token interface
struct NbSlot { token: u16, frames: Vec<u8>, sid: u32, bid: u64, rid: u64 }

fn nb_submit(rig: &mut Rig, ctx: &mut Ctx, slots: &mut Vec<NbSlot>, sid: u32, frames: Vec<u8>) -> u128 {
    set_policy(rig, ctx, Policy::Poll(1));
    // the device does not act on the TX queue during the call
    let (ae, uf) = suppression(&rig.tx);
    let had_params = with_sim(|s| s.dev.accepted.get(sid as usize).copied().flatten());
    let (bid, rid) = (rig.next_id, rig.next_id + 1); rig.next_id += 2;
    let mark = hal::log_len();
    let snd = rig.snd.as_mut().unwrap();
    let r = catch_unwind(AssertUnwindSafe(|| snd.pcm_xfer_nb(sid, &frames)));
    with_sim(|s| s.active = false);
    let evs = hal::log_since(mark);
    let n_ctl = with_sim(|s| s.dev.ctl_log.len());
    let p = split_ctl(&evs, n_ctl);
    let (cenvs, n_env, mut views, mut n_views, log) = ctl_part(rig, ctx, &evs[..p], None, (0, [0; 7]));
    with_sim(|s| { let mut r = s.rng.clone(); s.dev.fetch_tx(&mut r); s.rng = r; });
    let txlog: Vec<TxSeen> = with_sim(|s| std::mem::take(&mut s.dev.tx_log));
    for t in &txlog { views.extend(enc_view(&t.rb, t.wlen, !t.els.is_empty())); n_views += 1; }
    let tx_evs = &evs[p..];
    let mut addrs = [0u64; 3]; let mut pos = 0;
    for e in tx_evs { if let Ev::Share { paddr, .. } = e { if pos < 3 { addrs[pos] = *paddr; } pos += 1; } }
    let mut ins = vec![sid as u128, frames.len() as u128]; ins.extend(frames.iter().map(|b| *b as u128));
    ins.extend([bid as u128, rid as u128, addrs[0] as u128, addrs[1] as u128, addrs[2] as u128, ae as u128, uf as u128, n_env as u128]); ins.extend(cenvs);
    let (class, val) = match &r { Ok(Ok(t)) => (0u128, *t as u128), Ok(Err(e)) => (1, err_code(e)), Err(_) => (2, 0) };
    let mut outs = vec![class, val, 0, n_views as u128]; outs.extend(views); outs.push(99);
    let mut k = 0; outs.extend(rig.enc.enc(&evs[..p], Mode::Ctl, &mut k));
    let mut k = 0; outs.extend(rig.enc.enc(tx_evs, Mode::Nb { bid, rid }, &mut k));
    ctx.tr.line(2037, &ins, &outs);
    ctx.tr.note(&format!("nb_submit_class{}", class));
    for t in &txlog {
        let data: &[u8] = if t.rb.len() >= 4 { &t.rb[4..] } else { &[] };
        let mut mi = vec![sid as u128, t.period as u128, t.had_params as u128, (data == &frames[..]) as u128, t.els.len() as u128];
        for e in &t.els { mi.extend([e.1 as u128, e.2 as u128]); }
        for i in 0..4 { mi.push(*t.rb.get(i).unwrap_or(&0) as u128); }
        mi.push(t.rb.len() as u128);
        ctx.tr.line(2052, &mi, &[1]);
    }
    ctx.tr.line(2057, &[had_params.is_some() as u128, class, val, txlog.len() as u128], &[1]);
    let excused = sid >= rig.cfg.1 || had_params.map(|x| x.1 as usize != frames.len()).unwrap_or(false);
    ctx.tr.line(2060, &[class, excused as u128], &[1]);
    // never more outstanding than the queue admits
    let per = if rig.indirect { 1 } else { 2 };
    ctx.tr.line(2053, &[0, 1, 1, 0, (slots.len() + (class == 0) as usize) as u128, N as u128, per, 0], &[1]);
    if log.iter().any(|m| m.code == 0x100 && m.status == S_OK) && class != 2 { rig.setup_done = true; }
    if let Ok(Ok(tok)) = r { slots.push(NbSlot { token: tok, frames, sid, bid, rid }); ctx.tr.note(&format!("nb_outstanding_{}", slots.len())); }
    if class == 2 { rig.broken = true; }
    class
}

/// pcm_xfer_ok(token); returns true if the transfer left the queue
fn nb_ok(rig: &mut Rig, ctx: &mut Ctx, slots: &mut Vec<NbSlot>, token: u16) -> bool {
    let ui = hal::dev_read_u16(rig.tx.dev + 2).unwrap();
    let slot = (rig.tx_last_used as usize) & (N - 1);
    let uid = hal::dev_read_u32(rig.tx.dev + 4 + 8 * slot as u64).unwrap();
    let ulen = hal::dev_read_u32(rig.tx.dev + 8 + 8 * slot as u64).unwrap();
    let st = with_sim(|s| s.dev.tx_status_of(token));
    let known = slots.iter().any(|s| s.token == token);
    let mark = hal::log_len();
    let snd = rig.snd.as_mut().unwrap();
    let r = catch_unwind(AssertUnwindSafe(|| snd.pcm_xfer_ok(token)));
    let evs = hal::log_since(mark);
    let (class, code) = res_class(&r);
    let mut outs = vec![class, code]; let mut k = 0; outs.extend(rig.enc.enc(&evs, Mode::Pop, &mut k));
    ctx.tr.line(2038, &[token as u128, ui as u128, uid as u128, ulen as u128, st as u128], &outs);
    let popped = evs.iter().any(|e| matches!(e, Ev::Unshare { .. }));
    ctx.tr.line(2060, &[class, (!known) as u128], &[1]);
    if class == 2 && known { rig.broken = true; }
    if popped {
        rig.tx_last_used = rig.tx_last_used.wrapping_add(1);
        if let Some(p) = slots.iter().position(|s| s.token == token) { slots.remove(p); }
        with_sim(|s| { if let Some(p) = s.dev.tx_done.iter().rposition(|x| x.head == token) { s.dev.tx_done.remove(p); } });
        let per = 2 + rig.indirect as usize;
        ctx.tr.line(2054, &[st as u128, class, 1, (hal::live_shares() == 32 + per * slots.len()) as u128], &[1]);
        ctx.tr.note(&format!("nb_ok_st_{:#x}", st));
    } else {
        ctx.tr.note(&format!("nb_ok_refused_{}", code));
    }
    popped
}

// ------------------------------------------------------------------------------------------------
// scenarios
const FEATS: [u64; 6] = [0, F_IND, F_EV, F_IND | F_EV | F_V1, F_V1 | F_AP, F_IND | F_EV | F_V1 | F_AP];

fn pick_status(ctx: &mut Ctx) -> u32 {
    *ctx.rng.pick(&[S_BAD_MSG, S_NOT_SUPP, S_IO_ERR, 0, 1, 0x7fff, 0x8004, 0x0000_8000 << 8, 0x0080_0000, 0xffff_ffff, 0x8000_0000, 0x1_8000 & 0xffff_ffff])
}
fn pick_params(ctx: &mut Ctx) -> (u32, u32) {
    // (buffer, period): mostly valid, with the boundary cases of the three guards
    match ctx.rng.below(10) {
        0 => (ctx.rng.boundary(32) as u32, 0),
        1 => { let p = 1 + ctx.rng.below(64) as u32; (p - 1, p) }
        2 => { let p = 2 + ctx.rng.below(64) as u32; (p * (1 + ctx.rng.below(4) as u32) + 1 + ctx.rng.below(p as u64 - 1) as u32, p) }
        3 => (u32::MAX, *ctx.rng.pick(&[1u32, 3, 5, 17, 257, 65537, u32::MAX])),
        4 => (ctx.rng.boundary(32) as u32, ctx.rng.boundary(32) as u32),
        _ => { let p = 1 + ctx.rng.below(200) as u32; (p * (1 + ctx.rng.below(8) as u32), p) }
    }
}

fn ctl_history(ctx: &mut Ctx, feats: u64, nops: usize, variant: u64) {
    let (nj, np, nc) = match variant % 6 { 0 => (2, 3, 1), 1 => (0, 0, 0), 2 => (170, 127, 170), 3 => (171, 4, 2), 4 => (3, 128, 171), _ => (1 + ctx.rng.below(5) as usize, 1 + ctx.rng.below(6) as usize, ctx.rng.below(4) as usize) };
    let mut rig = match make(ctx, feats, nj, np, nc) { Some(r) => r, None => return };
    // failures of the set_up queries: each of them, with every kind of status
    match variant % 5 {
        1 => { let s = pick_status(ctx); with_sim(|sm| sm.dev.force_ctl.push((1, s))); }
        2 => { let s = pick_status(ctx); with_sim(|sm| sm.dev.force_ctl.push((0x100, s))); }
        3 => { let s = pick_status(ctx); with_sim(|sm| sm.dev.force_ctl.push((0x200, s))); }
        4 => { let (s1, s2) = (pick_status(ctx), pick_status(ctx)); with_sim(|sm| { sm.dev.force_ctl.push((0x100, s1)); sm.dev.force_ctl.push((0x100, s2)); }); }
        _ => {}
    }
    for _ in 0..nops {
        if rig.broken { break; }
        let policy = pick_policy(ctx);
        let sid = match ctx.rng.below(8) { 0 => np as u64 + ctx.rng.below(2), 1 => ctx.rng.boundary(32), _ => ctx.rng.below(np.max(1) as u64) };
        // an error answer to the operation's own request, sometimes
        let force = ctx.rng.chance(1, 4);
        match ctx.rng.below(10) {
            0..=2 => {
                let (b, p) = pick_params(ctx);
                // an accepted request for a stream the driver has no slot for panics by design: keep those rare
                let sid = if sid >= np as u64 && ctx.rng.chance(3, 4) { ctx.rng.below(np.max(1) as u64) } else { sid };
                if force { let s = pick_status(ctx); with_sim(|sm| sm.dev.force_ctl.push((0x101, s))); }
                let args = [sid, b as u64, p as u64, ctx.rng.boundary(32), ctx.rng.boundary(8), ctx.rng.below(25), ctx.rng.below(14)];
                ctl_op(&mut rig, ctx, 1, args, policy);
            }
            3..=5 => {
                let code = 0x102 + ctx.rng.below(4);
                if force { let s = pick_status(ctx); with_sim(|sm| sm.dev.force_ctl.push((code as u32, s))); }
                ctl_op(&mut rig, ctx, 2, [code, sid, 0, 0, 0, 0, 0], policy);
            }
            6 => {
                let jack = match ctx.rng.below(4) { 0 => nj as u64, 1 => ctx.rng.boundary(32), _ => ctx.rng.below(nj.max(1) as u64) };
                if force { let s = pick_status(ctx); with_sim(|sm| sm.dev.force_ctl.push((2, s))); }
                let args = [jack, ctx.rng.boundary(32), ctx.rng.boundary(32), 0, 0, 0, 0];
                ctl_op(&mut rig, ctx, 3, args, policy);
            }
            _ => { let args = [ctx.rng.below(6), sid, 0, 0, 0, 0, 0]; ctl_op(&mut rig, ctx, 4, args, policy); }
        }
        with_sim(|sm| sm.dev.force_ctl.retain(|f| matches!(f.0, 1 | 0x100 | 0x200)));
    }
    finish(rig, ctx, true);
}

fn setup_stream(rig: &mut Rig, ctx: &mut Ctx, sid: u32, buffer: u32, period: u32) -> bool {
    ctl_op(rig, ctx, 1, [sid as u64, buffer as u64, period as u64, 0, 2, 5, 6], Policy::OnNotify) == 0
}

fn xfer_history(ctx: &mut Ctx, feats: u64, variant: u64) {
    let np = 2 + (variant % 5) as usize;
    let mut rig = match make(ctx, feats, 1, np, 1) { Some(r) => r, None => return };
    let sid = (variant % np as u64) as u32;
    // the state rule first: a transfer before any parameters (this also runs set_up lazily inside pcm_xfer)
    let n0 = 1 + ctx.rng.below(40) as usize; let f0 = ctx.rng.bytes(n0);
    if variant % 3 == 0 { xfer_op(&mut rig, ctx, sid, &f0, Policy::OnNotify, None); }
    // parameters refused by the device do not count
    if variant % 4 == 1 { let s = pick_status(ctx); with_sim(|sm| sm.dev.force_ctl.push((0x101, s))); setup_stream(&mut rig, ctx, sid, 64, 8); xfer_op(&mut rig, ctx, sid, &f0, Policy::Poll(1), None); }
    if variant % 4 == 2 { ctl_op(&mut rig, ctx, 1, [sid as u64, 7, 0, 0, 1, 1, 1], Policy::OnNotify); xfer_op(&mut rig, ctx, sid, &f0, Policy::Poll(2), None); }
    let period: u32 = *ctx.rng.pick(&[1u32, 2, 3, 7, 16, 64, 100, 255, 256, 1000, 4096]);
    let bufsz = period * (1 + ctx.rng.below(4) as u32);
    if !setup_stream(&mut rig, ctx, sid, bufsz, period) { finish(rig, ctx, true); return; }
    // another stream stays without parameters
    let other = (sid + 1) % np as u32;
    xfer_op(&mut rig, ctx, other, &f0, Policy::OnNotify, None);
    let p = period as usize;
    let mut lens: Vec<usize> = vec![0, 1, p, p + 1, 2 * p, 31 * p, 32 * p + 1, 33 * p, 10 * p + p / 2, 11 * p, 30 * p];
    if p > 1 { lens.extend([p - 1, 2 * p - 1, 10 * p - 1]); }
    lens.push(ctx.rng.below(50 * p as u64) as usize);
    ctx.rng.shuffle(&mut lens);
    for (i, l) in lens.iter().enumerate() {
        if rig.broken { break; }
        let l = (*l).min(6000);
        let frames = ctx.rng.bytes(l);
        let policy = match (i as u64 + variant) % 4 { 0 => Policy::OnNotify, 1 => Policy::Poll(1 + ctx.rng.below(3) as u32), 2 => Policy::Late(3 + ctx.rng.below(10) as u32), _ => pick_policy(ctx) };
        // a device that sleeps long enough for the queue (10 messages direct, 32 indirect) and the 32-entry rings to fill up
        let policy = if l >= 30 * p && ctx.rng.chance(2, 3) { Policy::Late(40 + ctx.rng.below(12) as u32) } else { policy };
        xfer_op(&mut rig, ctx, sid, &frames, policy, None);
        if ctx.rng.chance(1, 5) && !rig.broken {
            // new parameters in between: the following transfers use the new period
            let np2 = 1 + ctx.rng.below(300) as u32; setup_stream(&mut rig, ctx, sid, np2 * 2, np2);
            let fr = ctx.rng.bytes((np2 as usize * 3 + 1).min(4000)); let pol = pick_policy(ctx); xfer_op(&mut rig, ctx, sid, &fr, pol, None);
            setup_stream(&mut rig, ctx, sid, period, period);
        }
    }
    // a device error on some message: the call must fail (the driver is not used afterwards: it still owns chains)
    if !rig.broken && variant % 2 == 0 {
        let nchunks = 1 + ctx.rng.below(40) as usize;
        let frames = ctx.rng.bytes((nchunks * p).min(6000));
        let k = ctx.rng.below(((frames.len() + p - 1) / p).max(1) as u64) as usize;
        let s = pick_status(ctx);
        let pol = pick_policy(ctx); xfer_op(&mut rig, ctx, sid, &frames, pol, Some((k, s)));
    }
    let clean = !rig.broken;
    finish(rig, ctx, clean);
}

fn nb_history(ctx: &mut Ctx, feats: u64, nops: usize, variant: u64) {
    let np = 1 + (variant % 4) as usize;
    let mut rig = match make(ctx, feats, 0, np, 0) { Some(r) => r, None => return };
    let mut slots: Vec<NbSlot> = vec![];
    let periods: Vec<u32> = (0..np).map(|_| *ctx.rng.pick(&[1u32, 4, 12, 16, 100, 512])).collect();
    // before parameters: refused (and set_up runs inside pcm_xfer_nb)
    if variant % 2 == 0 { let f = ctx.rng.bytes(4); nb_submit(&mut rig, ctx, &mut slots, 0, f); }
    for s in 0..np { if s as u64 != variant % 7 || np == 1 { setup_stream(&mut rig, ctx, s as u32, periods[s] * 2, periods[s]); } }
    let mut inversions = 0u64;
    for _ in 0..nops {
        if rig.broken { break; }
        let r = ctx.rng.below(100);
        if r < 40 {
            let sid = ctx.rng.below(np as u64) as u32;
            let len = if ctx.rng.chance(1, 30) { periods[sid as usize] as usize + 1 } else { periods[sid as usize] as usize };
            if ctx.rng.chance(1, 6) { let st = pick_status(ctx); with_sim(|sm| sm.dev.force_tx = Some((0, st))); }
            let f = ctx.rng.bytes(len);
            nb_submit(&mut rig, ctx, &mut slots, sid, f);
            with_sim(|sm| sm.dev.force_tx = None);
        } else if r < 60 {
            let n = with_sim(|s| s.dev.tx_pending.len());
            if n > 0 { let k = ctx.rng.below(n as u64) as usize; if k != 0 { inversions += 1; } with_sim(|s| s.dev.publish_tx(k)); }
        } else if r < 95 {
            if slots.is_empty() { continue; }
            let ui = hal::dev_read_u16(rig.tx.dev + 2).unwrap();
            let uid = hal::dev_read_u32(rig.tx.dev + 4 + 8 * ((rig.tx_last_used as usize) & (N - 1)) as u64).unwrap() as u16;
            let ready = ui != rig.tx_last_used;
            if ready && ctx.rng.chance(3, 4) { nb_ok(&mut rig, ctx, &mut slots, uid); }
            else { let k = ctx.rng.below(slots.len() as u64) as usize; let t = slots[k].token; if !(ready && t == uid) { nb_ok(&mut rig, ctx, &mut slots, t); } }
        } else if r < 97 {
            // a token that is not outstanding: documented assert
            let t = (0..40u16).find(|t| !slots.iter().any(|s| s.token == *t)).unwrap();
            nb_ok(&mut rig, ctx, &mut slots, t);
            break;
        } else {
            hal::dev_write_u16(rig.tx.dev + 4 + 8 * N as u64, ctx.rng.boundary(16) as u16).unwrap();
            hal::dev_write_u16(rig.tx.dev, ctx.rng.below(2) as u16).unwrap();
        }
    }
    // drain in a shuffled order
    if !rig.broken {
        loop { let n = with_sim(|s| s.dev.tx_pending.len()); if n == 0 { break; } let k = ctx.rng.below(n as u64) as usize; if k != 0 { inversions += 1; } with_sim(|s| s.dev.publish_tx(k)); }
        while !slots.is_empty() {
            let ui = hal::dev_read_u16(rig.tx.dev + 2).unwrap();
            if ui == rig.tx_last_used { break; }
            let uid = hal::dev_read_u32(rig.tx.dev + 4 + 8 * ((rig.tx_last_used as usize) & (N - 1)) as u64).unwrap() as u16;
            if !nb_ok(&mut rig, ctx, &mut slots, uid) { break; }
        }
        ctx.tr.line(2054, &[S_OK as u128, 0, 1, slots.is_empty() as u128], &[1]);
        // the queue is idle again: a blocking transfer goes through
        if variant % 3 == 0 && slots.is_empty() { let f = ctx.rng.bytes(periods[0] as usize * 3 + 1); if with_sim(|s| s.dev.accepted[0].is_some()) { let pol = pick_policy(ctx); xfer_op(&mut rig, ctx, 0, &f, pol, None); } }
    }
    ctx.tr.note_n("nb_out_of_order_publications", inversions);
    let clean = !rig.broken && slots.is_empty();
    finish(rig, ctx, clean);
}

/// fill the queue with token transfers (one more is refused), complete in a full random permutation
fn nb_permutation(ctx: &mut Ctx, feats: u64) {
    let mut rig = match make(ctx, feats, 0, 2, 0) { Some(r) => r, None => return };
    let mut slots: Vec<NbSlot> = vec![];
    setup_stream(&mut rig, ctx, 1, 24, 12);
    for round in 0..3 {
        let cap = if rig.indirect { 32 } else { 16 };
        for _ in 0..cap + 1 { let f = ctx.rng.bytes(12); nb_submit(&mut rig, ctx, &mut slots, 1, f); }
        ctx.tr.note(&format!("nb_queue_full_at_{}", slots.len()));
        if round == 1 { let st = pick_status(ctx); with_sim(|sm| sm.dev.force_tx = None); let k = ctx.rng.below(slots.len() as u64) as usize;
            // rewrite the status of one pending transfer
            with_sim(|sm| { if let Some(t) = sm.dev.tx_pending.get_mut(k) { t.status = st; let mut b = st.to_le_bytes().to_vec(); b.extend([0u8; 4]); write_over(&t.els, &b); } }); }
        loop { let n = with_sim(|s| s.dev.tx_pending.len()); if n == 0 { break; } let k = ctx.rng.below(n as u64) as usize; with_sim(|s| s.dev.publish_tx(k)); }
        while !slots.is_empty() {
            let ui = hal::dev_read_u16(rig.tx.dev + 2).unwrap();
            if ui == rig.tx_last_used { break; }
            let uid = hal::dev_read_u32(rig.tx.dev + 4 + 8 * ((rig.tx_last_used as usize) & (N - 1)) as u64).unwrap() as u16;
            if slots.len() > 1 && ctx.rng.chance(1, 3) { let k = ctx.rng.below(slots.len() as u64) as usize; let t = slots[k].token; if t != uid { nb_ok(&mut rig, ctx, &mut slots, t); } }
            if !nb_ok(&mut rig, ctx, &mut slots, uid) { break; }
        }
    }
    ctx.tr.line(2054, &[S_OK as u128, 0, 1, slots.is_empty() as u128], &[1]);
    let clean = slots.is_empty();
    finish(rig, ctx, clean);
}

/// VirtIO 1.2, 2.7.10 (written from the specification): must the device be told about the entries published while the
/// available index moved from `old` to `new`?
fn spec_must_notify(event_idx: bool, ae: u16, uf: u16, new: u16, old: u16) -> bool {
    if event_idx { new.wrapping_sub(ae).wrapping_sub(1) < new.wrapping_sub(old) } else { uf & 1 == 0 }
}

/// latest_notification: each device event is returned once, in order, with its type and data.
/// Every call is one line 1981 for Model/Sound.snd_latest_notification (result and ordered queue effects predicted), one
/// monitor line 1982 (the clauses of SoundProofs.snd_notif_stocked on device memory) and the older monitor line 2056; the
/// event-queue part of VirtIOSound::new is line 1980.
fn notifications(ctx: &mut Ctx, feats: u64, nevents: usize) {
    let mut rig = match make(ctx, feats, 1, 1, 0) { Some(r) => r, None => return };
    let a = rig.evq;
    // identities of the 32 event buffers: the 8-byte shares of new, in order; from now on the store hooks report on the event queue
    let shares: Vec<(usize, u64)> = rig.new_evs.iter().filter_map(|e| if let Ev::Share { vaddr, len: 8, paddr, .. } = e { Some((*vaddr, *paddr)) } else { None }).collect();
    qrig::BUFIDS.with(|m| { let mut m = m.borrow_mut(); m.clear(); for (i, s) in shares.iter().enumerate() { m.insert(s.0, i as u64); } });
    CURQ.with(|c| *c.borrow_mut() = a);
    virtio_drivers::verif::set_observer(Some(qrig::observer));
    rig.st.borrow_mut().on_notify = None;
    {
        let (ae0, uf0) = (hal::dev_read_u16(a.dev + 4 + 8 * N as u64).unwrap_or(0), hal::dev_read_u16(a.dev).unwrap_or(0));
        let mut ins = vec![feats as u128, 0, ae0 as u128, uf0 as u128]; ins.extend(shares.iter().map(|s| s.1 as u128));
        let mut outs: Vec<u128> = vec![0, 0];
        for (i, s) in shares.iter().enumerate() { outs.extend([1, i as u128, 8, 1, s.1 as u128]); }
        let ok_pos = rig.new_evs.iter().position(|e| matches!(e, Ev::SetStatus(s) if s & 4 != 0)).unwrap_or(rig.new_evs.len());
        for e in &rig.new_evs[ok_pos..] { if let Ev::Notify(q) = e { if *q == 1 { outs.push(11); } else { outs.extend([11, *q as u128]); } } }
        // a notification before DRIVER_OK would be C08's finding; here it only breaks the correspondence
        for e in &rig.new_evs[..ok_pos] { if let Ev::Notify(q) = e { outs.extend([13, *q as u128]); } }
        ctx.tr.line(1980, &ins, &outs);
    }
    let mut dev = ODev { a, seen: 0, used: 0, fetched: vec![] };
    let mut expect: Vec<(u32, u32, u32)> = vec![];
    let mut done = 0;
    let mut last_used: u16 = 0;
    // bounded whatever the code under test does (a driver that stops delivering must not make the scenario run for ever)
    let mut rounds = 0usize;
    while done < nevents && rounds < 4 * nevents + 64 {
        rounds += 1;
        dev.fetch();
        let burst = ctx.rng.below(34) as usize;
        for _ in 0..burst {
            if dev.fetched.is_empty() { break; }
            let k = ctx.rng.below(dev.fetched.len() as u64) as usize;
            let code: u32 = match ctx.rng.below(8) { 0 => 0x1000, 1 => 0x1001, 2 => 0x1100, 3 => 0x1101, 4 => *ctx.rng.pick(&[0u32, 0x1002, 0x10ff, 0x1102, 0x8000, 0x0100_1000, u32::MAX]), _ => *ctx.rng.pick(&[0x1000u32, 0x1001, 0x1100, 0x1101]) };
            let data = ctx.rng.boundary(32) as u32;
            let mut b = code.to_le_bytes().to_vec(); b.extend(data.to_le_bytes());
            // mostly whole events; sometimes a shorter length, sometimes one beyond the buffer (9, 2^16, 2^32-1)
            let len = if ctx.rng.chance(1, 10) { *ctx.rng.pick(&[0u32, 4, 7]) } else if ctx.rng.chance(1, 14) { *ctx.rng.pick(&[9u32, 0x1_0000, u32::MAX]) } else { 8 };
            dev.complete(k, &b, len);
            expect.push((code, data, len));
        }
        if ctx.rng.chance(1, 5) { // suppression data changes
            hal::dev_write_u16(a.dev + 4 + 8 * N as u64, if ctx.rng.chance(1, 2) { hal::dev_read_u16(a.drv + 2).unwrap().wrapping_sub(ctx.rng.below(3) as u16).wrapping_add(1) } else { ctx.rng.boundary(16) as u16 }).unwrap();
            hal::dev_write_u16(a.dev, ctx.rng.below(2) as u16).unwrap();
        }
        let polls = 1 + ctx.rng.below(36) as usize;
        for _ in 0..polls {
            // what the device shows at this moment
            let ui = hal::dev_read_u16(a.dev + 2).unwrap();
            let slot = (last_used as usize) & (N - 1);
            let uid = hal::dev_read_u32(a.dev + 4 + 8 * slot as u64).unwrap();
            let ulen = hal::dev_read_u32(a.dev + 8 + 8 * slot as u64).unwrap();
            let ae = hal::dev_read_u16(a.dev + 4 + 8 * N as u64).unwrap();
            let uf = hal::dev_read_u16(a.dev).unwrap();
            let avail_before = hal::dev_read_u16(a.drv + 2).unwrap();
            let tok = (uid & 0xffff) as usize;
            let is_pending = ui != last_used;
            // what the completed buffer will hold after the copy-back: the contents of the device-side buffer now
            let wr: Vec<u8> = if is_pending && tok < N { qrig::read_desc(&a, tok).and_then(|d| hal::dev_read(d.0, 8).ok()).unwrap_or_default() } else { vec![] };
            hal::take_log();
            let snd = rig.snd.as_mut().unwrap();
            let r = catch_unwind(AssertUnwindSafe(|| snd.latest_notification()));
            let evs = hal::take_log();
            dev.fetch();
            let addr = evs.iter().find_map(|e| if let Ev::Share { paddr, .. } = e { Some(*paddr) } else { None }).unwrap_or(0);
            let pending = !expect.is_empty();
            let (code, data, len) = expect.first().copied().unwrap_or((0, 0, 0));
            let (class, has, ty, d) = match &r { Ok(Ok(Some(n))) => (0u128, 1u128, n.notification_type() as u32 as u128, n.data() as u128), Ok(Ok(None)) => (0, 0, 0, 0), Ok(Err(_)) => (1, 0, 0, 0), Err(_) => (2, 0, 0, 0) };
            let ecode = match &r { Ok(Err(e)) => err_code(e), _ => 0 };
            // ---- the model's line
            let mut ins = vec![ui as u128, uid as u128, ulen as u128, addr as u128, ae as u128, uf as u128]; ins.extend(wr.iter().map(|b| *b as u128));
            let mut outs: Vec<u128> = match &r { Ok(Ok(Some(_))) => vec![0, 1, ty, d], Ok(Ok(None)) => vec![0, 0, 0, 0], Ok(Err(e)) => vec![1, err_code(e), 0, 0], Err(_) => vec![2, 0, 0, 0] };
            outs.extend(qrig::enc_qevents(&evs, tok as u128));
            ctx.tr.line(1981, &ins, &outs);
            // ---- monitor 1982: what the device finds afterwards
            let avail_after = hal::dev_read_u16(a.drv + 2).unwrap();
            let adelta = avail_after.wrapping_sub(avail_before);
            let head = hal::dev_read_u16(a.drv + 4 + 2 * ((avail_after.wrapping_sub(1) as u64) & (N as u64 - 1))).unwrap();
            let (dlen, dw, disbuf) = match qrig::read_desc(&a, head as usize & (N - 1)) {
                Some((daddr, l, flags, _)) => (l as u128, (flags & 7 == 2) as u128, (tok < N && shares.get(tok).map(|s| hal::share_at(daddr) == Some((s.0, 8, 1))).unwrap_or(false)) as u128),
                None => (0, 0, 0) };
            let n1 = evs.iter().filter(|e| matches!(e, Ev::Notify(1))).count() as u128;
            let nother = evs.iter().filter(|e| matches!(e, Ev::Notify(q) if *q != 1)).count() as u128;
            let nshares = evs.iter().filter(|e| matches!(e, Ev::Share { .. })).count() as u128;
            let nunshares = evs.iter().filter(|e| matches!(e, Ev::Unshare { .. })).count() as u128;
            let must = spec_must_notify(rig.event_idx, ae, uf, avail_after, avail_before) as u128;
            let (dcode, ddata) = if wr.len() == 8 { (le32(&wr) as u128, le32(&wr[4..]) as u128) } else { (0, 0) };
            ctx.tr.line(1982, &[is_pending as u128, (tok < N) as u128, class, ecode, has, adelta as u128, head as u128, tok as u128, dlen, dw, disbuf,
                                n1, nother, must, nshares, nunshares, ulen as u128, ty, d, dcode, ddata], &[1]);
            if is_pending && tok < N && adelta == 1 { ctx.tr.note(if n1 > 0 { "notification_repost_notified" } else { "notification_repost_suppressed" }); }
            // ---- the older monitor 2056
            let consumed = pending && class != 2;
            if consumed { expect.remove(0); done += 1; last_used = last_used.wrapping_add(1); }
            let posted = dev.posted() as u128 + expect.len() as u128;
            // (2056 is stated for recorded lengths up to the buffer size; a longer one is judged by 1982: IoError, buffer posted again)
            if !(pending && len > 8) { ctx.tr.line(2056, &[class, has, ty, d, pending as u128, code as u128, data as u128, len as u128, posted], &[1]); }
            ctx.tr.note(if has == 1 { "notification_delivered" } else if class == 1 && len > 8 { "notification_oversize_length" } else if class == 1 { "notification_unknown_type" }
                        else if pending && len < 8 { "notification_short_length" } else { "notification_none" });
            if class == 2 { done = nevents; break; }
        }
    }
    virtio_drivers::verif::set_observer(None);
    CURQ.with(|c| *c.borrow_mut() = QAddr::default());
    finish(rig, ctx, false);
}

/// VirtIOSound::new on configuration spaces of every length: the three counters are read at offsets 0, 4, 8 (4 bytes
/// each), a refused read ends the constructor with the transport's error before the later fields are touched (line 2039)
fn config_reads(ctx: &mut Ctx) {
    for cfg_len in [12usize, 16, 0, 3, 4, 7, 8, 11, 12] {
        hal::reset();
        qrig::BUFIDS.with(|b| b.borrow_mut().clear());
        CURQ.with(|c| *c.borrow_mut() = QAddr::default());
        SIM.with(|c| *c.borrow_mut() = None);
        virtio_drivers::verif::set_observer(None);
        let vals = [ctx.rng.boundary(32) as u32, ctx.rng.below(40) as u32, ctx.rng.boundary(32) as u32];
        let mut cfg = vec![]; for v in vals { cfg.extend(v.to_le_bytes()); }
        cfg.resize(cfg_len.max(12), 0); cfg.truncate(cfg_len);
        let mut ts = TState::new(DeviceType::Sound, F_V1 | *ctx.rng.pick(&[0u64, F_IND, F_EV]), 4, N as u32);
        ts.config = cfg.clone();
        let (t, _st) = ModelTransport::new(ts);
        let r = catch_unwind(AssertUnwindSafe(move || Snd::new(t)));
        let evs = hal::take_log();
        // what the transport answers to the three reads: the field if the memory holds it, ConfigSpaceTooSmall (9) otherwise
        let mut ins = vec![];
        for k in 0..3usize { if 4 * k + 4 <= cfg_len { ins.extend([0u128, vals[k] as u128]); } else { ins.extend([1u128, 9]); } }
        let mut outs: Vec<u128> = match &r { Ok(Ok(s)) => vec![0, 0, s.jacks() as u128, s.streams() as u128, s.chmaps() as u128], Ok(Err(e)) => vec![1, err_code(e), 0, 0, 0], Err(_) => vec![2, 0, 0, 0, 0] };
        for e in &evs { if let Ev::ReadConfig { off, len } = e { outs.extend([*off as u128, *len as u128]); } }
        ctx.tr.line(2039, &ins, &outs);
        if let Ok(Ok(s)) = &r {
            let mut cm = vec![0u128, s.jacks() as u128, s.streams() as u128, s.chmaps() as u128]; cm.extend(cfg[..12].iter().map(|b| *b as u128));
            ctx.tr.line(2061, &cm, &[1]);
        }
        ctx.tr.note(match &r { Ok(Ok(_)) => "snd_new_config_ok", Ok(Err(_)) => "snd_new_config_refused", Err(_) => "snd_new_config_panic" });
        let _ = catch_unwind(AssertUnwindSafe(move || drop(r)));
        hal::take_log();
        ledger_line(ctx);
    }
}

/// the two findings of this check, as minimal histories; they run first on every check
fn finding_xfer_ok_status(ctx: &mut Ctx) {
    let mut rig = match make(ctx, 0, 0, 1, 0) { Some(r) => r, None => return };
    let mut slots: Vec<NbSlot> = vec![];
    setup_stream(&mut rig, ctx, 0, 8, 4);
    // the device fails the transfer: VIRTIO_SND_S_IO_ERR in the status it writes
    with_sim(|sm| sm.dev.force_tx = Some((0, S_IO_ERR)));
    nb_submit(&mut rig, ctx, &mut slots, 0, vec![1, 2, 3, 4]);
    with_sim(|s| { s.dev.force_tx = None; if !s.dev.tx_pending.is_empty() { s.dev.publish_tx(0); } });
    if let Some(t) = slots.first().map(|s| s.token) { nb_ok(&mut rig, ctx, &mut slots, t); }
    finish(rig, ctx, true);
}
fn finding_jack_remap_panic(ctx: &mut Ctx) {
    let mut rig = match make(ctx, 0, 2, 1, 0) { Some(r) => r, None => return };
    // the device fails the jack query of set_up (tolerated by the driver), then the caller remaps jack 1
    with_sim(|sm| sm.dev.force_ctl.push((1, S_IO_ERR)));
    ctl_op(&mut rig, ctx, 3, [1, 0, 0, 0, 0, 0, 0], Policy::OnNotify);
    let clean = !rig.broken;
    finish(rig, ctx, clean);
}

/// the token interface only (also run under C04 and C09: the buffers of a transfer stay shared, and are neither
/// released nor unshared, until its completion is consumed, whatever the polling order)
pub fn run_nb(ctx: &mut Ctx) {
    let nn = ctx.budget(12, 4);
    for i in 0..nn { ctx.tr.scenario(&format!("c20snd-nb-{}", i)); nb_history(ctx, FEATS[(i % 6) as usize], 150, i); }
    for (i, f) in FEATS.iter().enumerate() { ctx.tr.scenario(&format!("c20snd-nb-permutation-{}", i)); nb_permutation(ctx, *f); }
}

/// blocking playback only (also run under C09: when pcm_xfer returns, nothing it posted is still with the device)
pub fn run_xfer(ctx: &mut Ctx) {
    let nx = ctx.budget(18, 6);
    for i in 0..nx { ctx.tr.scenario(&format!("c20snd-xfer-{}", i)); xfer_history(ctx, FEATS[(i % 6) as usize], i); }
}

/// the notification (event) queue only: also run under C19
pub fn run_notifications(ctx: &mut Ctx) {
    for (i, f) in [0u64, F_IND, F_EV, F_IND | F_EV | F_V1].iter().enumerate() { ctx.tr.scenario(&format!("c20snd-notifications-{}", i)); let n = ctx.budget(300, 10) as usize; notifications(ctx, *f, n); }
}

pub fn run(ctx: &mut Ctx) {
    ctx.tr.scenario("c20snd-finding-xfer-ok-status"); finding_xfer_ok_status(ctx);
    ctx.tr.scenario("c20snd-finding-jack-remap-panic"); finding_jack_remap_panic(ctx);
    ctx.tr.scenario("c20snd-config-reads"); config_reads(ctx);
    let nctl = ctx.budget(72, 8);
    let ops = ctx.budget(40, 3) as usize;
    for i in 0..nctl { ctx.tr.scenario(&format!("c20snd-ctl-{}", i)); ctl_history(ctx, FEATS[(i % 6) as usize], ops, i); }
    let nx = ctx.budget(60, 8);
    for i in 0..nx { ctx.tr.scenario(&format!("c20snd-xfer-{}", i)); xfer_history(ctx, FEATS[(i % 6) as usize], i); }
    let nn = ctx.budget(48, 8);
    for i in 0..nn { ctx.tr.scenario(&format!("c20snd-nb-{}", i)); nb_history(ctx, FEATS[(i % 6) as usize], 150, i); }
    for (i, f) in FEATS.iter().enumerate() { ctx.tr.scenario(&format!("c20snd-nb-permutation-{}", i)); nb_permutation(ctx, *f); }
    for (i, f) in [0u64, F_IND, F_EV, F_IND | F_EV | F_V1].iter().enumerate() { ctx.tr.scenario(&format!("c20snd-notifications-{}", i)); let n = ctx.budget(300, 10) as usize; notifications(ctx, *f, n); }
}
