//! C09: construction (with every early return) and teardown of all eleven drivers, in lock-step with
//! Model/Teardown.v.
//!  * exhaustive fault enumeration: every driver x {modern, legacy layout} x "the k-th dma_alloc is refused"
//!    for every k x "config reads fail from the j-th on" for every j, plus directed config contents
//!    (9p mount tag empty / not UTF-8 / truncated, a short VirtIONet buffer, generation changes that make
//!    read_consistent retry);
//!  * usage histories followed by drop: GPU frame buffer / cursor DMA with device verdicts, refused
//!    allocations and boundary resolutions; receive buffers handed out by VirtIONet; console / input
//!    buffers consumed and re-posted; sound transfers left outstanding; blocking requests;
//!  * observation: the ledger Hal + transport log give alloc / dealloc / queue_set / queue_unset / status /
//!    transport-drop order; `WatchHal` + a `#[global_allocator]` wrapper report every heap free that hits
//!    memory currently shared with the device; a hook observer scans the available rings (through device
//!    addresses) to know which chain every shared buffer is outstanding on;
//!  * monitors 950 (balanced), 951 (quiesced: mode 1 = queue_unset disables a queue and the transport drop
//!    resets, mode 0 = without that reset, mode 2 = the PCI reading in which queue_unset does nothing and only
//!    a reset quiesces) and 952 (refused allocation -> Err(DmaError)) evaluate the property on the OBSERVED
//!    event sequence of each life cycle.
use crate::hal::{self, Ev, LedgerHal};
use crate::scen::common::*;
use crate::scen::drivers9::{self, Built, Drv};
use crate::tport::{ModelTransport, TState};
use crate::Ctx;
use std::alloc::{GlobalAlloc, Layout, System};
use std::cell::RefCell;
use std::collections::{HashMap, HashSet, VecDeque};
use std::panic::{catch_unwind, AssertUnwindSafe};
use std::ptr::NonNull;
use std::rc::Rc;
use std::sync::atomic::{AtomicBool, AtomicUsize, Ordering::Relaxed};
use virtio_drivers::device::sound::{PcmFeatures, PcmFormat, PcmRate};
use virtio_drivers::verif::Event;
use virtio_drivers::{BufferDirection, Hal, PhysAddr};

// ------------------------------------------------------------------------------------------------
// allocator interposition: a heap free that overlaps memory currently shared with the device
pub struct HookAlloc;
pub static WATCH_ON: AtomicBool = AtomicBool::new(false);
const NW: usize = 1024;
static W_START: [AtomicUsize; NW] = [const { AtomicUsize::new(0) }; NW];
static W_LEN: [AtomicUsize; NW] = [const { AtomicUsize::new(0) }; NW];
static W_HI: AtomicUsize = AtomicUsize::new(0);
const NH: usize = 16384;
pub static H_N: AtomicUsize = AtomicUsize::new(0);
static H_VADDR: [AtomicUsize; NH] = [const { AtomicUsize::new(0) }; NH];
static H_POS: [AtomicUsize; NH] = [const { AtomicUsize::new(0) }; NH];
static H_SEQ: [AtomicUsize; NH] = [const { AtomicUsize::new(0) }; NH];
static H_FREE: [AtomicUsize; NH] = [const { AtomicUsize::new(0) }; NH];
static FREE_ID: AtomicUsize = AtomicUsize::new(0);
static SEQ: AtomicUsize = AtomicUsize::new(0);

fn cur_pos() -> usize {
    hal::LEDGER.try_with(|l| l.try_borrow().map(|l| l.log.len()).unwrap_or(usize::MAX)).unwrap_or(usize::MAX)
}

#[inline]
fn on_free(ptr: usize, size: usize) {
    if size == 0 || !WATCH_ON.load(Relaxed) { return; }
    let hi = W_HI.load(Relaxed);
    let mut id = usize::MAX; let mut pos = 0; let mut seq = 0;
    for i in 0..hi {
        let len = W_LEN[i].load(Relaxed);
        if len == 0 { continue; }
        let s = W_START[i].load(Relaxed);
        if s < ptr + size && ptr < s + len {
            if id == usize::MAX { id = FREE_ID.fetch_add(1, Relaxed); pos = cur_pos(); seq = SEQ.fetch_add(1, Relaxed); }
            let k = H_N.fetch_add(1, Relaxed);
            if k < NH { H_VADDR[k].store(s, Relaxed); H_POS[k].store(pos, Relaxed); H_SEQ[k].store(seq, Relaxed); H_FREE[k].store(id, Relaxed); }
            // the memory is gone: whatever is freed at this address later is a different object
            W_LEN[i].store(0, Relaxed);
        }
    }
}

unsafe impl GlobalAlloc for HookAlloc {
    // crate::falloc: a thread can arm the allocator to refuse its next allocation(s) of one exact size (heap fault injection)
    unsafe fn alloc(&self, l: Layout) -> *mut u8 { if crate::falloc::refuse(l.size()) { return std::ptr::null_mut(); } unsafe { System.alloc(l) } }
    unsafe fn alloc_zeroed(&self, l: Layout) -> *mut u8 { if crate::falloc::refuse(l.size()) { return std::ptr::null_mut(); } unsafe { System.alloc_zeroed(l) } }
    unsafe fn dealloc(&self, p: *mut u8, l: Layout) { on_free(p as usize, l.size()); unsafe { System.dealloc(p, l) } }
    unsafe fn realloc(&self, p: *mut u8, l: Layout, n: usize) -> *mut u8 { on_free(p as usize, l.size()); unsafe { System.realloc(p, l, n) } }
}
#[global_allocator]
static GLOBAL: HookAlloc = HookAlloc;

fn watch_add(vaddr: usize, len: usize) {
    if len == 0 { return; }
    for i in 0..NW {
        if W_LEN[i].load(Relaxed) == 0 {
            W_START[i].store(vaddr, Relaxed); W_LEN[i].store(len, Relaxed);
            if W_HI.load(Relaxed) <= i { W_HI.store(i + 1, Relaxed); }
            return;
        }
    }
    hal::violate("C09 watch table full".into());
}
fn watch_del(vaddr: usize) {
    for i in 0..W_HI.load(Relaxed) { if W_LEN[i].load(Relaxed) != 0 && W_START[i].load(Relaxed) == vaddr { W_LEN[i].store(0, Relaxed); return; } }
}
pub fn watch_reset() {
    WATCH_ON.store(false, Relaxed);
    for i in 0..NW { W_LEN[i].store(0, Relaxed); }
    W_HI.store(0, Relaxed); H_N.store(0, Relaxed); FREE_ID.store(0, Relaxed); SEQ.store(0, Relaxed);
}

/// LedgerHal + a table of the virtual ranges currently shared with the device
pub struct WatchHal;
unsafe impl Hal for WatchHal {
    fn dma_alloc(pages: usize, d: BufferDirection, ap: bool) -> (PhysAddr, NonNull<u8>) { LedgerHal::dma_alloc(pages, d, ap) }
    unsafe fn dma_dealloc(paddr: PhysAddr, vaddr: NonNull<u8>, pages: usize, ap: bool) -> i32 { unsafe { LedgerHal::dma_dealloc(paddr, vaddr, pages, ap) } }
    unsafe fn mmio_phys_to_virt(paddr: PhysAddr, size: usize) -> NonNull<u8> { unsafe { LedgerHal::mmio_phys_to_virt(paddr, size) } }
    unsafe fn share(buffer: NonNull<[u8]>, d: BufferDirection, ap: bool) -> PhysAddr {
        let p = unsafe { LedgerHal::share(buffer, d, ap) };
        watch_add(buffer.as_ptr() as *mut u8 as usize, buffer.len());
        p
    }
    unsafe fn unshare(paddr: PhysAddr, buffer: NonNull<[u8]>, d: BufferDirection, ap: bool) {
        watch_del(buffer.as_ptr() as *mut u8 as usize);
        unsafe { LedgerHal::unshare(paddr, buffer, d, ap) }
    }
}

// ------------------------------------------------------------------------------------------------
// the observed event alphabet (same numbering as Extract/TeardownIO.v)
#[derive(Clone, Debug, PartialEq)]
pub enum Tev {
    Alloc { pages: u64, dir: u8, paddr: u64, vaddr: u64 },
    Dealloc { paddr: u64, vaddr: u64, pages: u64 },
    QueueSet { q: u16, size: u32, desc: u64, drv: u64, dev: u64 },
    QueueUnset(u16),
    Status(u32),
    Drop,
    Cfg { off: u64, len: u64 },
    Gen,
    Post(u16, u16),
    Unpost(u16, u16),
    Free(u16, u16),
}
pub fn enc_tevs(evs: &[Tev]) -> Vec<u128> {
    let mut o = vec![];
    for e in evs {
        match e {
            Tev::Alloc { pages, dir, paddr, vaddr } => o.extend([1, *pages as u128, *dir as u128, *paddr as u128, *vaddr as u128]),
            Tev::Dealloc { paddr, vaddr, pages } => o.extend([2, *paddr as u128, *vaddr as u128, *pages as u128]),
            Tev::QueueSet { q, size, desc, drv, dev } => o.extend([3, *q as u128, *size as u128, *desc as u128, *drv as u128, *dev as u128]),
            Tev::QueueUnset(q) => o.extend([4, *q as u128]),
            Tev::Status(v) => o.extend([5, *v as u128]),
            Tev::Drop => o.push(6),
            Tev::Cfg { off, len } => o.extend([7, *off as u128, *len as u128]),
            Tev::Gen => o.push(8),
            Tev::Post(q, t) => o.extend([9, *q as u128, *t as u128]),
            Tev::Unpost(q, t) => o.extend([10, *q as u128, *t as u128]),
            Tev::Free(q, t) => o.extend([11, *q as u128, *t as u128]),
        }
    }
    o
}

// ------------------------------------------------------------------------------------------------
// hook observer: which chain is every shared buffer outstanding on; the reference device
struct PostRec { q: u16, tok: u16, shares: Vec<(u64, usize, usize)>, live: bool }
struct Side { pos: usize, seq: usize, q: u16, tok: u16, shares: Vec<(u64, usize, usize)> }

pub struct Dev {
    pub kind: Option<Drv>,
    pub seen: HashMap<(u16, u64), u16>,
    pub used: HashMap<(u16, u64), u16>,
    /// verdict of the device on the next control requests (GPU): true = the expected response
    pub verdicts: VecDeque<bool>,
    pub display: (u32, u32),
    /// queues the device does not look at for the moment
    pub hold: HashSet<u16>,
    pub spins: u64,
}
thread_local! {
    static CUR: RefCell<Option<Rc<RefCell<TState>>>> = RefCell::new(None);
    static AVSEEN: RefCell<HashMap<(u16, u64), u16>> = RefCell::new(HashMap::new());
    static SIDE: RefCell<Vec<Side>> = RefCell::new(vec![]);
    static POSTED: RefCell<Vec<PostRec>> = RefCell::new(vec![]);
    static DEV: RefCell<Dev> = RefCell::new(Dev { kind: None, seen: HashMap::new(), used: HashMap::new(), verdicts: VecDeque::new(),
        display: (64, 48), hold: HashSet::new(), spins: 0 });
}

fn rd_desc(b: &[u8]) -> (u64, u32, u16, u16) {
    (u64::from_le_bytes(b[0..8].try_into().unwrap()), u32::from_le_bytes(b[8..12].try_into().unwrap()),
     u16::from_le_bytes([b[12], b[13]]), u16::from_le_bytes([b[14], b[15]]))
}
/// follow a chain the way a device does (VirtIO 1.2, 2.7.5 / 2.7.5.3): (address, length, writable)
fn walk(desc: u64, n: usize, head: u16) -> Vec<(u64, u32, bool)> {
    let mut els = vec![];
    if head as usize >= n { return els; }
    let Ok(b) = hal::dev_read(desc + 16 * head as u64, 16) else { return els };
    let (addr, len, flags, _) = rd_desc(&b);
    if flags & 4 != 0 {
        // the indirect table itself is memory shared with the device too
        els.push((addr, len, false));
        if let Ok(tbl) = hal::dev_read(addr, len as usize) {
            let m = len as usize / 16; let mut i = 0usize; let mut steps = 0;
            while i < m && steps <= m {
                let (a, l, f, nx) = rd_desc(&tbl[16 * i..16 * i + 16]);
                els.push((a, l, f & 2 != 0)); steps += 1;
                if f & 1 == 0 { break; }
                i = nx as usize;
            }
        }
    } else {
        let mut cur = head as usize; let mut steps = 0;
        while cur < n && steps <= n {
            let Ok(b) = hal::dev_read(desc + 16 * cur as u64, 16) else { break };
            let (a, l, f, nx) = rd_desc(&b);
            els.push((a, l, f & 2 != 0)); steps += 1;
            if f & 1 == 0 { break; }
            cur = nx as usize;
        }
    }
    els
}
fn set_queues() -> Vec<(u16, crate::tport::QInfo)> {
    CUR.with(|c| match c.borrow().as_ref() {
        Some(rc) => match rc.try_borrow() { Ok(s) => s.queues.iter().enumerate().filter(|(_, q)| q.set).map(|(i, q)| (i as u16, *q)).collect(), Err(_) => vec![] },
        None => vec![],
    })
}
/// after a store of an available index: which new chains did the driver publish, on which queue?
fn scan_posts() {
    for (q, qi) in set_queues() {
        let n = qi.size as usize;
        if n == 0 { continue; }
        let Ok(aidx) = hal::dev_read_u16(qi.drv + 2) else { continue };
        let mut seen = AVSEEN.with(|m| *m.borrow().get(&(q, qi.desc)).unwrap_or(&0));
        while seen != aidx {
            let slot = (seen as usize) & (n - 1);
            let head = hal::dev_read_u16(qi.drv + 4 + 2 * slot as u64).unwrap_or(u16::MAX);
            let mut shares = vec![];
            for (a, _l, _w) in walk(qi.desc, n, head) { if let Some((va, len, _)) = hal::share_at(a) { shares.push((a, va, len)); } }
            let pos = hal::log_len(); let seq = SEQ.fetch_add(1, Relaxed);
            SIDE.with(|s| s.borrow_mut().push(Side { pos, seq, q, tok: head, shares }));
            seen = seen.wrapping_add(1);
        }
        AVSEEN.with(|m| { m.borrow_mut().insert((q, qi.desc), seen); });
    }
}

/// the reference device: serve every new available entry of every queue it is looking at
fn service() {
    for (q, qi) in set_queues() {
        if DEV.with(|d| d.borrow().hold.contains(&q)) { continue; }
        loop { if !serve_one(q, &qi, None) { break; } }
    }
}
/// serve the next available entry of queue q; `data`: write these bytes into the writable part (used length = their length)
fn serve_one(q: u16, qi: &crate::tport::QInfo, data: Option<&[u8]>) -> bool {
    let n = qi.size as usize;
    let key = (q, qi.desc);
    let (seen, used) = DEV.with(|d| { let d = d.borrow(); (*d.seen.get(&key).unwrap_or(&0), *d.used.get(&key).unwrap_or(&0)) });
    let Ok(aidx) = hal::dev_read_u16(qi.drv + 2) else { return false };
    if seen == aidx { return false; }
    let head = hal::dev_read_u16(qi.drv + 4 + 2 * ((seen as usize) & (n - 1)) as u64).unwrap_or(0);
    let mut els = walk(qi.desc, n, head);
    // drop the pseudo element that stands for an indirect table
    if let Ok(b) = hal::dev_read(qi.desc + 16 * head as u64, 16) { if rd_desc(&b).2 & 4 != 0 && !els.is_empty() { els.remove(0); } }
    let mut req = vec![];
    for (a, l, w) in &els { if !*w { if let Ok(b) = hal::dev_read(*a, *l as usize) { req.extend(b); } } }
    let wtotal: usize = els.iter().filter(|e| e.2).map(|e| e.1 as usize).sum();
    let kind = DEV.with(|d| d.borrow().kind);
    let (resp, ulen): (Vec<u8>, u32) = if let Some(d) = data { (d.to_vec(), d.len() as u32) } else {
        match (kind, q) {
            (Some(Drv::Gpu), 0) => {
                let ty = if req.len() >= 4 { u32::from_le_bytes(req[0..4].try_into().unwrap()) } else { 0 };
                let ok = DEV.with(|d| d.borrow_mut().verdicts.pop_front().unwrap_or(true));
                let mut r = vec![0u8; 24];
                if !ok { r[0..4].copy_from_slice(&0x1200u32.to_le_bytes()); }
                else if ty == 0x100 {
                    // RespDisplayInfo: header, rect, enabled, flags
                    let (w, h) = DEV.with(|d| d.borrow().display);
                    r[0..4].copy_from_slice(&0x1101u32.to_le_bytes());
                    r.extend([0u8; 8]); r.extend(w.to_le_bytes()); r.extend(h.to_le_bytes()); r.extend(1u32.to_le_bytes()); r.extend(0u32.to_le_bytes());
                } else { r[0..4].copy_from_slice(&0x1100u32.to_le_bytes()); }
                let l = r.len() as u32; (r, l)
            }
            (Some(Drv::Sound), 0) => (0x8000u32.to_le_bytes().to_vec(), 4),
            (Some(Drv::P9), 0) => ((wtotal as u32).to_le_bytes().to_vec(), wtotal as u32),
            _ => (vec![], wtotal as u32),
        }
    };
    // write the response through the device addresses of the writable elements
    let mut off = 0usize;
    for (a, l, w) in &els { if *w && off < resp.len() { let k = (resp.len() - off).min(*l as usize); let _ = hal::dev_write(*a, &resp[off..off + k]); off += k; } }
    let slot = (used as usize) & (n - 1);
    let _ = hal::dev_write_u32(qi.dev + 4 + 8 * slot as u64, head as u32);
    let _ = hal::dev_write_u32(qi.dev + 8 + 8 * slot as u64, ulen);
    let _ = hal::dev_write_u16(qi.dev + 2, used.wrapping_add(1));
    // "tell me about the next entry" in case the event index was negotiated
    let _ = hal::dev_write_u16(qi.dev + 4 + 8 * n as u64, seen.wrapping_add(1));
    DEV.with(|d| { let mut d = d.borrow_mut(); d.seen.insert(key, seen.wrapping_add(1)); d.used.insert(key, used.wrapping_add(1)); });
    true
}
/// the device completes the next buffer of queue q with these bytes
fn dev_deliver(q: u16, data: &[u8]) -> bool {
    match set_queues().into_iter().find(|(i, _)| *i == q) { Some((_, qi)) => serve_one(q, &qi, Some(data)), None => false }
}

fn observer(e: Event) {
    match e {
        Event::Store { what: 2, .. } => scan_posts(),
        Event::Spin(_) => {
            let n = DEV.with(|d| { let mut d = d.borrow_mut(); d.spins += 1; d.spins });
            if n > 100_000 { panic!("C09: a busy-wait does not end"); }
            service();
        }
        _ => {}
    }
}

/// merge the Hal/transport log from index `from` with the side observations into the event alphabet
fn collect(from: usize) -> Vec<Tev> {
    let log = hal::log_since(from);
    enum It { Log(Ev), Post(usize), Hit(usize) }
    let mut items: Vec<((usize, u8, usize), It)> = vec![];
    for (i, e) in log.iter().enumerate() { items.push(((from + i, 1, 0), It::Log(e.clone()))); }
    let sides: Vec<Side> = SIDE.with(|s| std::mem::take(&mut *s.borrow_mut()));
    for (k, s) in sides.iter().enumerate() { items.push(((s.pos, 0, s.seq), It::Post(k))); }
    let nh = H_N.swap(0, Relaxed).min(NH);
    for k in 0..nh { items.push(((H_POS[k].load(Relaxed), 0, H_SEQ[k].load(Relaxed)), It::Hit(k))); }
    if H_N.load(Relaxed) > NH { hal::violate("C09 hit table overflow".into()); }
    items.sort_by_key(|x| x.0);
    let mut out: Vec<Tev> = vec![];
    let mut pending_free: Option<(usize, Vec<(u16, u16)>)> = None;
    let flush = |out: &mut Vec<Tev>, pf: &mut Option<(usize, Vec<(u16, u16)>)>| {
        if let Some((_, mut v)) = pf.take() { v.sort(); v.dedup(); for (q, t) in v { out.push(Tev::Free(q, t)); } }
    };
    for (_, it) in items {
        match it {
            It::Hit(k) => {
                let id = H_FREE[k].load(Relaxed); let va = H_VADDR[k].load(Relaxed);
                if pending_free.as_ref().map(|p| p.0) != Some(id) { flush(&mut out, &mut pending_free); pending_free = Some((id, vec![])); }
                POSTED.with(|p| for r in p.borrow().iter().filter(|r| r.live) { if r.shares.iter().any(|s| s.1 == va) { pending_free.as_mut().unwrap().1.push((r.q, r.tok)); } });
            }
            It::Post(k) => {
                flush(&mut out, &mut pending_free);
                let s = &sides[k];
                POSTED.with(|p| p.borrow_mut().push(PostRec { q: s.q, tok: s.tok, shares: s.shares.clone(), live: true }));
                out.push(Tev::Post(s.q, s.tok));
            }
            It::Log(e) => {
                flush(&mut out, &mut pending_free);
                match e {
                    Ev::Alloc { pages, dir, paddr } => {
                        let vaddr = if paddr == 0 { 0 } else { hal::LEDGER.with(|l| l.borrow().regions.iter().find(|r| r.paddr == paddr).map(|r| r.vaddr as u64).unwrap_or(0)) };
                        out.push(Tev::Alloc { pages: pages as u64, dir, paddr, vaddr });
                    }
                    Ev::Dealloc { paddr, pages, ok } => {
                        // ok = the ledger found a live allocation with this paddr AND the same pointer and page count
                        let vaddr = if ok { hal::LEDGER.with(|l| l.borrow().regions.iter().find(|r| r.paddr == paddr).map(|r| r.vaddr as u64).unwrap_or(0)) } else { 0xBAD };
                        out.push(Tev::Dealloc { paddr, vaddr, pages: pages as u64 });
                    }
                    Ev::QueueSet { q, size, desc, drv, dev, .. } => out.push(Tev::QueueSet { q, size, desc, drv, dev }),
                    Ev::QueueUnset(q) => out.push(Tev::QueueUnset(q)),
                    Ev::SetStatus(v) => out.push(Tev::Status(v)),
                    Ev::TransportDrop => out.push(Tev::Drop),
                    Ev::ReadConfig { off, len } => out.push(Tev::Cfg { off: off as u64, len: len as u64 }),
                    Ev::ReadGen => out.push(Tev::Gen),
                    Ev::Unshare { paddr, .. } => {
                        let hit = POSTED.with(|p| { let mut p = p.borrow_mut();
                            match p.iter_mut().find(|r| r.live && r.shares.iter().any(|s| s.0 == paddr)) { Some(r) => { r.live = false; Some((r.q, r.tok)) } None => None } });
                        if let Some((q, t)) = hit { out.push(Tev::Unpost(q, t)); }
                    }
                    _ => {}
                }
            }
        }
    }
    flush(&mut out, &mut pending_free);
    out
}

// ------------------------------------------------------------------------------------------------
#[derive(Clone)]
pub enum Usage {
    None,
    /// GPU: a list of operations
    Gpu(Vec<GpuOp>),
    /// console: bytes the device delivers, then this many recv(true) calls
    Console(Vec<u8>, usize),
    /// VirtIONet: packets delivered, how many are received, how many of those are given back
    NetBuf(usize, usize, usize),
    /// input: events delivered, events popped
    Input(usize, usize),
    /// one blocking request (blk read, rng, 9p)
    Request,
    /// sound: transfers started, completed by the device, acknowledged by the driver
    Sound(usize, usize, usize),
}
#[derive(Clone, Debug)]
pub enum GpuOp {
    /// setup_framebuffer (true) / change_resolution (false): display or argument size, verdicts, refuse the allocation
    Res { setup: bool, w: u32, h: u32, oks: Vec<bool>, fail_alloc: bool },
    Cursor { len_ok: bool, oks: Vec<bool>, fail_alloc: bool },
}

#[derive(Clone)]
pub struct Plan {
    pub d: Drv,
    pub legacy: bool,
    pub features: u64,
    pub fail_alloc: Option<usize>,
    pub fail_cfg: Option<usize>,
    pub config: Vec<u8>,
    pub cfg_schedule: Vec<(usize, Vec<u8>, bool)>,
    pub net_buf_len: usize,
    pub usage: Usage,
}

fn le_val(b: &[u8]) -> u128 { let mut v = 0u128; for (i, x) in b.iter().enumerate().take(16) { v |= (*x as u128) << (8 * i); } v }

/// the answers the scripted transport gave to the config-space and generation reads of this log
fn replay_config(plan: &Plan, log: &[Ev]) -> (Vec<(u128, u128)>, Vec<u128>) {
    let mut n = 0usize; let mut k = 0usize; let mut generation = 0u32; let mut config = plan.config.clone();
    let mut sched = plan.cfg_schedule.clone();
    let mut cfgs = vec![]; let mut gens = vec![];
    let mut tick = |n: usize, config: &mut Vec<u8>, generation: &mut u32| {
        let mut i = 0; while i < sched.len() { if sched[i].0 == n { let (_, b, bump) = sched.remove(i); *config = b; if bump { *generation = generation.wrapping_add(1); } } else { i += 1; } }
    };
    for e in log {
        match e {
            Ev::ReadGen => { n += 1; tick(n, &mut config, &mut generation); gens.push(generation as u128); }
            Ev::ReadConfig { off, len } => {
                n += 1; tick(n, &mut config, &mut generation);
                let failed = plan.fail_cfg.map_or(false, |f| k >= f) || off + len > config.len();
                k += 1;
                cfgs.push(if failed { (9, 0) } else { (0, le_val(&config[*off..*off + *len])) });
            }
            _ => {}
        }
    }
    (cfgs, gens)
}

fn p9_utf8(config: &[u8]) -> bool {
    if config.len() < 2 { return true; }
    let n = u16::from_le_bytes([config[0], config[1]]) as usize;
    if config.len() < 2 + n { return true; }
    std::str::from_utf8(&config[2..2 + n]).is_ok()
}

fn class_of<T>(r: &std::thread::Result<Result<T, virtio_drivers::Error>>) -> [u128; 2] { enc_result(r, |_| 0) }

/// one whole life cycle: construction, usage, drop; every step compared with the model, the whole
/// observed event sequence handed to the monitors
pub fn life(ctx: &mut Ctx, name: &str, plan: &Plan) {
    ctx.tr.scenario(name);
    hal::reset();
    watch_reset();
    AVSEEN.with(|m| m.borrow_mut().clear());
    SIDE.with(|s| s.borrow_mut().clear());
    POSTED.with(|p| p.borrow_mut().clear());
    DEV.with(|d| { let mut d = d.borrow_mut(); d.kind = Some(plan.d); d.seen.clear(); d.used.clear(); d.verdicts.clear(); d.hold.clear(); d.spins = 0; d.display = (64, 48); });
    hal::fail_alloc_at(plan.fail_alloc);
    virtio_drivers::verif::set_observer(Some(observer));
    let mut st = plan.d.tstate(plan.features, plan.legacy, plan.config.clone());
    st.fail_config_read_at = plan.fail_cfg;
    st.cfg_schedule = plan.cfg_schedule.clone();
    let (t, rc) = ModelTransport::new(st);
    CUR.with(|c| *c.borrow_mut() = Some(rc.clone()));
    let mut all: Vec<Tev> = vec![];

    // ---- construction
    WATCH_ON.store(true, Relaxed);
    let d = plan.d; let nbl = plan.net_buf_len;
    let r = catch_unwind(AssertUnwindSafe(move || drivers9::construct::<WatchHal>(d, t, nbl)));
    let evs = collect(0);
    let raw = hal::log_since(0);
    let (cfgs, gens) = replay_config(plan, &raw);
    let allocs: Vec<(u64, u64)> = evs.iter().filter_map(|e| if let Tev::Alloc { paddr, vaddr, .. } = e { Some((*paddr, *vaddr)) } else { None }).collect();
    let refused = allocs.iter().any(|a| a.0 == 0);
    let mut ins: Vec<u128> = vec![0, plan.d.code(), plan.legacy as u128, drivers9::NETQ as u128, p9_utf8(&plan.config) as u128,
        (plan.net_buf_len >= 1526) as u128, allocs.len() as u128];
    for (a, v) in &allocs { ins.extend([*a as u128, *v as u128]); }
    ins.push(cfgs.len() as u128);
    for (c, v) in &cfgs { ins.extend([*c, *v]); }
    ins.extend(gens.iter().copied());
    let cls = class_of(&r);
    let mut outs = cls.to_vec(); outs.extend(enc_tevs(&evs));
    ctx.tr.line(901, &ins, &outs);
    ctx.tr.line(952, &[refused as u128, cls[0], cls[1]], &[1]);
    all.extend(evs);
    ctx.tr.note(&format!("ctor_{}_{}", plan.d.name(), match &r { Ok(Ok(_)) => "ok", Ok(Err(_)) => "err", Err(_) => "panic" }));
    if refused { ctx.tr.note("ctor_dma_refused"); }
    if plan.fail_cfg.is_some() { ctx.tr.note("ctor_cfg_fault_planned"); }
    if gens.windows(2).any(|w| w[0] != w[1]) { ctx.tr.note("ctor_generation_changed"); }

    // ---- usage and drop
    if let Ok(Ok(mut drv)) = r {
        hal::fail_alloc_at(None);
        let mut held: Vec<Box<dyn std::any::Any>> = vec![];
        usage(ctx, plan, &mut drv, &mut all, &mut held);
        let mark = hal::log_len();
        let _ = catch_unwind(AssertUnwindSafe(move || drop(drv)));
        let evs = collect(mark);
        ctx.tr.line(909, &[], &enc_tevs(&evs));
        if evs.iter().any(|e| matches!(e, Tev::Free(..))) { ctx.tr.note("drop_frees_outstanding_buffers"); }
        all.extend(evs);
        WATCH_ON.store(false, Relaxed);
        drop(held);
    }
    WATCH_ON.store(false, Relaxed);
    virtio_drivers::verif::set_observer(None);
    CUR.with(|c| *c.borrow_mut() = None);

    // ---- the property on what was observed
    let flat = enc_tevs(&all);
    ctx.tr.line(950, &flat, &[1]);
    let mut i1 = vec![1u128]; i1.extend(flat.iter().copied());
    ctx.tr.line(951, &i1, &[1]);
    if !matches!(plan.d, Drv::Sound | Drv::P9) {
        // these drivers unset their queues themselves: also without relying on the reset at transport drop
        let mut i0 = vec![0u128]; i0.extend(flat.iter().copied());
        ctx.tr.line(951, &i0, &[1]);
    }
    // the PCI reading (mode 2): PciTransport::queue_unset is a no-op, so no queue_unset call counts as
    // quiescing; only a reset (status 0 / the transport drop) does. Safe only because `transport` is the
    // first field of every driver struct and is therefore dropped before the queues and the buffers.
    let mut i2 = vec![2u128]; i2.extend(flat.iter().copied());
    ctx.tr.line(951, &i2, &[1]);
    if all.iter().any(|e| matches!(e, Tev::Drop)) && all.iter().any(|e| matches!(e, Tev::Status(v) if v & 4 != 0)) {
        // does the device still own chains when the driver value goes away?
        let mut out: Vec<(u16, u16)> = vec![];
        for e in &all { match e { Tev::Post(q, t) => out.push((*q, *t)), Tev::Unpost(q, t) => out.retain(|x| x != &(*q, *t)), _ => {} } }
        ctx.tr.note(if out.is_empty() { "pci_reading_drop_live_nothing_posted" } else { "pci_reading_drop_live_with_chains_outstanding" });
    }
    ctx.tr.line(2,&[], &[hal::live_regions() as u128]);
    ledger_line(ctx);
    drop(rc);
}

fn usage_line(ctx: &mut Ctx, evs: &[Tev], all: &mut Vec<Tev>) {
    let mut ins = vec![];
    for e in evs { match e { Tev::Post(q, t) => ins.extend([1, *q as u128, *t as u128]), Tev::Unpost(q, t) => ins.extend([0, *q as u128, *t as u128]), _ => {} } }
    if !ins.is_empty() { ctx.tr.line(905, &ins, &[]); }
    all.extend(evs.iter().cloned());
}

fn usage(ctx: &mut Ctx, plan: &Plan, drv: &mut Built<WatchHal>, all: &mut Vec<Tev>, held: &mut Vec<Box<dyn std::any::Any>>) {
    match (&plan.usage, drv) {
        (Usage::Gpu(ops), Built::Gpu(g)) => {
            for op in ops {
                let mark = hal::log_len();
                match op {
                    GpuOp::Res { setup, w, h, oks, fail_alloc } => {
                        DEV.with(|d| { let mut d = d.borrow_mut(); d.verdicts = oks.iter().copied().collect(); d.display = (*w, *h); d.spins = 0; });
                        hal::fail_alloc_at(if *fail_alloc { Some(0) } else { None });
                        let (setup, w, h) = (*setup, *w, *h);
                        let r = catch_unwind(AssertUnwindSafe(|| if setup { g.setup_framebuffer().map(|_| ()) } else { g.change_resolution(w, h).map(|_| ()) }));
                        hal::fail_alloc_at(None);
                        let evs = collect(mark);
                        let (pa, va) = evs.iter().find_map(|e| if let Tev::Alloc { paddr, vaddr, .. } = e { Some((*paddr, *vaddr)) } else { None }).unwrap_or((0x1000, 0x1000));
                        let mut ins = vec![ctx.release as u128, setup as u128, w as u128, h as u128, pa as u128, va as u128];
                        ins.extend(oks.iter().map(|b| *b as u128));
                        let mut outs = class_of(&r).to_vec();
                        let dma: Vec<Tev> = evs.iter().filter(|e| matches!(e, Tev::Alloc { .. } | Tev::Dealloc { .. })).cloned().collect();
                        outs.extend(enc_tevs(&dma));
                        ctx.tr.line(902, &ins, &outs);
                        ctx.tr.note(&format!("gpu_res_{}", match &r { Ok(Ok(_)) => "ok", Ok(Err(_)) => "err", Err(_) => "panic" }));
                        usage_line(ctx, &evs, all);
                    }
                    GpuOp::Cursor { len_ok, oks, fail_alloc } => {
                        DEV.with(|d| { let mut d = d.borrow_mut(); d.verdicts = oks.iter().copied().collect(); d.spins = 0; });
                        hal::fail_alloc_at(if *fail_alloc { Some(0) } else { None });
                        let img = vec![0x5Au8; if *len_ok { 64 * 64 * 4 } else { 64 * 64 * 4 - 1 }];
                        let r = catch_unwind(AssertUnwindSafe(|| g.setup_cursor(&img, 1, 2, 3, 4)));
                        hal::fail_alloc_at(None);
                        let evs = collect(mark);
                        let (pa, va) = evs.iter().find_map(|e| if let Tev::Alloc { paddr, vaddr, .. } = e { Some((*paddr, *vaddr)) } else { None }).unwrap_or((0x1000, 0x1000));
                        let mut ins = vec![*len_ok as u128, pa as u128, va as u128];
                        ins.extend(oks.iter().map(|b| *b as u128));
                        let mut outs = class_of(&r).to_vec();
                        let dma: Vec<Tev> = evs.iter().filter(|e| matches!(e, Tev::Alloc { .. } | Tev::Dealloc { .. })).cloned().collect();
                        outs.extend(enc_tevs(&dma));
                        ctx.tr.line(903, &ins, &outs);
                        ctx.tr.note(&format!("gpu_cursor_{}", match &r { Ok(Ok(_)) => "ok", Ok(Err(_)) => "err", Err(_) => "panic" }));
                        usage_line(ctx, &evs, all);
                    }
                }
            }
        }
        (Usage::Console(bytes, nrecv), Built::Console(c)) => {
            let mark = hal::log_len();
            if !bytes.is_empty() { dev_deliver(0, bytes); }
            for _ in 0..*nrecv { let _ = catch_unwind(AssertUnwindSafe(|| c.recv(true))); }
            let evs = collect(mark); usage_line(ctx, &evs, all);
            ctx.tr.note("usage_console");
        }
        (Usage::NetBuf(npk, nrecv, ngive), Built::NetBuf(n)) => {
            let mark = hal::log_len();
            for i in 0..*npk { let mut pkt = vec![0u8; 12]; pkt.extend(vec![i as u8; 60]); dev_deliver(0, &pkt); }
            let mut got = vec![];
            for _ in 0..*nrecv { if let Ok(Ok(b)) = catch_unwind(AssertUnwindSafe(|| n.receive())) { got.push(b); } }
            // hand buffers back newest-first or in arrival order (then each is re-posted under the other's descriptor)
            let fifo = ctx.rng.chance(1, 2);
            for _ in 0..*ngive { if !got.is_empty() { let b = if fifo { got.remove(0) } else { got.pop().unwrap() }; let _ = catch_unwind(AssertUnwindSafe(|| n.recycle_rx_buffer(b))); } }
            if fifo && *ngive >= 2 { ctx.tr.note("usage_netbuf_recycled_in_arrival_order"); }
            // second round: the device works through the whole available ring, so the re-posted buffers complete too;
            // every frame is received and its buffer handed back at once
            for i in 0..(2 * drivers9::NETQ) { let mut pkt = vec![0u8; 12]; pkt.extend(vec![0x80 | i as u8; 40]); if !dev_deliver(0, &pkt) { break; }
                if let Ok(Ok(b)) = catch_unwind(AssertUnwindSafe(|| n.receive())) { let _ = catch_unwind(AssertUnwindSafe(|| n.recycle_rx_buffer(b))); } }
            // buffers still in the caller's hands outlive the driver
            for b in got { held.push(Box::new(b)); }
            let evs = collect(mark); usage_line(ctx, &evs, all);
            ctx.tr.note("usage_netbuf");
        }
        (Usage::Input(ndel, npop), Built::Input(i)) => {
            let mark = hal::log_len();
            for k in 0..*ndel { dev_deliver(0, &[k as u8, 0, 1, 0, 2, 0, 0, 0]); }
            for _ in 0..*npop { let _ = catch_unwind(AssertUnwindSafe(|| i.pop_pending_event())); }
            let evs = collect(mark); usage_line(ctx, &evs, all);
            ctx.tr.note("usage_input");
        }
        (Usage::Request, d) => {
            let mark = hal::log_len();
            DEV.with(|d| d.borrow_mut().spins = 0);
            let _ = catch_unwind(AssertUnwindSafe(|| match d {
                Built::Blk(b) => { let mut buf = vec![0u8; 512]; let _ = b.read_blocks(0, &mut buf); }
                Built::Rng(r) => { let mut buf = [0u8; 16]; let _ = r.request_entropy(&mut buf); }
                Built::P9(p) => { let mut resp = [0u8; 32]; let _ = p.request(&[1, 2, 3, 4, 5, 6, 7], &mut resp); }
                Built::Console(c) => { let _ = c.send(b'x'); }
                _ => {}
            }));
            let evs = collect(mark); usage_line(ctx, &evs, all);
            ctx.tr.note("usage_request");
        }
        (Usage::Sound(nx, ndone, nack), Built::Sound(s)) => {
            let mark = hal::log_len();
            DEV.with(|d| { let mut d = d.borrow_mut(); d.spins = 0; d.hold.insert(2); });
            let r = catch_unwind(AssertUnwindSafe(|| s.pcm_set_params(0, 64, 32, PcmFeatures::empty(), 2, PcmFormat::U8, PcmRate::Rate8000)));
            let mut toks = vec![];
            if let Ok(Ok(())) = r {
                for k in 0..*nx { if let Ok(Ok(t)) = catch_unwind(AssertUnwindSafe(|| s.pcm_xfer_nb(0, &[k as u8; 32]))) { toks.push(t); } }
                // poll before the device has completed anything (NotReady), and after the first completions for the
                // transfer submitted last (not the next one in the used ring): a refused poll releases nothing
                if let Some(t) = toks.last() { let _ = catch_unwind(AssertUnwindSafe(|| s.pcm_xfer_ok(*t))); ctx.tr.note("usage_sound_early_poll"); }
                if let Some((_, qi)) = set_queues().into_iter().find(|(i, _)| *i == 2) { for _ in 0..*ndone { serve_one(2, &qi, None); } }
                if toks.len() > *ndone && *ndone > 0 { if let Some(t) = toks.last() { let _ = catch_unwind(AssertUnwindSafe(|| s.pcm_xfer_ok(*t))); ctx.tr.note("usage_sound_out_of_order_poll"); } }
                for t in toks.iter().take((*nack).min(*ndone)) { let _ = catch_unwind(AssertUnwindSafe(|| s.pcm_xfer_ok(*t))); }
                ctx.tr.note("usage_sound_transfers");
            } else { ctx.tr.note("usage_sound_setup_failed"); }
            let evs = collect(mark); usage_line(ctx, &evs, all);
        }
        _ => {}
    }
}

// ------------------------------------------------------------------------------------------------
fn nreads(d: Drv, config: &[u8]) -> usize {
    match d { Drv::Blk | Drv::Gpu | Drv::NetRaw | Drv::NetBuf | Drv::Socket => 2, Drv::Sound => 3,
        Drv::P9 => 1 + u16::from_le_bytes([config[0], config[1]]) as usize, _ => 0 }
}
const FEATS: [u64; 6] = [0, drivers9::F_INDIRECT, drivers9::F_EVENT_IDX, drivers9::F_INDIRECT | drivers9::F_EVENT_IDX | drivers9::F_ACCESS_PLATFORM,
    drivers9::F_ACCESS_PLATFORM, drivers9::F_VERSION_1 | drivers9::F_INDIRECT];

fn base(ctx: &mut Ctx, d: Drv, legacy: bool) -> Plan {
    let config = d.config(&mut ctx.rng);
    Plan { d, legacy, features: *ctx.rng.pick(&FEATS), fail_alloc: None, fail_cfg: None, config, cfg_schedule: vec![],
        net_buf_len: drivers9::NET_BUF_OK, usage: Usage::None }
}

fn gpu_ops(ctx: &mut Ctx, n: usize) -> Vec<GpuOp> {
    let dims: [(u32, u32); 14] = [(64, 48), (1, 1), (32, 32), (33, 31), (1024, 768), (640, 480), (0, 10), (7, 0), (1, 1024), (1024, 1),
        (65536, 16384), (65536, 65536), (65536, 65537), (32768, 32768)];
    let mut ops = vec![];
    for _ in 0..n {
        let r = ctx.rng.below(10);
        let mut oks: Vec<bool> = (0..8).map(|_| true).collect();
        if ctx.rng.chance(1, 3) { let k = ctx.rng.below(7) as usize; oks[k] = false; }
        let fail_alloc = ctx.rng.chance(1, 6);
        if r < 6 {
            let (w, h) = if ctx.rng.chance(3, 4) { dims[ctx.rng.below(6) as usize] } else { *ctx.rng.pick(&dims) };
            ops.push(GpuOp::Res { setup: ctx.rng.chance(1, 3), w, h, oks, fail_alloc });
        } else {
            ops.push(GpuOp::Cursor { len_ok: !ctx.rng.chance(1, 8), oks, fail_alloc });
        }
    }
    ops
}

fn random_usage(ctx: &mut Ctx, d: Drv) -> Usage {
    match d {
        Drv::Gpu => { let n = 1 + ctx.rng.below(6) as usize; Usage::Gpu(gpu_ops(ctx, n)) }
        Drv::Console => { if ctx.rng.chance(1, 4) { Usage::Request } else { let n = ctx.rng.below(4) as usize; Usage::Console(ctx.rng.bytes(n), ctx.rng.below(5) as usize) } }
        Drv::NetBuf => { let p = ctx.rng.below(drivers9::NETQ as u64 + 1) as usize; let r = ctx.rng.below(p as u64 + 1) as usize; Usage::NetBuf(p, r, ctx.rng.below(r as u64 + 1) as usize) }
        Drv::Input => { let n = ctx.rng.below(5) as usize; Usage::Input(n, ctx.rng.below(n as u64 + 2) as usize) }
        Drv::Blk | Drv::Rng | Drv::P9 => if ctx.rng.chance(2, 3) { Usage::Request } else { Usage::None },
        Drv::Sound => { let n = ctx.rng.below(4) as usize; let dn = ctx.rng.below(n as u64 + 1) as usize; Usage::Sound(n, dn, ctx.rng.below(dn as u64 + 1) as usize) }
        _ => Usage::None,
    }
}

pub fn run(ctx: &mut Ctx) {
    // the witness of finding F3 first: 9p, empty mount tag -> the tag read fails
    {
        let mut p = base(ctx, Drv::P9, false); p.features = 0; p.config = vec![0, 0, b'x'];
        life(ctx, "c09-finding-9p-tag-read-fails", &p);
    }
    for d in drivers9::ALL {
        for legacy in [false, true] {
            let lay = if legacy { "legacy" } else { "modern" };
            // every failing allocation index, and one beyond the last allocation (= complete construction, immediate drop)
            for k in 0..=d.nallocs(legacy) {
                let mut p = base(ctx, d, legacy); p.fail_alloc = Some(k);
                life(ctx, &format!("c09-{}-{}-dma{}", d.name(), lay, k), &p);
            }
            // config reads fail from the j-th on
            let cfg0 = d.config(&mut ctx.rng);
            let nr = nreads(d, &cfg0);
            if nr > 0 { for j in 0..nr {
                let mut p = base(ctx, d, legacy); p.config = cfg0.clone(); p.fail_cfg = Some(j);
                life(ctx, &format!("c09-{}-{}-cfg{}", d.name(), lay, j), &p);
            } }
            // the generation changes while the constructor reads: read_consistent retries (also together with a failing read)
            if matches!(d, Drv::Blk | Drv::NetRaw | Drv::NetBuf | Drv::Socket | Drv::P9) {
                for v in 0..3u64 {
                    let mut p = base(ctx, d, legacy);
                    let when = 1 + ctx.rng.below(4) as usize;
                    p.cfg_schedule = vec![(when, p.config.clone(), true)];
                    if v >= 1 { p.cfg_schedule.push((when + 2 + ctx.rng.below(3) as usize, p.config.clone(), true)); }
                    if v == 2 { p.fail_cfg = Some(1 + ctx.rng.below(3) as usize); }
                    life(ctx, &format!("c09-{}-{}-gen{}", d.name(), lay, v), &p);
                }
            }
        }
    }
    // directed config contents
    for legacy in [false, true] {
        let lay = if legacy { "legacy" } else { "modern" };
        let tags: Vec<(&str, Vec<u8>)> = vec![
            ("tag-empty", vec![0, 0]),
            ("tag-not-utf8", vec![3, 0, b'a', 0xff, b'b']),
            ("tag-truncated", vec![9, 0, b'a', b'b', b'c']),
            ("tag-missing", vec![]),
            ("tag-one", vec![1, 0, b'z']),
            ("tag-long", { let mut c = vec![44, 1]; c.extend(vec![b'q'; 300]); c }),
            ("tag-utf8-multibyte", vec![4, 0, 0xf0, 0x9f, 0x98, 0x80]),
        ];
        for (nm, cfg) in tags { let mut p = base(ctx, Drv::P9, legacy); p.config = cfg; life(ctx, &format!("c09-9p-{}-{}", lay, nm), &p); }
        let mut p = base(ctx, Drv::NetBuf, legacy); p.net_buf_len = drivers9::NET_BUF_SHORT;
        life(ctx, &format!("c09-netbuf-{}-short-buffer", lay), &p);
        // a config space that is too small for the fields read
        for d in [Drv::Blk, Drv::Gpu, Drv::NetRaw, Drv::Socket, Drv::Sound] {
            let mut p = base(ctx, d, legacy); let n = p.config.len().min(5); p.config.truncate(n);
            life(ctx, &format!("c09-{}-{}-config-too-small", d.name(), lay), &p);
        }
    }
    // usage histories followed by drop
    let rounds = ctx.budget(60, 10);
    for r in 0..rounds {
        for d in drivers9::ALL {
            let legacy = ctx.rng.chance(1, 2);
            let mut p = base(ctx, d, legacy);
            p.usage = random_usage(ctx, d);
            life(ctx, &format!("c09-{}-{}-use{}", d.name(), if legacy { "legacy" } else { "modern" }, r), &p);
        }
    }
    // GPU: directed histories (replace an existing frame buffer / cursor, failures at each request, refused allocations)
    let t = vec![true; 8];
    let directed: Vec<Vec<GpuOp>> = vec![
        vec![GpuOp::Res { setup: true, w: 64, h: 48, oks: t.clone(), fail_alloc: false }, GpuOp::Res { setup: false, w: 32, h: 32, oks: t.clone(), fail_alloc: false }],
        vec![GpuOp::Cursor { len_ok: true, oks: t.clone(), fail_alloc: false }, GpuOp::Cursor { len_ok: true, oks: t.clone(), fail_alloc: false }],
        vec![GpuOp::Res { setup: false, w: 16, h: 16, oks: t.clone(), fail_alloc: false }, GpuOp::Res { setup: false, w: 8, h: 8, oks: t.clone(), fail_alloc: true },
             GpuOp::Cursor { len_ok: true, oks: t.clone(), fail_alloc: true }],
        vec![GpuOp::Res { setup: false, w: 65536, h: 16384, oks: t.clone(), fail_alloc: false }, GpuOp::Res { setup: false, w: 0, h: 0, oks: t.clone(), fail_alloc: false }],
    ];
    for (i, ops) in directed.into_iter().enumerate() {
        let mut p = base(ctx, Drv::Gpu, i % 2 == 1); p.usage = Usage::Gpu(ops);
        life(ctx, &format!("c09-gpu-directed{}", i), &p);
    }
    for k in 0..7usize {
        for first in [false, true] {
            let mut oks = vec![true; 8]; oks[k] = false;
            let mut ops = vec![];
            if !first { ops.push(GpuOp::Res { setup: false, w: 20, h: 10, oks: t.clone(), fail_alloc: false }); ops.push(GpuOp::Cursor { len_ok: true, oks: t.clone(), fail_alloc: false }); }
            ops.push(GpuOp::Res { setup: k % 2 == 0, w: 24, h: 12, oks: oks.clone(), fail_alloc: false });
            ops.push(GpuOp::Cursor { len_ok: true, oks, fail_alloc: false });
            let mut p = base(ctx, Drv::Gpu, false); p.usage = Usage::Gpu(ops);
            life(ctx, &format!("c09-gpu-verdict{}-{}", k, first as u8), &p);
        }
    }
}
