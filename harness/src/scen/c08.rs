//! C08: every driver constructor against the logging ModelTransport and against the real MmioTransport
//! (legacy + modern) over a functional emulated register file, for offered feature words = every single
//! bit, every subset of the bits the driver understands, boundary and random 64-bit words, and varied
//! environments (per-queue answers, device-written suppression words, config-generation answers,
//! truncated / malformed config spaces, failing allocations, legacy layout, generic parameters).
//! Trace lines (coq/theories/Extract/InitIO.v):
//!   810 constructor on the model transport: inputs + environment answers | result + ordered event log
//!   811 constructor on MmioTransport: ... | result + ordered register accesses / hook / platform events
//!   820 feature-gated operation on a constructed driver | result, used_event, events
//!   812 constructor on PciTransport over the emulated PCI function (scen/c11.rs building blocks, functional BAR):
//!       ... | result + ordered accesses to the four windows (21 win w off width val) / hook / platform events
//!   854 MONITOR: the initialisation automaton on the handshake events DECODED from the observed accesses to the
//!       common configuration structure and the notification window (VirtIO 1.2 4.1.4.3 layout), plus the PCI access
//!       rules: queue_enable := 1 only after the queue's three addresses, natural widths, notification = 16-bit write
//!       of q at queue_notify_off(q) * multiplier. One line for the construction, one for the whole life of the
//!       transport (drop included; a poll of device_status that never ends is reported there)
//!   850/851 MONITOR: the initialisation automaton of the specification on the OBSERVED log (calls / registers)
//!   852 MONITOR: the flags of every VirtQueue::new and of every platform call = bits 28/29/33 of the
//!       negotiated word; the queues registered by a successful constructor
//!   853 MONITOR: an optional mechanism was used only if its feature was negotiated
use crate::hal;
use crate::scen::drivers::{self, Built, Drv, HookT, Params, QScript, Records};
use crate::tport::{ModelTransport, TState};
use crate::Ctx;
use std::collections::HashMap;
use std::panic::{catch_unwind, AssertUnwindSafe};
use virtio_drivers::device::net::TxBuffer;
use virtio_drivers::transport::Transport;
use virtio_drivers::Error;

#[derive(Clone, Debug)]
pub struct Case {
    pub d: Drv, pub offered: u64, pub p: Params, pub cfg: Vec<u8>, pub gens: Vec<u32>, pub qs: HashMap<u16, QScript>,
    pub legacy: bool, pub default_max: u32, pub fail_alloc: Option<usize>,
    /// the device was left live by a previous owner with this status and resets late (one stale status read)
    pub stale: Option<u32>,
}
impl Case {
    pub fn plain(ctx: &mut Ctx, d: Drv, offered: u64) -> Case {
        Case { d, offered, p: Params::default(), cfg: d.config(&mut ctx.rng), gens: vec![], qs: HashMap::new(), legacy: false, default_max: 256, fail_alloc: None, stale: None }
    }
}

fn err_code(e: &Error) -> u128 { crate::scen::common::err_code(e) }
fn enc_res<T>(r: &std::thread::Result<Result<T, Error>>) -> [u128; 2] {
    match r { Ok(Ok(_)) => [0, 0], Ok(Err(e)) => [1, err_code(e)], Err(_) => [2, 0] }
}

/// String::from_utf8 on the mount tag the 9p constructor reads (an input of the model)
fn utf8_flag(d: Drv, cfg: &[u8]) -> bool {
    if d != Drv::P9 || cfg.len() < 2 { return true; }
    let n = u16::from_le_bytes([cfg[0], cfg[1]]) as usize;
    match cfg.get(2..2 + n) { Some(t) => std::str::from_utf8(t).is_ok(), None => true }
}

/// the per-queue answers in the order the queues were created, with the allocation answers observed
fn qans(c: &Case, rec: &Records) -> Vec<u128> {
    let mut out: Vec<([u128; 6], usize)> = vec![];
    let mut iq = 0usize;
    let entry = |idx: u16| -> ([u128; 6], usize) {
        let s = c.qs.get(&idx).copied().unwrap_or_default();
        ([s.used.unwrap_or(false) as u128, s.max.unwrap_or(c.default_max) as u128, 0, 0, s.uflags as u128, s.aevent as u128], 0)
    };
    for (pos, e) in rec.log.iter().enumerate() {
        while iq < rec.qnew.len() && rec.qnew[iq].0 <= pos { out.push(entry(rec.qnew[iq].1)); iq += 1; }
        if let hal::Ev::Alloc { paddr, .. } = e {
            if let Some(last) = out.last_mut() { if last.1 < 2 { last.0[2 + last.1] = *paddr as u128; } last.1 += 1; }
        }
    }
    while iq < rec.qnew.len() { out.push(entry(rec.qnew[iq].1)); iq += 1; }
    let mut v = vec![out.len() as u128];
    for q in out { v.extend(q.0); }
    v
}

fn env_tail(c: &Case, rec: &Records) -> Vec<u128> {
    let mut v = vec![c.gens.len() as u128];
    v.extend(c.gens.iter().map(|g| *g as u128));
    v.push(c.cfg.len() as u128);
    v.extend(c.cfg.iter().map(|b| *b as u128));
    v.extend(qans(c, rec));
    v
}

fn notes(ctx: &mut Ctx, c: &Case, tp: &str, res: &[u128; 2]) {
    ctx.tr.note(&format!("{}_{}", tp, c.d.name()));
    ctx.tr.note(match res[0] { 0 => "new_ok", 1 => "new_err", _ => "new_panic" });
    if res[0] == 1 { ctx.tr.note(&format!("new_err_{}", res[1])); }
}

/// one constructor run on the logging model transport
pub fn model_case(ctx: &mut Ctx, c: &Case) -> Option<(Box<Built<HookT<ModelTransport>>>, std::rc::Rc<std::cell::RefCell<drivers::DevScript>>)> {
    let p = drivers::norm_params(c.p);
    drivers::reset_platform(0x4000_0000_0000);
    hal::fail_alloc_at(c.fail_alloc);
    let mut st = TState::new(c.d.device_type(), c.offered, c.d.nqueues(), c.default_max);
    st.legacy = c.legacy; st.config = c.cfg.clone();
    if let Some(v) = c.stale { st.status = v; st.slow_reset = 1; ctx.tr.note("model_slow_reset"); }
    let (mt, _tst) = ModelTransport::new(st);
    let (ht, dev) = HookT::new(mt);
    { let mut d = dev.borrow_mut(); d.q = c.qs.clone(); d.gens = c.gens.iter().copied().collect(); }
    let d = c.d;
    let r = catch_unwind(AssertUnwindSafe(move || drivers::build(d, ht, p)));
    hal::fail_alloc_at(None);
    let rec = drivers::take_records();
    let res = enc_res(&r);
    let ev = drivers::enc_events(&rec);
    let mut ins = vec![d.code(), ctx.release as u128, c.legacy as u128, c.offered as u128, p.p1(d), p.p2(d), utf8_flag(d, &c.cfg) as u128];
    ins.extend(env_tail(c, &rec));
    let mut outs = res.to_vec(); outs.extend(&ev);
    ctx.tr.line(810, &ins, &outs);
    let ok = (res[0] == 0) as u128;
    let mut m = vec![d.code(), c.offered as u128, ok]; m.extend(&ev);
    ctx.tr.line(850, &m, &[1]);
    let mut m = vec![d.code(), c.offered as u128, p.p1(d), ok]; m.extend(&ev);
    ctx.tr.line(852, &m, &[1]);
    notes(ctx, c, "model", &res);
    dev.borrow_mut().q.clear();
    match r { Ok(Ok(b)) => Some((b, dev)), _ => None }
}

fn drop_built<T: Transport>(b: Box<Built<T>>) {
    let _ = catch_unwind(AssertUnwindSafe(move || drop(b)));
    let _ = drivers::take_records();
}

/// the records without the register accesses (VirtQueue::new reports re-positioned)
fn without_mmio(rec: &Records) -> Records {
    Records { log: rec.log.iter().filter(|e| !matches!(e, hal::Ev::Mmio { .. })).cloned().collect(),
        qnew: { let mut k = 0usize; let mut v = vec![]; let mut iq = 0usize;
            for (pos, e) in rec.log.iter().enumerate() { while iq < rec.qnew.len() && rec.qnew[iq].0 <= pos { let mut q = rec.qnew[iq]; q.0 = k; v.push(q); iq += 1; }
                if !matches!(e, hal::Ev::Mmio { .. }) { k += 1; } }
            while iq < rec.qnew.len() { let mut q = rec.qnew[iq]; q.0 = k; v.push(q); iq += 1; } v },
        ap_alloc: rec.ap_alloc.clone(), ap_share: rec.ap_share.clone() }
}

/// one constructor run on the real MmioTransport over the emulated register file
pub fn mmio_case(ctx: &mut Ctx, version: u32, c: &Case) {
    let p = drivers::norm_params(c.p);
    // legacy registers carry a 32-bit page frame number: keep DMA addresses below 2^44
    drivers::reset_platform(0x8000_0000);
    let Some((t, fst)) = drivers::mmio_transport(version, c.d, c.offered, c.default_max, c.cfg.clone()) else { ctx.tr.comment("mmio probe failed"); return };
    let _ = drivers::take_records();
    { let mut s = fst.borrow_mut(); s.script.q = c.qs.clone(); s.script.gens = c.gens.iter().copied().collect(); }
    hal::fail_alloc_at(c.fail_alloc);
    let d = c.d;
    let r = catch_unwind(AssertUnwindSafe(move || drivers::build(d, t, p)));
    hal::fail_alloc_at(None);
    let rec = drivers::take_records();
    let res = enc_res(&r);
    let mut ev = drivers::enc_events(&rec);
    // a constructor that fails drops the transport, which resets the device: that release belongs to C09
    if res[0] != 0 { drivers::strip_release_tail(&mut ev); }
    let mut ins = vec![version as u128, d.code(), ctx.release as u128, c.offered as u128, p.p1(d), p.p2(d), utf8_flag(d, &c.cfg) as u128];
    ins.extend(env_tail(c, &rec));
    let mut outs = res.to_vec(); outs.extend(&ev);
    ctx.tr.line(811, &ins, &outs);
    let ok = (res[0] == 0) as u128;
    let mut m = vec![d.code(), c.offered as u128, ok]; m.extend(drivers::enc_accesses(&rec));
    ctx.tr.line(851, &m, &[1]);
    // hook reports and platform calls (no transport-call events at this level: the queue list is not checked here)
    let kept = without_mmio(&rec);
    let mut m = vec![d.code(), c.offered as u128, p.p1(d), 0]; m.extend(drivers::enc_events(&kept));
    ctx.tr.line(852, &m, &[1]);
    notes(ctx, c, if version == 1 { "mmio_legacy" } else { "mmio_modern" }, &res);
    fst.borrow_mut().script.q.clear();
    if let Ok(Ok(b)) = r { drop_built(b); }
    crate::mmio::clear();
}

/// the environment of one run on the real PciTransport
#[derive(Clone, Debug)]
pub struct PciCase { pub c: Case, pub geo: drivers::PciGeo, pub cfg_present: bool }
impl PciCase {
    /// the plain function: structures at 0 / 0x1000 / 0x2000 / 0x3000 of the BAR, multiplier 4, queue_notify_off(q) = q, the
    /// device configuration padded to whole 32-bit words (PciTransport sees the window as a [u32] slice)
    pub fn plain(c: Case) -> PciCase {
        let mut c = c;
        while c.cfg.len() % 4 != 0 { c.cfg.push(0); }
        let present = c.cfg.len() >= 4;
        PciCase { geo: drivers::PciGeo::plain(c.d.nqueues()), cfg_present: present, c }
    }
}

/// drop of a PciTransport: device_status := 0, then reads of device_status until 0 (a release: property C09)
fn strip_pci_release_tail(ev: &mut Vec<u128>) {
    let mut it = drivers::items21(ev);
    let st = |x: &Vec<u128>, w: u128| x.len() == 6 && x[0] == 21 && x[1] == 0 && x[2] == w && x[3] == 20;
    let mut k = it.len();
    while k > 0 && st(&it[k - 1], 0) { k -= 1; }
    if k > 0 && st(&it[k - 1], 1) && it[k - 1][5] == 0 { it.truncate(k - 1); *ev = it.concat(); }
}

/// one constructor run on the real PciTransport over the emulated PCI function
pub fn pci_case(ctx: &mut Ctx, pc: &PciCase) {
    let c = &pc.c;
    let p = drivers::norm_params(c.p);
    drivers::reset_platform(0x4000_0000_0000);
    let Some((t, fst)) = drivers::pci_transport(c.d, c.offered, c.default_max, c.cfg.clone(), pc.cfg_present, pc.geo.clone()) else { ctx.tr.comment("pci probe failed"); ctx.tr.note("pci_probe_failed"); return };
    let _ = drivers::take_records();
    { let mut s = fst.borrow_mut(); s.script.q = c.qs.clone(); s.script.gens = c.gens.iter().copied().collect(); }
    hal::fail_alloc_at(c.fail_alloc);
    let d = c.d;
    let r = catch_unwind(AssertUnwindSafe(move || drivers::build(d, t, p)));
    hal::fail_alloc_at(None);
    let rec = drivers::take_records();
    let res = enc_res(&r);
    let cfg_len = if pc.cfg_present { c.cfg.len() } else { 0 };
    let geo = pc.geo.clone();
    let render = move |region: u32, write: bool, off: u64, width: u8, val: u64| -> Vec<u128> {
        let (win, o) = if region == drivers::PCI_REGION { geo.classify(cfg_len, off, width) } else { (9, off as u128) };
        vec![21, win, write as u128, o, width as u128, val as u128]
    };
    let mut ev = drivers::enc_events_with(&rec, &render);
    if fst.borrow().runaway { ev.truncate(6 * 4096); }
    // a constructor that fails drops the transport, which resets the device: that release belongs to C09
    if res[0] != 0 { strip_pci_release_tail(&mut ev); }
    let cfg_va = drivers::PCI_BAR_VBASE as u128 + pc.geo.cfg_off as u128;
    let mut ins = vec![d.code(), ctx.release as u128, c.offered as u128, p.p1(d), p.p2(d), utf8_flag(d, &c.cfg) as u128,
        (pc.geo.notify_len / 2) as u128, pc.geo.mult as u128, pc.cfg_present as u128, cfg_va, pc.geo.noffs.len() as u128];
    ins.extend(pc.geo.noffs.iter().map(|x| *x as u128));
    ins.extend(env_tail(c, &rec));
    let mut outs = res.to_vec(); outs.extend(&ev);
    ctx.tr.line(812, &ins, &outs);
    // drop the driver (and with it the transport: device_status := 0, polled until it reads 0)
    fst.borrow_mut().script.q.clear();
    if let Ok(Ok(b)) = r { let _ = catch_unwind(AssertUnwindSafe(move || drop(b))); }
    let rec_drop = drivers::take_records();
    // the property on the window accesses observed during construction ...
    let ok = (res[0] == 0) as u128;
    let accs = |log: &[hal::Ev], m: &mut Vec<u128>| {
        let mut polls = 0usize;
        for e in log { if let hal::Ev::Mmio { region, write, off, width, val } = e {
            let a = render(*region, *write, *off, *width, *val);
            // a long run of status polls is passed on in its first 64 reads
            if a[1] == 0 && a[2] == 0 && a[3] == 20 { polls += 1; if polls > 64 { continue; } } else { polls = 0; }
            m.extend(a[1..].iter());
        } }
    };
    let mut m = vec![d.code(), c.offered as u128, ok, pc.geo.mult as u128];
    accs(&rec.log, &mut m);
    ctx.tr.line(854, &m, &[1]);
    // ... and over the whole life of the transport, its drop included (a reset is always legal; nothing is claimed of
    // the final status). A wait on device_status that the device had to break (POLL_LIMIT polls in a row) is reported
    // as one access with the window code 8, which no rule allows: the code under test would never have returned.
    if !rec_drop.log.is_empty() || fst.borrow().runaway {
        let mut m = vec![d.code(), c.offered as u128, 0, pc.geo.mult as u128];
        accs(&rec.log, &mut m); accs(&rec_drop.log, &mut m);
        if fst.borrow().runaway { m.extend([8, 0, 20, 1, drivers::POLL_LIMIT as u128]); ctx.tr.note("pci_runaway_status_poll"); }
        ctx.tr.line(854, &m, &[1]);
    }
    let kept = without_mmio(&rec);
    let mut m = vec![d.code(), c.offered as u128, p.p1(d), 0]; m.extend(drivers::enc_events(&kept));
    ctx.tr.line(852, &m, &[1]);
    notes(ctx, c, "pci", &res);
    if pc.geo.init_status != 0 { ctx.tr.note("pci_stale_status"); }
    if pc.geo.checking_status { ctx.tr.note("pci_checking_status"); }
    if !pc.cfg_present { ctx.tr.note("pci_no_device_cfg"); }
    ctx.tr.note(&format!("pci_mult_{}", pc.geo.mult));
    crate::mmio::clear();
}

/// a feature-gated operation on a freshly constructed driver (model transport; the device services
/// notified queues). opcode as in Model/InitSpec.v gate_ok_b.
fn op_case(ctx: &mut Ctx, d: Drv, offered: u64, opc: u128, arg: u128) {
    let mut c = Case::plain(ctx, d, offered);
    c.default_max = 64;
    let Some((mut b, dev)) = model_case(ctx, &c) else { return };
    dev.borrow_mut().serve = true;
    let mut qidx: Option<u16> = None;
    // buffers of requests left outstanding by operations 12 / 13 must outlive the driver's use of them
    let mut held_tx: Option<Vec<u8>> = None;
    let mut held_blk: Vec<(virtio_drivers::device::blk::BlkReq, Vec<u8>, virtio_drivers::device::blk::BlkResp)> =
        (0..6).map(|_| (virtio_drivers::device::blk::BlkReq::default(), vec![0u8; 512], virtio_drivers::device::blk::BlkResp::default())).collect();
    let r: std::thread::Result<Result<u128, Error>> = catch_unwind(AssertUnwindSafe(|| -> Result<u128, Error> {
        Ok(match (&mut *b, opc) {
            (Built::Blk(x), 1) => x.readonly() as u128,
            (Built::Blk(x), 2) => { qidx = Some(0); x.flush()?; 0 }
            (Built::Console(x), 3) => match x.size()? { None => 0, Some(s) => 1 + 2 * (s.columns as u128 + 65536 * s.rows as u128) },
            (Built::Console(x), 4) => { x.emergency_write(arg as u8)?; 0 }
            (Built::Gpu(x), 5) => { qidx = Some(0); x.get_edid(arg as u32)?; 0 }
            (Built::NetRaw2(x), 6) => x.fill_buffer_header(&mut [0u8; 64])? as u128,
            (Built::NetRaw8(x), 6) => x.fill_buffer_header(&mut [0u8; 64])? as u128,
            (Built::NetRaw32(x), 6) => x.fill_buffer_header(&mut [0u8; 64])? as u128,
            (Built::NetRaw2(x), 7) => { qidx = Some(1); x.send(&vec![0xabu8; arg as usize])?; 0 }
            (Built::NetRaw8(x), 7) => { qidx = Some(1); x.send(&vec![0xabu8; arg as usize])?; 0 }
            (Built::NetRaw32(x), 7) => { qidx = Some(1); x.send(&vec![0xabu8; arg as usize])?; 0 }
            (Built::Net2(x), 7) => { qidx = Some(1); x.send(TxBuffer::from(&vec![0xabu8; arg as usize]))?; 0 }
            (Built::Net8(x), 7) => { qidx = Some(1); x.send(TxBuffer::from(&vec![0xabu8; arg as usize]))?; 0 }
            (Built::Net32(x), 7) => { qidx = Some(1); x.send(TxBuffer::from(&vec![0xabu8; arg as usize]))?; 0 }
            (Built::Rng(x), 8) => { qidx = Some(0); x.request_entropy(&mut vec![0xffu8; arg as usize])? as u128 }
            // a transmit buffer of `arg` bytes: accepted exactly when it can hold the header of the negotiated form
            (Built::NetRaw2(x), 12) => { let b = vec![0u8; arg as usize]; unsafe { x.transmit_begin(&b)?; } held_tx = Some(b); 0 }
            (Built::NetRaw8(x), 12) => { let b = vec![0u8; arg as usize]; unsafe { x.transmit_begin(&b)?; } held_tx = Some(b); 0 }
            (Built::NetRaw32(x), 12) => { let b = vec![0u8; arg as usize]; unsafe { x.transmit_begin(&b)?; } held_tx = Some(b); 0 }
            // six outstanding non-blocking reads on the 16-entry queue: without indirect descriptors the sixth does not fit
            // and must be refused, never squeezed through an indirect table
            (Built::Blk(x), 13) => {
                let mut last = Ok(0u16);
                for k in 0..6usize { let (rq, bf, rs) = &mut held_blk[k]; last = unsafe { x.read_blocks_nb(k, rq, bf, rs) }; if last.is_err() { break; } }
                dev.borrow_mut().service(0);
                last?; 0 }
            (Built::Gpu(x), 9) => { qidx = Some(0); x.edid_preferred_resolution()?; 0 }
            (Built::Gpu(x), 10) => { qidx = Some(0); x.edid_supported_resolutions()?; 0 }
            // the device completes one receive buffer; the frame is found behind a header of the negotiated form
            (Built::Net2(x), 11) => { dev.borrow_mut().service(0); let rb = x.receive()?; (rb.packet().as_ptr() as usize - rb.as_bytes().as_ptr() as usize) as u128 }
            (Built::Net8(x), 11) => { dev.borrow_mut().service(0); let rb = x.receive()?; (rb.packet().as_ptr() as usize - rb.as_bytes().as_ptr() as usize) as u128 }
            (Built::Net32(x), 11) => { dev.borrow_mut().service(0); let rb = x.receive()?; (rb.packet().as_ptr() as usize - rb.as_bytes().as_ptr() as usize) as u128 }
            _ => return Err(Error::InvalidParam),
        })
    }));
    let rec = drivers::take_records();
    let res: [u128; 2] = match &r { Ok(Ok(v)) => [0, *v], Ok(Err(e)) => [1, err_code(e)], Err(_) => [2, 0] };
    // op 11: the events of the receive path belong to C16; only the header form is looked at here
    let ev = if opc >= 11 { drivers::enc_events(&Records { log: vec![], qnew: vec![], ap_alloc: vec![], ap_share: vec![] }) } else { drivers::enc_events(&rec) };
    let (ue, si) = { let dv = dev.borrow(); (qidx.map(|q| dv.used_event(q)).unwrap_or(0) as u128, dv.saw_indirect as u128) };
    let mut ins = vec![d.code(), offered as u128, 0, opc, arg, c.cfg.len() as u128];
    ins.extend(c.cfg.iter().map(|x| *x as u128));
    let mut outs = vec![res[0], res[1], ue]; outs.extend(&ev);
    ctx.tr.line(820, &ins, &outs);
    let mut m = vec![d.code(), offered as u128, opc, res[0], res[1], si, ue]; m.extend(&ev);
    ctx.tr.line(853, &m, &[1]);
    if opc == 12 { ctx.tr.line(855, &[d.code(), offered as u128, arg, res[0]], &[1]); }
    ctx.tr.note(&format!("op_{}", opc));
    if si == 1 { ctx.tr.note("device_saw_indirect"); }
    if ue != 0 { ctx.tr.note("used_event_written"); }
    dev.borrow_mut().serve = false;
    drop_built(b);
    drop(held_tx); drop(held_blk);
}

fn ops_of(d: Drv) -> Vec<(u128, u128)> {
    match d {
        Drv::Blk => vec![(1, 0), (2, 0), (13, 0)], Drv::Console => vec![(3, 0), (4, 0x41)], Drv::Gpu => vec![(5, 0), (9, 0), (10, 0)],
        Drv::NetRaw => vec![(6, 0), (7, 60), (7, 0), (7, 1), (7, 1514), (12, 0), (12, 9), (12, 10), (12, 11), (12, 12), (12, 13), (12, 74)], Drv::Net => vec![(7, 61), (7, 0), (7, 1), (11, 0)], Drv::Rng => vec![(8, 16)], _ => vec![],
    }
}

/// feature words every driver is run with: each bit alone, all subsets of the bits it understands (with and
/// without a background of bits it does not), boundary words
fn directed_words(d: Drv) -> Vec<u64> {
    let mut v: Vec<u64> = (0..64).map(|k| 1u64 << k).collect();
    let rel = d.relevant_bits();
    for mask in 0..(1u64 << rel.len()) {
        let mut w = 0u64;
        for (i, b) in rel.iter().enumerate() { if mask >> i & 1 == 1 { w |= 1u64 << b; } }
        v.push(w);
    }
    v.extend([0, u64::MAX, u64::MAX >> 1, 0xffff_ffff, 0xffff_ffff_0000_0000, 1u64 << 32 | 1 << 28, !(1u64 << 32), !(1u64 << 28 | 1 << 29 | 1 << 33)]);
    v.sort(); v.dedup(); v
}

fn random_word(ctx: &mut Ctx, d: Drv) -> u64 {
    match ctx.rng.below(3) {
        0 => ctx.rng.next(),
        1 => { let mut w = ctx.rng.next() & ctx.rng.next(); for b in d.relevant_bits() { if ctx.rng.chance(1, 2) { w |= 1u64 << b; } else { w &= !(1u64 << b); } } w }
        _ => ctx.rng.boundary(64),
    }
}

/// an environment that deviates from the plain one in a few random respects
fn varied_case(ctx: &mut Ctx, d: Drv) -> Case {
    let w = random_word(ctx, d);
    let mut c = Case::plain(ctx, d, w);
    c.legacy = ctx.rng.chance(1, 3);
    c.p = Params { net_queue: *ctx.rng.pick(&drivers::NET_QUEUES), net_buf_len: *ctx.rng.pick(&[0usize, 7, 8, 1519, 1520, 1525, 1526, 1527, 1533, 1534, 2048, 4096]),
        sock_rx: *ctx.rng.pick(&drivers::SOCK_RX) };
    // device-written notification suppression: none / flag / event index far ahead / at the posted count
    for q in 0..d.nqueues() as u16 {
        let mut s = QScript::default();
        match ctx.rng.below(5) { 0 => { s.uflags = 1; s.aevent = 0x7fff; } 1 => { s.uflags = 1; } 2 => { s.aevent = *ctx.rng.pick(&[1u16, 7, 8, 31, 32, 33, 0x7fff, 0x8000, 0xffff]); }
            3 => { s.uflags = ctx.rng.boundary(16) as u16; s.aevent = ctx.rng.boundary(16) as u16; } _ => {} }
        if ctx.rng.chance(1, 8) { s.used = Some(true); }
        if ctx.rng.chance(1, 4) { let sizes = [0u32, 1, 2, 7, 8, 15, 16, 31, 32, 33, 256, 65535, 65536, u32::MAX]; s.max = Some(*ctx.rng.pick(&sizes)); }
        c.qs.insert(q, s);
    }
    if ctx.rng.chance(1, 2) { let n = ctx.rng.below(6); let mut g = ctx.rng.below(3) as u32; c.gens = (0..n).map(|_| { if ctx.rng.chance(1, 2) { g = g.wrapping_add(ctx.rng.below(3) as u32); } g }).collect(); }
    if ctx.rng.chance(1, 4) && !c.cfg.is_empty() { let n = ctx.rng.below(c.cfg.len() as u64 + 1) as usize; c.cfg.truncate(n); }
    if d == Drv::P9 && ctx.rng.chance(1, 2) {
        match ctx.rng.below(4) { 0 => { c.cfg = vec![0, 0, b'x']; } 1 => { c.cfg = vec![3, 0, 0xff, 0xfe, b'a']; } 2 => { c.cfg = vec![200, 0, b'a', b'b']; } _ => { c.cfg = vec![4, 0, 0xe2, 0x82, 0xac, b'!']; } }
    }
    if ctx.rng.chance(1, 5) { c.stale = Some(*ctx.rng.pick(&[0x0fu32, 0x0b, 0x03, 0x4f, 0x8f, 0xff])); }
    if ctx.rng.chance(1, 6) { c.fail_alloc = Some(ctx.rng.below(2 * d.nqueues() as u64 + 1) as usize); }
    c
}

/// a PCI function that deviates from the plain one: where the structures lie, multiplier, queue_notify_off per queue,
/// a notification window that is too short for some queue, no device configuration capability, a configuration
/// capability that is not a whole number of words, stale device_status
fn varied_pci_case(ctx: &mut Ctx, d: Drv) -> PciCase {
    let mut c = varied_case(ctx, d);
    c.legacy = false;
    let nq = d.nqueues();
    let pad = ctx.rng.chance(3, 4);
    if pad { while c.cfg.len() % 4 != 0 { c.cfg.push(0); } }
    let cfg_present = c.cfg.len() >= 4 && !ctx.rng.chance(1, 10);
    let mult = *ctx.rng.pick(&[0u32, 2, 4, 4, 8, 0x100, 0x1000]);
    let noffs: Vec<u16> = match ctx.rng.below(5) {
        0 => (0..nq as u16).collect(),
        1 => (0..nq as u16).rev().collect(),
        2 => vec![0; nq],
        3 => (0..nq).map(|_| ctx.rng.below(8) as u16).collect(),
        _ => (0..ctx.rng.below(nq as u64 + 1)).map(|_| ctx.rng.below(4) as u16).collect(),
    };
    let top = noffs.iter().copied().max().unwrap_or(0) as u32 * mult;
    // usually long enough for every queue; sometimes exactly, one element short, or odd
    let notify_len = match ctx.rng.below(6) { 0 => top + 2, 1 => (top + 1).max(2), 2 => top.max(2), 3 => top + 3, _ => (top + 2).max(0x100) }.min(0x8000);
    let (common_off, isr_off, cfg_off, notify_off) = *ctx.rng.pick(&[(0u32, 0x1000u32, 0x2000u32, 0x3000u32), (0x3000, 0x100, 0x2004, 0x8000), (0x40, 0x3f, 0x1004, 0x4000), (0x8000, 0x8038, 0x803c, 0), (0x1000, 0x2000, 0x0, 0x3000)]);
    let init_status = if ctx.rng.chance(1, 4) { *ctx.rng.pick(&[0x0fu8, 0x0b, 0x03, 0x40, 0x80, 0x8f, 0xff]) } else { 0 };
    PciCase { c, cfg_present, geo: drivers::PciGeo { common_off, isr_off, cfg_off, notify_off, notify_len, mult, noffs, init_status, checking_status: ctx.rng.chance(1, 2) } }
}

/// every driver constructed with each subset of the ring features (monitor 852: the flags of every VirtQueue::new are the
/// negotiated bits) and its gated operations run on it (monitor 853: an indirect table only if negotiated): also run under C01
pub fn run_ring_features(ctx: &mut Ctx) {
    for d in drivers::ALL {
        ctx.tr.scenario(&format!("c08-ring-features-{}", d.name()));
        for w in [0u64, 1 << 28, 1 << 29, (1 << 28) | (1 << 29), (1 << 28) | (1 << 32), (1 << 29) | (1 << 32) | (1 << 33), (1 << 33)] {
            let c = Case::plain(ctx, d, w); if let Some((b, _)) = model_case(ctx, &c) { drop_built(b); }
            for (opc, arg) in ops_of(d) { op_case(ctx, d, w, opc, arg); }
        }
    }
    drivers::release_observers();
    crate::mmio::clear();
}

pub fn run(ctx: &mut Ctx) {
    for d in drivers::ALL {
        // ---- the model transport: every directed word ----
        ctx.tr.scenario(&format!("c08-model-{}", d.name()));
        let words = directed_words(d);
        for w in &words { let c = Case::plain(ctx, d, *w); if let Some((b, _)) = model_case(ctx, &c) { drop_built(b); } }
        // a device left live by a previous owner whose reset completes late (nothing may depend on what the status reads back)
        for st in [0x0fu32, 0x0b, 0x8f] { let mut c = Case::plain(ctx, d, u64::MAX); c.stale = Some(st); if let Some((b, _)) = model_case(ctx, &c) { drop_built(b); } }
        let n = ctx.budget(40, 25);
        for _ in 0..n { let w = random_word(ctx, d); let c = Case::plain(ctx, d, w); if let Some((b, _)) = model_case(ctx, &c) { drop_built(b); } }
        // ---- the device suppresses notifications / does not (the pre-posting drivers) ----
        ctx.tr.scenario(&format!("c08-model-suppress-{}", d.name()));
        for w in [0u64, 1 << 29, 1 << 28 | 1 << 29 | 1 << 32 | 1 << 33, u64::MAX] {
            for (uf, ae) in [(0u16, 0u16), (1, 0), (0, 0x7fff), (1, 0x7fff), (0, 31), (0, 32), (0, 7), (0, 8), (0, 1)] {
                let mut c = Case::plain(ctx, d, w);
                for q in 0..d.nqueues() as u16 { c.qs.insert(q, QScript { used: None, max: None, uflags: uf, aevent: ae }); }
                if let Some((b, _)) = model_case(ctx, &c) { drop_built(b); }
            }
        }
        // ---- varied environments ----
        ctx.tr.scenario(&format!("c08-model-env-{}", d.name()));
        let n = ctx.budget(60, 25);
        for _ in 0..n { let c = varied_case(ctx, d); if let Some((b, _)) = model_case(ctx, &c) { drop_built(b); } }
        // generic parameters
        if matches!(d, Drv::NetRaw | Drv::Net | Drv::Socket) {
            for w in [0u64, 1 << 32, u64::MAX] { for nq in drivers::NET_QUEUES { for rx in drivers::SOCK_RX { for bl in [1519usize, 1526, 1533, 1534, 2048] {
                if d != Drv::Net && bl != 2048 { continue; }
                if d == Drv::Socket && nq != 8 { continue; }
                if d != Drv::Socket && rx != 512 { continue; }
                let mut c = Case::plain(ctx, d, w); c.p = Params { net_queue: nq, net_buf_len: bl, sock_rx: rx };
                if let Some((b, _)) = model_case(ctx, &c) { drop_built(b); }
            } } } }
        }
        // ---- the real MMIO transport, legacy and modern ----
        for (ver, vn) in [(1u32, "legacy"), (2u32, "modern")] {
            ctx.tr.scenario(&format!("c08-mmio-{}-{}", vn, d.name()));
            for w in &words { let c = Case::plain(ctx, d, *w); mmio_case(ctx, ver, &c); }
            let n = ctx.budget(30, 25);
            for _ in 0..n { let mut c = varied_case(ctx, d); c.legacy = false; mmio_case(ctx, ver, &c); }
        }
        // ---- the real PCI transport ----
        ctx.tr.scenario(&format!("c08-pci-{}", d.name()));
        for w in &words { let c = Case::plain(ctx, d, *w); pci_case(ctx, &PciCase::plain(c)); }
        // what a previous driver left in device_status; a device that checks the accepted features at FEATURES_OK
        for st in [0x0fu8, 0x0b, 0x03, 0x01, 0x40, 0x80, 0xcf, 0xff] {
            for w in [0u64, 1 << 32, u64::MAX] {
                let c = Case::plain(ctx, d, w); let mut pc = PciCase::plain(c);
                pc.geo.init_status = st; pc.geo.checking_status = st & 1 == 1;
                pci_case(ctx, &pc);
            }
        }
        ctx.tr.scenario(&format!("c08-pci-env-{}", d.name()));
        let n = ctx.budget(40, 10);
        for _ in 0..n { let pc = varied_pci_case(ctx, d); pci_case(ctx, &pc); }
        // ---- feature-gated operations ----
        let ops = ops_of(d);
        if !ops.is_empty() {
            ctx.tr.scenario(&format!("c08-ops-{}", d.name()));
            let rel = d.relevant_bits();
            let mut ws: Vec<u64> = vec![];
            let background = !rel.iter().fold(0u64, |a, b| a | 1u64 << b);
            for mask in 0..(1u64 << rel.len()) { let mut w = 0u64; for (i, b) in rel.iter().enumerate() { if mask >> i & 1 == 1 { w |= 1u64 << b; } } ws.push(w); ws.push(w | background); }
            let n = ctx.budget(10, 20);
            for _ in 0..n { ws.push(random_word(ctx, d)); }
            ws.sort(); ws.dedup();
            for w in ws { for (opc, arg) in &ops { op_case(ctx, d, w, *opc, *arg); } }
        }
    }
    drivers::release_observers();
    crate::mmio::clear();
}
