//! C07: misbehaving devices. (a) raw VirtQueue under the caller contract with arbitrary used-ring contents;
//! (b) the same histories with the device scribbling over descriptor table and available ring: results must
//! not change (the model never sees the scribbles); (c) OwningQueue / VirtIOInput with repeated, never-issued
//! and out-of-range ids and oversized lengths: outcomes are results, errors or clean panics, and the
//! instrumented platform never sees an unshare / dealloc that does not match a live share / allocation.
use crate::hal::{self, Ev, LedgerHal};
#[cfg(feature = "alloc")]
use crate::scen::c19::ODev;
use crate::scen::common::*;
use crate::scen::qrig::*;
use crate::tport::{ModelTransport, TState};
use crate::Ctx;
use std::panic::{catch_unwind, AssertUnwindSafe};
#[cfg(feature = "alloc")]
use virtio_drivers::device::input::VirtIOInput;
#[cfg(feature = "alloc")]
use virtio_drivers::queue::{OwningQueue, VirtQueue};
use virtio_drivers::transport::DeviceType;

fn scribble<const N: usize>(rig: &Rig<N>, ctx: &mut Ctx) {
    // the device writes garbage over the areas it must not write
    let g = ctx.rng.bytes(16 * N);
    let _ = hal::dev_write(rig.a.desc, &g);
    let r = ctx.rng.bytes(4 + 2 * N + 2);
    let _ = hal::dev_write(rig.a.drv, &r);
}

/// history on the raw queue with an adversarial used ring; `scrib`: also scribble after every step
fn adversarial<const N: usize>(ctx: &mut Ctx, flags: u8, start: u16, nops: usize, scrib: bool) {
    let mut rig = match Rig::<N>::new(ctx, flags & 1 != 0, flags & 2 != 0, false, start) { Some(r) => r, None => return };
    rig.quiet_visible = scrib;
    rig.honest = false;
    // the device does not follow the protocol here: the store-level monitor of C02 (which reads what an honest
    // device would find in the driver-written areas) does not apply
    C02.with(|c| *c.borrow_mut() = None);
    for _ in 0..nops {
        let r = ctx.rng.below(100);
        if r < 35 {
            let total = 1 + ctx.rng.below(3.min(N as u64)) as usize;
            let n_in = ctx.rng.range(0, total as u64) as usize;
            let li: Vec<usize> = (0..n_in).map(|_| 1 + ctx.rng.below(16) as usize).collect();
            let lo: Vec<usize> = (0..total - n_in).map(|_| 1 + ctx.rng.below(16) as usize).collect();
            rig.add(ctx, &li, &lo);
        } else if r < 60 {
            // honest completion of a random chain, but with an arbitrary length and garbage in the high id bits
            let cands: Vec<usize> = (0..rig.subs.len()).filter(|k| !rig.subs[*k].completed).collect();
            if !cands.is_empty() {
                let k = *ctx.rng.pick(&cands);
                let tok = rig.subs[k].token as u32;
                let id = if ctx.rng.chance(1, 3) { tok | ((ctx.rng.next() as u32) << 16) } else { tok };
                let len = match ctx.rng.below(4) { 0 => Some(0), 1 => Some(u32::MAX), 2 => Some(N as u32 + 1), _ => None };
                rig.device_complete(ctx, k, Some(id), len);
            }
        } else if r < 75 {
            // dishonest used entry: id out of range / never issued / not a head / repeated; or an index jump
            let slot = (rig.dev_used_idx as usize) & (N - 1);
            let id: u32 = match ctx.rng.below(5) { 0 => N as u32 + ctx.rng.below(5) as u32, 1 => u32::MAX, 2 => ctx.rng.below(N as u64) as u32,
                3 => 0x1_0000 + ctx.rng.below(N as u64) as u32, _ => ctx.rng.next() as u32 };
            hal::dev_write_u32(rig.a.dev + 4 + 8 * slot as u64, id).unwrap();
            hal::dev_write_u32(rig.a.dev + 8 + 8 * slot as u64, ctx.rng.next() as u32).unwrap();
            let jump = if ctx.rng.chance(1, 4) { 1 + ctx.rng.below(N as u64 + 2) as u16 } else { 1 };
            rig.dev_used_idx = rig.dev_used_idx.wrapping_add(jump);
            hal::dev_write_u16(rig.a.dev + 2, rig.dev_used_idx).unwrap();
            ctx.tr.note("dishonest_used_entry");
        } else if r < 95 {
            // the caller polls for one of ITS outstanding tokens with the buffers it submitted (contract kept)
            if rig.subs.is_empty() { continue; }
            let k = ctx.rng.below(rig.subs.len() as u64) as usize;
            let tok = rig.subs[k].token;
            rig.pop_lenient(ctx, k, tok);
        } else {
            rig.queries(ctx);
        }
        if scrib { scribble(&rig, ctx); }
        if ctx.rng.chance(1, 6) { rig.snapshots(ctx); }
    }
    rig.snapshots(ctx);
    rig.finish_lenient(ctx);
}

/// OwningQueue against a device that repeats ids, uses ids it was never given and reports oversized lengths
#[cfg(feature = "alloc")]
fn owning_adversarial<const N: usize, const B: usize>(ctx: &mut Ctx, flags: u8, nops: usize) {
    hal::reset();
    BUFIDS.with(|b| b.borrow_mut().clear());
    virtio_drivers::verif::set_observer(None);
    let (mut t, st) = ModelTransport::new(TState::new(DeviceType::Input, 0, 2, N as u32));
    let q = match VirtQueue::<LedgerHal, N>::new(&mut t, 0, flags & 1 != 0, flags & 2 != 0, false) { Ok(q) => q, Err(_) => return };
    let qi = st.borrow().queues[0];
    let a = QAddr { desc: qi.desc, drv: qi.drv, dev: qi.dev, size: N };
    let mut oq = match OwningQueue::<LedgerHal, N, B>::new(q) { Ok(q) => q, Err(_) => return };
    let mut dev = ODev { a, seen: 0, used: 0, fetched: vec![] };
    let mut classes = [0u128; 3];
    for _ in 0..nops {
        dev.fetch();
        let uslot = (dev.used as usize) & (N - 1);
        let kind = ctx.rng.below(6);
        let (id, len): (u32, u32) = match kind {
            0 if !dev.fetched.is_empty() => { let k = ctx.rng.below(dev.fetched.len() as u64) as usize; (dev.fetched.remove(k) as u32, ctx.rng.below(B as u64 + 1) as u32) }
            1 if !dev.fetched.is_empty() => { let k = ctx.rng.below(dev.fetched.len() as u64) as usize; (dev.fetched.remove(k) as u32, B as u32 + 1 + ctx.rng.below(4) as u32) }
            2 => (ctx.rng.below(N as u64) as u32, ctx.rng.below(B as u64 + 2) as u32),            // repeated / not fetched
            3 => (N as u32 + ctx.rng.below(4) as u32, 1),
            4 => (ctx.rng.next() as u32, ctx.rng.next() as u32),
            _ => (ctx.rng.below(N as u64) as u32 | 0x10000, 4),
        };
        hal::dev_write_u32(a.dev + 4 + 8 * uslot as u64, id).unwrap();
        hal::dev_write_u32(a.dev + 8 + 8 * uslot as u64, len).unwrap();
        dev.used = dev.used.wrapping_add(1);
        hal::dev_write_u16(a.dev + 2, dev.used).unwrap();
        let polls = 1 + ctx.rng.below(2);
        for _ in 0..polls {
            // the handler rejects what the device wrote in a third of the polls (a malformed packet / event)
            let reject = ctx.rng.chance(1, 3);
            if reject { ctx.tr.note("owning_adv_handler_rejects"); }
            let r = { let oq = &mut oq; let t = &mut t; catch_unwind(AssertUnwindSafe(move || oq.poll(t, |b| if reject { Err(virtio_drivers::Error::IoError) } else { Ok(Some(b.len())) }))) };
            let (class, len_ok) = match &r { Ok(Ok(Some(l))) => (0usize, *l <= B), Ok(Ok(None)) => (0, true), Ok(Err(_)) => (1, true), Err(_) => (2, true) };
            classes[class] += 1;
            // kind 160: [class; delivered length within the buffer; ledger violations so far]
            ctx.tr.line(160, &[class as u128, len_ok as u128, hal::violations().len() as u128], &[1]);
            if class == 2 { break; }
        }
        if classes[2] > 0 { break; }
    }
    ctx.tr.note_n("owning_adv_ok", classes[0] as u64); ctx.tr.note_n("owning_adv_err", classes[1] as u64); ctx.tr.note_n("owning_adv_panic", classes[2] as u64);
    let _ = catch_unwind(AssertUnwindSafe(move || { drop(oq); drop(t); }));
    ledger_line(ctx);
}

/// every id of the event queue as the FIRST completion a fresh driver sees (all 32 buffers must really be with the device:
/// an id whose buffer was never posted would be unshared without having been shared), then ids just outside
#[cfg(feature = "alloc")]
fn input_id_sweep(ctx: &mut Ctx, features: u64) {
    for id in (0u32..36).chain([0xffffu32, 0x1001f]) {
        hal::reset();
        virtio_drivers::verif::set_observer(None);
        let mut ts = TState::new(DeviceType::Input, features, 2, 32);
        ts.config = vec![0u8; 256];
        let (t, st) = ModelTransport::new(ts);
        let mut input = match catch_unwind(AssertUnwindSafe(move || VirtIOInput::<LedgerHal, ModelTransport>::new(t))) { Ok(Ok(i)) => i, _ => return };
        let qi = st.borrow().queues[0];
        hal::dev_write_u32(qi.dev + 4, id).unwrap();
        hal::dev_write_u32(qi.dev + 8, 8).unwrap();
        hal::dev_write_u16(qi.dev + 2, 1).unwrap();
        for _ in 0..2 {
            let r = { let input = &mut input; catch_unwind(AssertUnwindSafe(move || input.pop_pending_event().is_some())) };
            let class = match r { Ok(_) => 0u128, Err(_) => 2 };
            ctx.tr.line(160, &[class, 1, hal::violations().len() as u128], &[1]);
            if class == 2 { break; }
        }
        let _ = catch_unwind(AssertUnwindSafe(move || drop(input)));
        ledger_line(ctx);
    }
}

#[cfg(feature = "alloc")]
fn input_adversarial(ctx: &mut Ctx, features: u64, nops: usize) {
    hal::reset();
    virtio_drivers::verif::set_observer(None);
    let mut ts = TState::new(DeviceType::Input, features, 2, 32);
    ts.config = vec![0u8; 256];
    let (t, st) = ModelTransport::new(ts);
    let mut input = match catch_unwind(AssertUnwindSafe(move || VirtIOInput::<LedgerHal, ModelTransport>::new(t))) { Ok(Ok(i)) => i, _ => return };
    let qi = st.borrow().queues[0];
    let a = QAddr { desc: qi.desc, drv: qi.drv, dev: qi.dev, size: 32 };
    let mut used: u16 = 0;
    for _ in 0..nops {
        let uslot = (used as usize) & 31;
        let id: u32 = match ctx.rng.below(8) { 0 => 32 + ctx.rng.below(8) as u32, 1 => ctx.rng.next() as u32, 2 | 3 => ctx.rng.below(32) as u32 | 0x20000, 4 => 31, _ => ctx.rng.below(32) as u32 };
        hal::dev_write_u32(a.dev + 4 + 8 * uslot as u64, id).unwrap();
        hal::dev_write_u32(a.dev + 8 + 8 * uslot as u64, ctx.rng.next() as u32).unwrap();
        used = used.wrapping_add(1 + ctx.rng.below(2) as u16);
        hal::dev_write_u16(a.dev + 2, used).unwrap();
        let r = { let input = &mut input; catch_unwind(AssertUnwindSafe(move || input.pop_pending_event().is_some())) };
        let class = match r { Ok(_) => 0u128, Err(_) => 2 };
        ctx.tr.line(160, &[class, 1, hal::violations().len() as u128], &[1]);
        if class == 2 { break; }
    }
    let _ = catch_unwind(AssertUnwindSafe(move || drop(input)));
    ledger_line(ctx);
}

pub fn run(ctx: &mut Ctx) {
    let nh = ctx.budget(24, 10);
    for h in 0..nh {
        let size = [2usize, 4, 8, 16][(h % 4) as usize];
        let flags = ((h / 4) % 4) as u8;
        let start = if h % 3 == 0 { 65533 } else { 0 };
        for scrib in [false, true] {
            ctx.tr.scenario(&format!("c07-adversarial-h{}-n{}-f{}-s{}-scribble{}", h, size, flags, start, scrib as u8));
            // same seed for both runs: the scribbling run must produce the same results
            let saved = ctx.rng.clone();
            match size { 2 => adversarial::<2>(ctx, flags, start, 150, scrib), 4 => adversarial::<4>(ctx, flags, start, 150, scrib),
                         8 => adversarial::<8>(ctx, flags, start, 150, scrib), _ => adversarial::<16>(ctx, flags, start, 150, scrib) }
            if !scrib { ctx.rng = saved; }
        }
    }
    // OwningQueue and VirtIOInput exist only with the cargo feature `alloc`
    #[cfg(feature = "alloc")]
    {
    let n = ctx.budget(300, 20) as usize;
    for flags in 0..4u8 {
        ctx.tr.scenario(&format!("c07-owning-adversarial-n4-f{}", flags)); owning_adversarial::<4, 16>(ctx, flags, n);
        ctx.tr.scenario(&format!("c07-owning-adversarial-n8-f{}", flags)); owning_adversarial::<8, 8>(ctx, flags, n);
    }
    for (i, feats) in [0u64, (1 << 28) | (1 << 29)].iter().enumerate() {
        ctx.tr.scenario(&format!("c07-input-adversarial-{}", i)); input_adversarial(ctx, *feats, n);
        ctx.tr.scenario(&format!("c07-input-id-sweep-{}", i)); input_id_sweep(ctx, *feats);
        // the same driver in lock-step with Model/Input.v (lines 1960..1962) and under monitors 1970 / 1971
        ctx.tr.scenario(&format!("c07-input-wild-{}", i)); crate::scen::c19::input_wild(ctx, *feats, n);
    }
    }
}
