//! helpers shared by scenarios
use crate::hal::{self, Ev};
use crate::Ctx;
use virtio_drivers::Error;

pub fn err_code(e: &Error) -> u128 {
    match e {
        Error::QueueFull => 1, Error::NotReady => 2, Error::WrongToken => 3, Error::AlreadyUsed => 4,
        Error::InvalidParam => 5, Error::DmaError => 6, Error::IoError => 7, Error::Unsupported => 8,
        Error::ConfigSpaceTooSmall => 9, Error::ConfigSpaceMissing => 10, Error::SocketDeviceError(_) => 11,
    }
}
/// [class, code]: 0 v = Ok, 1 e = Err, 2 0 = panic
pub fn enc_result<T>(r: &std::thread::Result<Result<T, Error>>, okval: impl Fn(&T) -> u128) -> [u128; 2] {
    match r { Ok(Ok(v)) => [0, okval(v)], Ok(Err(e)) => [1, err_code(e)], Err(_) => [2, 0] }
}
/// encode the Hal allocation / registration events like Model/Layout.enc_evs
pub fn enc_layout_events(evs: &[Ev]) -> Vec<u128> {
    let mut o = vec![];
    for e in evs {
        match e {
            Ev::Alloc { pages, dir, paddr } => o.extend([1, *pages as u128, *dir as u128, *paddr as u128]),
            Ev::Dealloc { paddr, pages, .. } => o.extend([2, *paddr as u128, *pages as u128]),
            Ev::QueueSet { q, size, desc, drv, dev, .. } => o.extend([3, *q as u128, *size as u128, *desc as u128, *drv as u128, *dev as u128]),
            _ => {}
        }
    }
    o
}
/// generic ledger line (kind 1): number of contract violations the instrumented platform saw; expected 0
pub fn ledger_line(ctx: &mut Ctx) {
    let v = hal::violations();
    for s in &v { ctx.tr.comment(&format!("LEDGER: {}", s)); }
    ctx.tr.line(1, &[], &[v.len() as u128]);
}
