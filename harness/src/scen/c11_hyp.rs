//! C11 / C13: the real `HypPciTransport` (x86-64 pKVM hypercall PCI transport, src/transport/x86_64.rs), `HypCam`
//! and `SomeTransport::HypPci`, over the PCI functions scen/c11.rs generates (capability lists in any order,
//! duplicates, short / foreign / overrunning capabilities, reserved bar values, every BAR kind, offset / length
//! pairs around 2^32 and the BAR size).  `vmcall` cannot run in user space: with `--cfg virtio_drivers_verif`
//! `hyp_io_read` / `hyp_io_write` hand every hypercall (is_write, physical address, size, data) to the back end
//! registered here, which logs it and serves it
//!   * from the twin of the reference PCI function when the address lies in the CAM window of a `HypCam`,
//!   * from the scenario's answer queue otherwise (BAR registers of the device).
//! The regions of the transport `new` returned are read from its `Debug` rendering (the fields are private).
//! Trace lines (Extract/HypPciIO.v): 1131 new (result, regions, final function, configuration accesses: all predicted
//! by the model), 1132 MONITOR hyp_new_conform_b, 1140 one operation (predicted from the transport the MODEL built),
//! 1141 MONITOR hyp_conform_b, 1142 MONITOR every hypercall inside an allocated memory BAR (the harness's own
//! knowledge of the BARs), 1143 MONITOR whole life, 1150 / 1151 HypCam words, 1152 MONITOR the hypercalls of a `new`
//! made through HypCam, 1361 / 1363 configuration access, 1362 MONITOR hyp_cfg_conform_b, 1251 / 1252 (C12 monitors).
use super::c11::{apply, base_dev, enc_err, err_name, gen_op, le32, mk, spec_select, walk, Dev, Op};
use super::c12::{enc_log, Spec, Twin};
use super::c13::{class2, offsets, rd_dyn, wr_dyn, TYPES};
use crate::Ctx;
use std::cell::RefCell;
use std::collections::VecDeque;
use std::panic::{catch_unwind, AssertUnwindSafe};
use virtio_drivers::transport::pci::bus::{Cam, ConfigurationAccess, DeviceFunction, PciRoot};
use virtio_drivers::transport::x86_64::{HypCam, HypPciTransport};
use virtio_drivers::transport::{SomeTransport, Transport};

// ---------------------------------------------------------------- the hypervisor
struct Hv { cam: Option<(u64, Cam, Twin)>, answers: VecDeque<u64>, log: Vec<[u128; 4]>, cam_log: Vec<[u128; 4]> }
thread_local! { static HV: RefCell<Hv> = RefCell::new(Hv { cam: None, answers: VecDeque::new(), log: vec![], cam_log: vec![] }); }
fn mask(size: usize) -> u64 { if size >= 8 { u64::MAX } else { (1u64 << (8 * size as u32)) - 1 } }
/// what the hypervisor leaves in the bytes of the result register beyond the size asked for
const GARBAGE: u64 = 0xa5c3_965a_3cf0_0ff1;
fn decode_cam(cam: Cam, off: u64) -> Option<(DeviceFunction, u8)> {
    let (bdf, reg) = match cam { Cam::MmioCam => (off >> 8, off & 0xff), Cam::Ecam => (off >> 12, off & 0xfff) };
    if reg > 0xff { return None; }
    Some((DeviceFunction { bus: (bdf >> 8) as u8, device: ((bdf >> 3) & 31) as u8, function: (bdf & 7) as u8 }, reg as u8))
}
fn backend(write: bool, addr: u64, size: usize, data: u64) -> u64 {
    HV.with(|h| {
        let mut h = h.borrow_mut();
        let in_cam = match &h.cam { Some((base, cam, _)) => addr >= *base && (addr - *base) < cam.size() as u64, None => false };
        if in_cam {
            let (base, cam, mut twin) = { let (b, c, t) = h.cam.as_ref().unwrap(); (*b, *c, t.clone()) };
            let v = match decode_cam(cam, addr - base) {
                Some((df, reg)) => if write { twin.write_word(df, reg, data as u32); data } else { twin.read_word(df, reg) as u64 },
                None => 0xffff_ffff,
            };
            h.cam_log.push([write as u128, addr as u128, size as u128, (v & mask(size)) as u128]);
            return if write { 0 } else if size < 8 { v & mask(size) | (GARBAGE << (8 * size as u32)) } else { v };
        }
        if write { h.log.push([1, addr as u128, size as u128, data as u128]); return 0; }
        let a = h.answers.pop_front().unwrap_or(0);
        h.log.push([0, addr as u128, size as u128, (a & mask(size)) as u128]);
        if size < 8 { a & mask(size) | (GARBAGE << (8 * size as u32)) } else { a }
    })
}
fn install(cam: Option<(u64, Cam, Twin)>) {
    virtio_drivers::verif::set_hyp_io_backend(Some(backend));
    HV.with(|h| { let mut h = h.borrow_mut(); h.cam = cam; h.answers.clear(); h.log.clear(); h.cam_log.clear(); });
}
fn set_answers(a: &[u64]) { HV.with(|h| h.borrow_mut().answers = a.iter().copied().collect()); }
fn take_log() -> Vec<u128> { HV.with(|h| std::mem::take(&mut h.borrow_mut().log)).into_iter().flatten().collect() }
fn take_cam_log() -> Vec<u128> { HV.with(|h| std::mem::take(&mut h.borrow_mut().cam_log)).into_iter().flatten().collect() }

// ---------------------------------------------------------------- what `new` returned
/// every decimal number that follows `key` in `s`
fn nums_after(s: &str, key: &str) -> Vec<u128> {
    let mut out = vec![];
    let mut rest = s;
    while let Some(i) = rest.find(key) {
        rest = &rest[i + key.len()..];
        let d: String = rest.chars().take_while(|c| c.is_ascii_digit()).collect();
        if let Ok(v) = d.parse::<u128>() { out.push(v); }
    }
    out
}
/// (regions (paddr, size) in field order: common, notify, ISR, device-specific; notify_off_multiplier)
fn regions_of(t: &HypPciTransport) -> (Vec<(u128, u128)>, u128) {
    let s = format!("{:?}", t);
    let p = nums_after(&s, "paddr: ");
    let z = nums_after(&s, "size: ");
    let m = nums_after(&s, "notify_off_multiplier: ");
    (p.into_iter().zip(z).collect(), m.first().copied().unwrap_or(0))
}

#[derive(Clone, Copy, Debug)]
pub enum HOp { P(Op), Gen }
impl HOp {
    fn code(&self) -> u128 { match self { HOp::P(o) => o.code(), HOp::Gen => 13 } }
    fn args(&self) -> [u128; 5] { match self { HOp::P(o) => o.args(), HOp::Gen => [0; 5] } }
    fn name(&self) -> &'static str { match self { HOp::P(Op::Drop) => "hyp_drop", HOp::P(o) => o.name(), HOp::Gen => "read_config_generation" } }
}
enum Tp { H(HypPciTransport), S(SomeTransport<'static>) }
fn happly<T: Transport>(t: &mut T, op: HOp) -> u128 { match op { HOp::P(o) => apply(t, o), HOp::Gen => t.read_config_generation() as u128 } }

pub struct Rig { t: Option<Tp>, wrapped: bool, claimed: bool, pub wins: [u128; 7], cfg: Option<(u128, u128)>, bars: Vec<u128>, session: Vec<u128> }

/// HypPciTransport::new on `dev`; lines 1131, 1132, 1251, 1252 (and 1152 when configuration space is reached through HypCam)
pub fn new_case(ctx: &mut Ctx, dev: &Dev, wrapped: bool, claimed: bool) -> Option<Rig> {
    let Some(offs) = walk(&dev.f) else { ctx.tr.note("hyp_new_cyclic_skipped"); return None };
    let df = DeviceFunction { bus: ctx.rng.next() as u8, device: ctx.rng.below(32) as u8, function: ctx.rng.below(8) as u8 };
    let twin = Twin::single(df, dev.f.clone());
    // one run in three reaches configuration space through the real HypCam (alternating the two mechanisms)
    let via_cam = ctx.rng.below(3) == 0;
    let r;
    let mut cam_line = None;
    if via_cam {
        let cam = if ctx.rng.chance(1, 2) { Cam::Ecam } else { Cam::MmioCam };
        // a CAM window that no BAR of the scenarios overlaps
        let base = *ctx.rng.pick(&[0x0000_4000_0000_0000u64, 0x0000_7ff0_0000_0000, 0x0000_4000_3000_0000]);
        install(Some((base, cam, twin.clone())));
        let mut root = PciRoot::new(HypCam::new(base, cam));
        ctx.tr.note("hyp_new_via_hypcam");
        r = catch_unwind(AssertUnwindSafe(|| HypPciTransport::new(&mut root, df)));
        cam_line = Some((cam, base));
    } else {
        install(None);
        let mut root = PciRoot::new(twin.clone());
        r = catch_unwind(AssertUnwindSafe(|| HypPciTransport::new(&mut root, df)));
    }
    let cfg_log = twin.take_log();
    let f1 = twin.func(df);
    let stray = take_log();
    HV.with(|h| h.borrow_mut().cam = None);
    let (regs, mult) = match &r { Ok(Ok(t)) => regions_of(t), _ => (vec![], 0) };
    let res: [u128; 4] = match &r { Ok(Ok(t)) => [0, t.device_type() as u8 as u128, mult, 0], Ok(Err(e)) => enc_err(e), Err(_) => [2, 0, 0, 0] };
    let mut ins = vec![ctx.release as u128];
    ins.extend(dev.f.enc());
    ins.extend(dev.f.regs.iter().map(|x| *x as u128));
    let mut outs = res.to_vec();
    outs.push(99);
    for (p, s) in &regs { outs.extend([*p, *s]); }
    outs.extend([99, f1.cmd as u128, f1.status as u128]); outs.extend(f1.vals()); outs.push(99);
    outs.extend(enc_log(&cfg_log));
    // `new` performs no hypercall outside the CAM: anything else it issued is appended and breaks the comparison
    outs.extend(&stray);
    ctx.tr.line(1131, &ins, &outs);
    // the property on the observed behaviour
    let mut mi = dev.f.enc();
    mi.extend(dev.f.regs.iter().map(|x| *x as u128));
    mi.extend([res[0], mult, regs.len() as u128]);
    for (p, s) in &regs { mi.extend([*p, *s]); }
    ctx.tr.line(1132, &mi, &[1]);
    ctx.tr.line(1251, &[dev.f.cmd as u128, f1.cmd as u128], &[1]);
    let mut bi = dev.f.vals(); bi.extend(f1.vals());
    ctx.tr.line(1252, &bi, &[1]);
    if let Some((cam, base)) = cam_line {
        let mut ci = vec![matches!(cam, Cam::Ecam) as u128, base as u128, df.bus as u128, df.device as u128, df.function as u128, cfg_log.len() as u128];
        for (w, off, v, _) in &cfg_log { ci.extend([*w as u128, *off as u128, *v as u128]); }
        ci.extend(take_cam_log());
        ctx.tr.line(1152, &ci, &[1]);
    }
    match res[0] { 0 => ctx.tr.note("hyp_new_ok"), 1 => ctx.tr.note(&format!("hyp_{}", err_name(res[1]))), _ => ctx.tr.note("hyp_new_panic") }
    match r {
        Ok(Ok(t)) => {
            // the multiplier by the specification's rule (cross-checked against the transport's by monitor 1132)
            let _ = spec_select(&dev.f, &offs, 2).map(|o| le32(&dev.f, o + 16));
            let g = |i: usize| -> (u128, u128) { regs.get(i).copied().unwrap_or((0, 0)) };
            let wins = [g(0).0, g(0).1, g(1).0, g(1).1, mult, g(2).0, g(2).1];
            let mut bars = vec![dev.maps.len() as u128];
            for w in &dev.maps { bars.extend([w.paddr as u128, w.size as u128]); }
            let t = if wrapped { Tp::S(SomeTransport::HypPci(t)) } else { Tp::H(t) };
            Some(Rig { t: Some(t), wrapped, claimed, wins, cfg: regs.get(3).copied(), bars, session: vec![] })
        }
        _ => None,
    }
}

impl Rig {
    pub fn op(&mut self, ctx: &mut Ctx, op: HOp, answers: &[u64]) {
        set_answers(answers);
        let res: [u128; 2] = match op {
            HOp::P(Op::Drop) => { let t = self.t.take(); match catch_unwind(AssertUnwindSafe(move || drop(t))) { Ok(()) => [0, 0], Err(_) => [2, 0] } }
            _ => {
                let t = self.t.as_mut().unwrap();
                match catch_unwind(AssertUnwindSafe(|| match t { Tp::H(p) => happly(p, op), Tp::S(s) => happly(s, op) })) { Ok(v) => [0, v], Err(_) => [2, 0] }
            }
        };
        let tr = take_log();
        let mut ins = vec![self.wrapped as u128, ctx.release as u128, op.code()];
        ins.extend(op.args()); ins.extend(answers.iter().map(|a| *a as u128));
        let mut outs = res.to_vec(); outs.extend(&tr);
        ctx.tr.line(1140, &ins, &outs);
        let mut mi = self.wins.to_vec(); mi.push(op.code()); mi.extend(op.args()); mi.extend(res); mi.extend(&tr);
        ctx.tr.line(1141, &mi, &[1]);
        if self.claimed { let mut bi = self.bars.clone(); bi.extend(&tr); ctx.tr.line(1142, &bi, &[1]); }
        ctx.tr.note(op.name());
        if res[0] == 2 { ctx.tr.note("hyp_op_panicked"); }
        self.session.extend(tr);
    }
    /// drop the transport (HypPciTransport has no Drop impl: the line records that nothing is issued), session monitor
    pub fn finish(mut self, ctx: &mut Ctx) {
        if self.t.is_some() { self.op(ctx, HOp::P(Op::Drop), &[0x0f, 0]); }
        let mut mi = self.wins.to_vec(); mi.extend(&self.session);
        ctx.tr.line(1143, &mi, &[1]);
    }
}

fn hgen_op(ctx: &mut Ctx, nlen: u64, mult: u64) -> (HOp, Vec<u64>) {
    if ctx.rng.chance(1, 12) { return (HOp::Gen, vec![ctx.rng.boundary(32)]); }
    let (o, a) = gen_op(ctx, nlen, mult);
    (HOp::P(o), a)
}
pub fn run_unclaimed(ctx: &mut Ctx, dev: &Dev) {
    if let Some(mut rig) = new_case(ctx, dev, false, false) { drop(rig.t.take()); take_log(); }
    ctx.tr.note("hyp_new_unclaimed");
}
/// new, a few operations, drop
pub fn run_dev(ctx: &mut Ctx, dev: &Dev, nops: u64) {
    let wrapped = ctx.rng.chance(1, 3);
    if let Some(mut rig) = new_case(ctx, dev, wrapped, true) {
        let (nlen, mult) = (rig.wins[3] as u64, rig.wins[4] as u64);
        for _ in 0..nops { let (op, ans) = hgen_op(ctx, nlen, mult); rig.op(ctx, op, &ans); }
        rig.finish(ctx);
    }
}

/// every operation on one good transport with boundary arguments and answers
fn directed_ops(ctx: &mut Ctx) {
    for wrapped in [false, true] {
        ctx.tr.scenario(if wrapped { "c11-hyp-ops-some" } else { "c11-hyp-ops" });
        for mult in [0u32, 2, 4, 0x100, 0xfffe, 0x10000, 0xffff_fffe] {
            let (specs, mut caps) = base_dev();
            caps[3].mult = mult; caps[3].length = *ctx.rng.pick(&[2u32, 3, 0x100, 0x101, 0x1000]);
            let dev = mk(&specs, &caps);
            let Some(mut rig) = new_case(ctx, &dev, wrapped, true) else { continue };
            let nlen = rig.wins[3] as u64;
            let b16: Vec<u64> = vec![0, 1, 2, 0x7f, 0x80, 0xff, 0x100, 0x7fff, 0x8000, 0xfffe, 0xffff];
            for q in [0u16, 1, 0x8000, 0xffff] {
                for off in &b16 { rig.op(ctx, HOp::P(Op::Notify(q)), &[*off]); }
                if mult > 0 { let e = nlen.saturating_sub(2) / mult as u64; for off in [e.saturating_sub(1), e, e + 1] { rig.op(ctx, HOp::P(Op::Notify(q)), &[off & 0xffff]); } }
                for a in &b16 { rig.op(ctx, HOp::P(Op::MaxQueueSize(q)), &[*a]); rig.op(ctx, HOp::P(Op::QueueUsed(q)), &[*a]); }
                rig.op(ctx, HOp::P(Op::QueueUnset(q)), &[]);
            }
            for a in [0u64, 1, 0xffff_ffff, 0x8000_0000, 0x1_0000_0001] { for b in [0u64, 1, 0xffff_ffff] { rig.op(ctx, HOp::P(Op::ReadFeatures), &[a, b]); } }
            for f in [0u64, 1, 0xffff_ffff, 0x1_0000_0000, 0x8000_0000_0000_0000, u64::MAX, 0x0123_4567_89ab_cdef] { rig.op(ctx, HOp::P(Op::WriteFeatures(f)), &[]); }
            for s in [0u64, 1, 3, 0x0b, 0x0f, 0x10, 0x20, 0x30, 0x40, 0x80, 0xcf, 0xff, 0x1ff] { rig.op(ctx, HOp::P(Op::GetStatus), &[s]); rig.op(ctx, HOp::P(Op::AckInterrupt), &[s]); }
            for g in [0u64, 1, 0x7f, 0xff, 0x100, 0x1234_56ff, 0xffff_ffff, 0x1_0000_0001] { rig.op(ctx, HOp::Gen, &[g]); }
            for s in [0u32, 1, 3, 11, 15, 64, 128, 0xff, 0x100, 0x1ff, u32::MAX] { rig.op(ctx, HOp::P(Op::SetStatus(s)), &[]); rig.op(ctx, HOp::P(Op::SetGuestPageSize(s)), &[]); }
            for op in [Op::DeviceType, Op::RequiresLegacy] { rig.op(ctx, HOp::P(op), &[]); }
            for (n, a) in [(0u32, 0u64), (1, 1), (0xffff, 0xffff_ffff), (0x1_0000, 0x1_0000_0000), (0x1_0008, u64::MAX), (u32::MAX, 0x8000_0000_0000_0000)] {
                let q = ctx.rng.boundary(16) as u16;
                rig.op(ctx, HOp::P(Op::QueueSet(q, n, a, a ^ 0xffff_ffff, !a)), &[]);
            }
            rig.finish(ctx);
        }
    }
}

/// HypCam::read_word / write_word alone: every register, directed bus / device / function values, both mechanisms,
/// bases next to the end of the address space
fn cam_words(ctx: &mut Ctx) {
    ctx.tr.scenario("c11-hyp-cam");
    install(None);
    let bases = [0u64, 0x1000, 0xe000_0000, 0x0000_0080_0000_0000, u64::MAX - 0x0fff_ffff, u64::MAX - 0x00ff_ffff, u64::MAX - 0x0fff_fffe, u64::MAX - 0xff, u64::MAX];
    let n = ctx.budget(600, 8);
    for i in 0..n {
        let cam = if i % 2 == 0 { Cam::Ecam } else { Cam::MmioCam };
        let base = if ctx.rng.chance(1, 4) { ctx.rng.boundary(64) } else { *ctx.rng.pick(&bases) };
        let df = DeviceFunction { bus: ctx.rng.boundary(8) as u8, device: if ctx.rng.chance(1, 10) { ctx.rng.boundary(8) as u8 } else { ctx.rng.below(32) as u8 },
            function: if ctx.rng.chance(1, 10) { ctx.rng.boundary(8) as u8 } else { ctx.rng.below(8) as u8 } };
        let reg = if ctx.rng.chance(1, 8) { ctx.rng.next() as u8 } else { (ctx.rng.next() as u8) & 0xfc };
        let wr = ctx.rng.chance(1, 2);
        let data = ctx.rng.boundary(32) as u32;
        let ans = ctx.rng.boundary(64);
        set_answers(&[ans]);
        let mut hc = HypCam::new(base, cam);
        let r = catch_unwind(AssertUnwindSafe(|| if wr { hc.write_word(df, reg, data); 0u128 } else { hc.read_word(df, reg) as u128 }));
        let res: [u128; 2] = match r { Ok(v) => [0, v], Err(_) => [2, 0] };
        let tr = take_log();
        let ecam = matches!(cam, Cam::Ecam) as u128;
        let mut outs = res.to_vec(); outs.extend(&tr);
        ctx.tr.line(1150, &[ctx.release as u128, ecam, base as u128, df.bus as u128, df.device as u128, df.function as u128, reg as u128, wr as u128, data as u128, ans as u128], &outs);
        let mut mi = vec![ecam, base as u128, df.bus as u128, df.device as u128, df.function as u128, reg as u128, wr as u128, data as u128, res[0], res[1]];
        mi.extend(&tr);
        ctx.tr.line(1151, &mi, &[1]);
        ctx.tr.note(if res[0] == 2 { "hyp_cam_panic" } else if wr { "hyp_cam_write" } else { "hyp_cam_read" });
    }
}

pub fn run_own(ctx: &mut Ctx) {
    directed_ops(ctx);
    cam_words(ctx);
}

// ---------------------------------------------------------------- C13: configuration access of HypPciTransport
/// a transport whose device-specific structure is `len` bytes at `off` of BAR0 (None: no such capability)
fn cfg_transport(ctx: &mut Ctx, window: Option<(u32, u32)>, wrapped: bool) -> Option<Tp> {
    let (_, mut caps) = base_dev();
    // BAR0: 1 MiB so that windows of many sizes fit
    let specs = vec![Spec::Mem { ty: 0, pf: false, k: 20, m: 32, addr: CFG_BAR as u32 }];
    match window { Some((off, len)) => { caps[2].offset = off; caps[2].length = len; } None => { caps.remove(2); } }
    let last = caps.len() - 1; caps[last].offset = 0x8_0000;
    let dev = mk(&specs, &caps);
    let df = DeviceFunction { bus: 0, device: ctx.rng.below(32) as u8, function: ctx.rng.below(8) as u8 };
    let twin = Twin::single(df, dev.f.clone());
    install(None);
    let mut root = PciRoot::new(twin);
    let t = catch_unwind(AssertUnwindSafe(|| HypPciTransport::new(&mut root, df))).ok()?.ok()?;
    take_log();
    Some(if wrapped { Tp::S(SomeTransport::HypPci(t)) } else { Tp::H(t) })
}
const CFG_BAR: u64 = 0xfe00_0000;

fn cfg_window(ctx: &mut Ctx, window: Option<(u32, u32)>, wrapped: bool, types: &[(u64, u64)]) {
    let Some(mut tp) = cfg_transport(ctx, window, wrapped) else { ctx.tr.comment(&format!("C13 hyp: no transport for {:?}", window)); ctx.tr.note("hyp_cfg_no_transport"); return };
    // the harness's own knowledge of the region: BAR address + capability offset, capability length
    let (present, base, size) = match window { Some((o, l)) => (1u128, (CFG_BAR + o as u64) as u128, l as u128), None => (0, 0, 0) };
    for (s, a) in types {
        for off in offsets(ctx, size as u64, *s) {
            // read
            let ans = ctx.rng.next();
            set_answers(&[ans]);
            let r = catch_unwind(AssertUnwindSafe(|| match &tp { Tp::H(t) => rd_dyn(t, *s, *a, off as usize), Tp::S(t) => rd_dyn(t, *s, *a, off as usize) }));
            let res = class2(&r);
            let tr = take_log();
            let mut outs = res.to_vec(); outs.extend(&tr);
            ctx.tr.line(1361, &[wrapped as u128, ctx.release as u128, present, base, size, *s as u128, *a as u128, off as u128, ans as u128], &outs);
            let mut mi = vec![present, base, size, *s as u128, *a as u128, off as u128, 0, 0, res[0], res[1]]; mi.extend(&tr);
            ctx.tr.line(1362, &mi, &[1]);
            ctx.tr.note(match res[0] { 0 => "hyp_cfg_read_ok", 1 => "hyp_cfg_read_err", _ => "hyp_cfg_read_panic" });
            // write
            let v: u128 = (ctx.rng.next() as u128) << 64 | ctx.rng.next() as u128;
            let v = if *s >= 16 { v } else { v & ((1u128 << (8 * *s)) - 1) };
            let r = catch_unwind(AssertUnwindSafe(|| match &mut tp { Tp::H(t) => wr_dyn(t, *s, *a, off as usize, v), Tp::S(t) => wr_dyn(t, *s, *a, off as usize, v) }));
            let res = class2(&r);
            let tr = take_log();
            let mut outs = res.to_vec(); outs.extend(&tr);
            ctx.tr.line(1363, &[wrapped as u128, ctx.release as u128, present, base, size, *s as u128, *a as u128, off as u128, v], &outs);
            let mut mi = vec![present, base, size, *s as u128, *a as u128, off as u128, 1, v, res[0], res[1]]; mi.extend(&tr);
            ctx.tr.line(1362, &mi, &[1]);
            ctx.tr.note(match res[0] { 0 => "hyp_cfg_write_ok", 1 => "hyp_cfg_write_err", _ => "hyp_cfg_write_panic" });
        }
    }
}

pub fn run_config(ctx: &mut Ctx) {
    ctx.tr.scenario("c13-hyp-bounds");
    let small: Vec<(u64, u64)> = TYPES.to_vec();
    for (i, len) in [4u32, 5, 7, 8, 9, 12, 16, 20, 60, 64, 0x100, 0x1000, 0xfffc, 0x1_0000, 0x4_0000].iter().enumerate() {
        for woff in [0x2000u32, 0x2004] {
            let wrapped = (i + woff as usize / 4) % 3 == 0;
            cfg_window(ctx, Some((woff, *len)), wrapped, &small);
        }
    }
    ctx.tr.scenario("c13-hyp-missing");
    cfg_window(ctx, None, false, &small);
    cfg_window(ctx, None, true, &small);
}
