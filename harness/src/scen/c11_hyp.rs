//! C11 / C13: the real `HypPciTransport` (x86-64 pKVM hypercall PCI transport, src/transport/x86_64.rs), `HypCam`
//! and `SomeTransport::HypPci`, over the PCI functions scen/c11.rs generates (capability lists in any order,
//! duplicates, short / foreign / overrunning capabilities, reserved bar values, every BAR kind, offset / length
//! pairs around 2^32 and the BAR size).  `vmcall` cannot run in user space: with `--cfg virtio_drivers_verif`
//! `hyp_io_read` / `hyp_io_write` hand every hypercall (is_write, physical address, size, data) to the back end
//! registered here, which logs it and serves it
//!   * from the twin of the reference PCI function when the address lies in the CAM window of a `HypCam`,
//!   * from the scenario's answer queue otherwise (BAR registers of the device).
//! The regions of the transport `new` returned are read from its `Debug` rendering (the fields are private).
//! Trace lines (Extract/HypPciIO.v): 1131 new (result, regions, final function, configuration accesses: all predicted
//! by the model), 1132 MONITOR hyp_new_conform_b, 1140 one operation (predicted from the transport the MODEL built),
//! 1141 MONITOR hyp_conform_b, 1142 MONITOR every hypercall inside an allocated memory BAR (the harness's own
//! knowledge of the BARs), 1143 MONITOR whole life, 1150 / 1151 HypCam words, 1152 MONITOR the hypercalls of a `new`
//! made through HypCam, 1361 / 1363 configuration access, 1362 MONITOR hyp_cfg_conform_b, 1251 / 1252 / 1253 (C12 monitors:
//! command and BAR registers as before, no sizing write while decoding is enabled), 1257 MONITOR (C12) the addresses of a batch
//! of HypCam requests: exactly phys_base + offset, inside the window, distinct.
//! `run_c12` (C12): HypCam with CAM bases that are NOT aligned to the window size, and `HypPciTransport::new` on functions whose
//! command register has decoding enabled AND bits without a named flag.
use super::c11::{apply, base_dev, build_dev, cap, enc_err, err_name, gen_op, layout, le32, mk, spec_select, walk, Cap, Dev, Op};
use super::c12::{enc_log, Spec, Twin};
use super::c13::{class2, offsets, rd_dyn, wr_dyn, TYPES};
use crate::Ctx;
use std::cell::RefCell;
use std::collections::VecDeque;
use std::panic::{catch_unwind, AssertUnwindSafe};
use virtio_drivers::transport::pci::bus::{Cam, ConfigurationAccess, DeviceFunction, PciRoot};
use virtio_drivers::transport::x86_64::{HypCam, HypPciTransport};
use virtio_drivers::transport::{SomeTransport, Transport};

// ---------------------------------------------------------------- the hypervisor
struct Hv { cam: Option<(u64, Cam, Twin)>, answers: VecDeque<u64>, log: Vec<[u128; 4]>, cam_log: Vec<[u128; 4]> }
thread_local! { static HV: RefCell<Hv> = RefCell::new(Hv { cam: None, answers: VecDeque::new(), log: vec![], cam_log: vec![] }); }
fn mask(size: usize) -> u64 { if size >= 8 { u64::MAX } else { (1u64 << (8 * size as u32)) - 1 } }
/// what the hypervisor leaves in the bytes of the result register beyond the size asked for
const GARBAGE: u64 = 0xa5c3_965a_3cf0_0ff1;
fn decode_cam(cam: Cam, off: u64) -> Option<(DeviceFunction, u8)> {
    let (bdf, reg) = match cam { Cam::MmioCam => (off >> 8, off & 0xff), Cam::Ecam => (off >> 12, off & 0xfff) };
    if reg > 0xff { return None; }
    Some((DeviceFunction { bus: (bdf >> 8) as u8, device: ((bdf >> 3) & 31) as u8, function: (bdf & 7) as u8 }, reg as u8))
}
fn backend(write: bool, addr: u64, size: usize, data: u64) -> u64 {
    HV.with(|h| {
        let mut h = h.borrow_mut();
        let in_cam = match &h.cam { Some((base, cam, _)) => addr >= *base && (addr - *base) < cam.size() as u64, None => false };
        if in_cam {
            let (base, cam, mut twin) = { let (b, c, t) = h.cam.as_ref().unwrap(); (*b, *c, t.clone()) };
            let v = match decode_cam(cam, addr - base) {
                Some((df, reg)) => if write { twin.write_word(df, reg, data as u32); data } else { twin.read_word(df, reg) as u64 },
                None => 0xffff_ffff,
            };
            h.cam_log.push([write as u128, addr as u128, size as u128, (v & mask(size)) as u128]);
            return if write { 0 } else if size < 8 { v & mask(size) | (GARBAGE << (8 * size as u32)) } else { v };
        }
        if write { h.log.push([1, addr as u128, size as u128, data as u128]); return 0; }
        let a = h.answers.pop_front().unwrap_or(0);
        h.log.push([0, addr as u128, size as u128, (a & mask(size)) as u128]);
        if size < 8 { a & mask(size) | (GARBAGE << (8 * size as u32)) } else { a }
    })
}
fn install(cam: Option<(u64, Cam, Twin)>) {
    virtio_drivers::verif::set_hyp_io_backend(Some(backend));
    HV.with(|h| { let mut h = h.borrow_mut(); h.cam = cam; h.answers.clear(); h.log.clear(); h.cam_log.clear(); });
}
fn set_answers(a: &[u64]) { HV.with(|h| h.borrow_mut().answers = a.iter().copied().collect()); }
fn take_log() -> Vec<u128> { HV.with(|h| std::mem::take(&mut h.borrow_mut().log)).into_iter().flatten().collect() }
fn take_cam_log() -> Vec<u128> { HV.with(|h| std::mem::take(&mut h.borrow_mut().cam_log)).into_iter().flatten().collect() }

// ---------------------------------------------------------------- what `new` returned
/// every decimal number that follows `key` in `s`
fn nums_after(s: &str, key: &str) -> Vec<u128> {
    let mut out = vec![];
    let mut rest = s;
    while let Some(i) = rest.find(key) {
        rest = &rest[i + key.len()..];
        let d: String = rest.chars().take_while(|c| c.is_ascii_digit()).collect();
        if let Ok(v) = d.parse::<u128>() { out.push(v); }
    }
    out
}
/// (regions (paddr, size) in field order: common, notify, ISR, device-specific; notify_off_multiplier)
fn regions_of(t: &HypPciTransport) -> (Vec<(u128, u128)>, u128) {
    let s = format!("{:?}", t);
    let p = nums_after(&s, "paddr: ");
    let z = nums_after(&s, "size: ");
    let m = nums_after(&s, "notify_off_multiplier: ");
    (p.into_iter().zip(z).collect(), m.first().copied().unwrap_or(0))
}

#[derive(Clone, Copy, Debug)]
pub enum HOp { P(Op), Gen }
impl HOp {
    fn code(&self) -> u128 { match self { HOp::P(o) => o.code(), HOp::Gen => 13 } }
    fn args(&self) -> [u128; 5] { match self { HOp::P(o) => o.args(), HOp::Gen => [0; 5] } }
    fn name(&self) -> &'static str { match self { HOp::P(Op::Drop) => "hyp_drop", HOp::P(o) => o.name(), HOp::Gen => "read_config_generation" } }
}
enum Tp { H(HypPciTransport), S(SomeTransport<'static>) }
fn happly<T: Transport>(t: &mut T, op: HOp) -> u128 { match op { HOp::P(o) => apply(t, o), HOp::Gen => t.read_config_generation() as u128 } }

pub struct Rig { t: Option<Tp>, wrapped: bool, claimed: bool, pub wins: [u128; 7], cfg: Option<(u128, u128)>, bars: Vec<u128>, session: Vec<u128> }

/// HypPciTransport::new on `dev`; lines 1131, 1132, 1251, 1252 (and 1152 when configuration space is reached through HypCam)
pub fn new_case(ctx: &mut Ctx, dev: &Dev, wrapped: bool, claimed: bool) -> Option<Rig> {
    let Some(offs) = walk(&dev.f) else { ctx.tr.note("hyp_new_cyclic_skipped"); return None };
    let df = DeviceFunction { bus: ctx.rng.next() as u8, device: ctx.rng.below(32) as u8, function: ctx.rng.below(8) as u8 };
    let twin = Twin::single(df, dev.f.clone());
    // one run in three reaches configuration space through the real HypCam (alternating the two mechanisms)
    let via_cam = ctx.rng.below(3) == 0;
    let r;
    let mut cam_line = None;
    if via_cam {
        let cam = if ctx.rng.chance(1, 2) { Cam::Ecam } else { Cam::MmioCam };
        // a CAM window that no BAR of the scenarios overlaps
        let base = *ctx.rng.pick(&[0x0000_4000_0000_0000u64, 0x0000_7ff0_0000_0000, 0x0000_4000_3000_0000]);
        install(Some((base, cam, twin.clone())));
        let mut root = PciRoot::new(HypCam::new(base, cam));
        ctx.tr.note("hyp_new_via_hypcam");
        r = catch_unwind(AssertUnwindSafe(|| HypPciTransport::new(&mut root, df)));
        cam_line = Some((cam, base));
    } else {
        install(None);
        let mut root = PciRoot::new(twin.clone());
        r = catch_unwind(AssertUnwindSafe(|| HypPciTransport::new(&mut root, df)));
    }
    let cfg_log = twin.take_log();
    let f1 = twin.func(df);
    let stray = take_log();
    HV.with(|h| h.borrow_mut().cam = None);
    let (regs, mult) = match &r { Ok(Ok(t)) => regions_of(t), _ => (vec![], 0) };
    let res: [u128; 4] = match &r { Ok(Ok(t)) => [0, t.device_type() as u8 as u128, mult, 0], Ok(Err(e)) => enc_err(e), Err(_) => [2, 0, 0, 0] };
    let mut ins = vec![ctx.release as u128];
    ins.extend(dev.f.enc());
    ins.extend(dev.f.regs.iter().map(|x| *x as u128));
    let mut outs = res.to_vec();
    outs.push(99);
    for (p, s) in &regs { outs.extend([*p, *s]); }
    outs.extend([99, f1.cmd as u128, f1.status as u128]); outs.extend(f1.vals()); outs.push(99);
    outs.extend(enc_log(&cfg_log));
    // `new` performs no hypercall outside the CAM: anything else it issued is appended and breaks the comparison
    outs.extend(&stray);
    ctx.tr.line(1131, &ins, &outs);
    // the property on the observed behaviour
    let mut mi = dev.f.enc();
    mi.extend(dev.f.regs.iter().map(|x| *x as u128));
    mi.extend([res[0], mult, regs.len() as u128]);
    for (p, s) in &regs { mi.extend([*p, *s]); }
    ctx.tr.line(1132, &mi, &[1]);
    ctx.tr.line(1251, &[dev.f.cmd as u128, f1.cmd as u128], &[1]);
    let mut bi = dev.f.vals(); bi.extend(f1.vals());
    ctx.tr.line(1252, &bi, &[1]);
    // no all-ones pattern reaches a BAR register while decoding is enabled; only command and BAR registers are written
    let mut di = dev.f.enc(); di.push(cfg_log.len() as u128); di.extend(enc_log(&cfg_log));
    ctx.tr.line(1253, &di, &[1]);
    if let Some((cam, base)) = cam_line {
        let mut ci = vec![matches!(cam, Cam::Ecam) as u128, base as u128, df.bus as u128, df.device as u128, df.function as u128, cfg_log.len() as u128];
        for (w, off, v, _) in &cfg_log { ci.extend([*w as u128, *off as u128, *v as u128]); }
        ci.extend(take_cam_log());
        ctx.tr.line(1152, &ci, &[1]);
    }
    match res[0] { 0 => ctx.tr.note("hyp_new_ok"), 1 => ctx.tr.note(&format!("hyp_{}", err_name(res[1]))), _ => ctx.tr.note("hyp_new_panic") }
    match r {
        Ok(Ok(t)) => {
            // the multiplier by the specification's rule (cross-checked against the transport's by monitor 1132)
            let _ = spec_select(&dev.f, &offs, 2).map(|o| le32(&dev.f, o + 16));
            let g = |i: usize| -> (u128, u128) { regs.get(i).copied().unwrap_or((0, 0)) };
            let wins = [g(0).0, g(0).1, g(1).0, g(1).1, mult, g(2).0, g(2).1];
            let mut bars = vec![dev.maps.len() as u128];
            for w in &dev.maps { bars.extend([w.paddr as u128, w.size as u128]); }
            let t = if wrapped { Tp::S(SomeTransport::HypPci(t)) } else { Tp::H(t) };
            Some(Rig { t: Some(t), wrapped, claimed, wins, cfg: regs.get(3).copied(), bars, session: vec![] })
        }
        _ => None,
    }
}

impl Rig {
    pub fn op(&mut self, ctx: &mut Ctx, op: HOp, answers: &[u64]) {
        set_answers(answers);
        let res: [u128; 2] = match op {
            HOp::P(Op::Drop) => { let t = self.t.take(); match catch_unwind(AssertUnwindSafe(move || drop(t))) { Ok(()) => [0, 0], Err(_) => [2, 0] } }
            _ => {
                let t = self.t.as_mut().unwrap();
                match catch_unwind(AssertUnwindSafe(|| match t { Tp::H(p) => happly(p, op), Tp::S(s) => happly(s, op) })) { Ok(v) => [0, v], Err(_) => [2, 0] }
            }
        };
        let tr = take_log();
        let mut ins = vec![self.wrapped as u128, ctx.release as u128, op.code()];
        ins.extend(op.args()); ins.extend(answers.iter().map(|a| *a as u128));
        let mut outs = res.to_vec(); outs.extend(&tr);
        ctx.tr.line(1140, &ins, &outs);
        let mut mi = self.wins.to_vec(); mi.push(op.code()); mi.extend(op.args()); mi.extend(res); mi.extend(&tr);
        ctx.tr.line(1141, &mi, &[1]);
        if self.claimed { let mut bi = self.bars.clone(); bi.extend(&tr); ctx.tr.line(1142, &bi, &[1]); }
        ctx.tr.note(op.name());
        if res[0] == 2 { ctx.tr.note("hyp_op_panicked"); }
        self.session.extend(tr);
    }
    /// drop the transport (HypPciTransport has no Drop impl: the line records that nothing is issued), session monitor
    pub fn finish(mut self, ctx: &mut Ctx) {
        if self.t.is_some() { self.op(ctx, HOp::P(Op::Drop), &[0x0f, 0]); }
        let mut mi = self.wins.to_vec(); mi.extend(&self.session);
        ctx.tr.line(1143, &mi, &[1]);
    }
}

fn hgen_op(ctx: &mut Ctx, nlen: u64, mult: u64) -> (HOp, Vec<u64>) {
    if ctx.rng.chance(1, 12) { return (HOp::Gen, vec![ctx.rng.boundary(32)]); }
    let (o, a) = gen_op(ctx, nlen, mult);
    (HOp::P(o), a)
}
pub fn run_unclaimed(ctx: &mut Ctx, dev: &Dev) {
    if let Some(mut rig) = new_case(ctx, dev, false, false) { drop(rig.t.take()); take_log(); }
    ctx.tr.note("hyp_new_unclaimed");
}
/// new, a few operations, drop
pub fn run_dev(ctx: &mut Ctx, dev: &Dev, nops: u64) {
    let wrapped = ctx.rng.chance(1, 3);
    if let Some(mut rig) = new_case(ctx, dev, wrapped, true) {
        let (nlen, mult) = (rig.wins[3] as u64, rig.wins[4] as u64);
        for _ in 0..nops { let (op, ans) = hgen_op(ctx, nlen, mult); rig.op(ctx, op, &ans); }
        rig.finish(ctx);
    }
}

/// every operation on one good transport with boundary arguments and answers
fn directed_ops(ctx: &mut Ctx) {
    for wrapped in [false, true] {
        ctx.tr.scenario(if wrapped { "c11-hyp-ops-some" } else { "c11-hyp-ops" });
        for mult in [0u32, 2, 4, 0x100, 0xfffe, 0x10000, 0xffff_fffe] {
            let (specs, mut caps) = base_dev();
            caps[3].mult = mult; caps[3].length = *ctx.rng.pick(&[2u32, 3, 0x100, 0x101, 0x1000]);
            let dev = mk(&specs, &caps);
            let Some(mut rig) = new_case(ctx, &dev, wrapped, true) else { continue };
            let nlen = rig.wins[3] as u64;
            let b16: Vec<u64> = vec![0, 1, 2, 0x7f, 0x80, 0xff, 0x100, 0x7fff, 0x8000, 0xfffe, 0xffff];
            for q in [0u16, 1, 0x8000, 0xffff] {
                for off in &b16 { rig.op(ctx, HOp::P(Op::Notify(q)), &[*off]); }
                if mult > 0 { let e = nlen.saturating_sub(2) / mult as u64; for off in [e.saturating_sub(1), e, e + 1] { rig.op(ctx, HOp::P(Op::Notify(q)), &[off & 0xffff]); } }
                for a in &b16 { rig.op(ctx, HOp::P(Op::MaxQueueSize(q)), &[*a]); rig.op(ctx, HOp::P(Op::QueueUsed(q)), &[*a]); }
                rig.op(ctx, HOp::P(Op::QueueUnset(q)), &[]);
            }
            for a in [0u64, 1, 0xffff_ffff, 0x8000_0000, 0x1_0000_0001] { for b in [0u64, 1, 0xffff_ffff] { rig.op(ctx, HOp::P(Op::ReadFeatures), &[a, b]); } }
            for f in [0u64, 1, 0xffff_ffff, 0x1_0000_0000, 0x8000_0000_0000_0000, u64::MAX, 0x0123_4567_89ab_cdef] { rig.op(ctx, HOp::P(Op::WriteFeatures(f)), &[]); }
            for s in [0u64, 1, 3, 0x0b, 0x0f, 0x10, 0x20, 0x30, 0x40, 0x80, 0xcf, 0xff, 0x1ff] { rig.op(ctx, HOp::P(Op::GetStatus), &[s]); rig.op(ctx, HOp::P(Op::AckInterrupt), &[s]); }
            for g in [0u64, 1, 0x7f, 0xff, 0x100, 0x1234_56ff, 0xffff_ffff, 0x1_0000_0001] { rig.op(ctx, HOp::Gen, &[g]); }
            for s in [0u32, 1, 3, 11, 15, 64, 128, 0xff, 0x100, 0x1ff, u32::MAX] { rig.op(ctx, HOp::P(Op::SetStatus(s)), &[]); rig.op(ctx, HOp::P(Op::SetGuestPageSize(s)), &[]); }
            for op in [Op::DeviceType, Op::RequiresLegacy] { rig.op(ctx, HOp::P(op), &[]); }
            for (n, a) in [(0u32, 0u64), (1, 1), (0xffff, 0xffff_ffff), (0x1_0000, 0x1_0000_0000), (0x1_0008, u64::MAX), (u32::MAX, 0x8000_0000_0000_0000)] {
                let q = ctx.rng.boundary(16) as u16;
                rig.op(ctx, HOp::P(Op::QueueSet(q, n, a, a ^ 0xffff_ffff, !a)), &[]);
            }
            rig.finish(ctx);
        }
    }
}

/// HypCam::read_word / write_word alone: every register, directed bus / device / function values, both mechanisms,
/// bases next to the end of the address space
fn cam_words(ctx: &mut Ctx) {
    ctx.tr.scenario("c11-hyp-cam");
    install(None);
    let bases = [0u64, 0x1000, 0xe000_0000, 0x0000_0080_0000_0000, u64::MAX - 0x0fff_ffff, u64::MAX - 0x00ff_ffff, u64::MAX - 0x0fff_fffe, u64::MAX - 0xff, u64::MAX];
    let n = ctx.budget(600, 8);
    for i in 0..n {
        let cam = if i % 2 == 0 { Cam::Ecam } else { Cam::MmioCam };
        let base = if ctx.rng.chance(1, 4) { ctx.rng.boundary(64) } else { *ctx.rng.pick(&bases) };
        let df = DeviceFunction { bus: ctx.rng.boundary(8) as u8, device: if ctx.rng.chance(1, 10) { ctx.rng.boundary(8) as u8 } else { ctx.rng.below(32) as u8 },
            function: if ctx.rng.chance(1, 10) { ctx.rng.boundary(8) as u8 } else { ctx.rng.below(8) as u8 } };
        let reg = if ctx.rng.chance(1, 8) { ctx.rng.next() as u8 } else { (ctx.rng.next() as u8) & 0xfc };
        let wr = ctx.rng.chance(1, 2);
        let data = ctx.rng.boundary(32) as u32;
        let ans = ctx.rng.boundary(64);
        set_answers(&[ans]);
        let mut hc = HypCam::new(base, cam);
        let r = catch_unwind(AssertUnwindSafe(|| if wr { hc.write_word(df, reg, data); 0u128 } else { hc.read_word(df, reg) as u128 }));
        let res: [u128; 2] = match r { Ok(v) => [0, v], Err(_) => [2, 0] };
        let tr = take_log();
        let ecam = matches!(cam, Cam::Ecam) as u128;
        let mut outs = res.to_vec(); outs.extend(&tr);
        ctx.tr.line(1150, &[ctx.release as u128, ecam, base as u128, df.bus as u128, df.device as u128, df.function as u128, reg as u128, wr as u128, data as u128, ans as u128], &outs);
        let mut mi = vec![ecam, base as u128, df.bus as u128, df.device as u128, df.function as u128, reg as u128, wr as u128, data as u128, res[0], res[1]];
        mi.extend(&tr);
        ctx.tr.line(1151, &mi, &[1]);
        ctx.tr.note(if res[0] == 2 { "hyp_cam_panic" } else if wr { "hyp_cam_write" } else { "hyp_cam_read" });
    }
}

pub fn run_own(ctx: &mut Ctx) {
    directed_ops(ctx);
    cam_words(ctx);
}

// ---------------------------------------------------------------- C13: configuration access of HypPciTransport
/// a transport whose device-specific structure is `len` bytes at `off` of BAR0 (None: no such capability)
fn cfg_transport(ctx: &mut Ctx, window: Option<(u32, u32)>, wrapped: bool) -> Option<Tp> {
    let (_, mut caps) = base_dev();
    // BAR0: 1 MiB so that windows of many sizes fit
    let specs = vec![Spec::Mem { ty: 0, pf: false, k: 20, m: 32, addr: CFG_BAR as u32 }];
    match window { Some((off, len)) => { caps[2].offset = off; caps[2].length = len; } None => { caps.remove(2); } }
    let last = caps.len() - 1; caps[last].offset = 0x8_0000;
    let dev = mk(&specs, &caps);
    let df = DeviceFunction { bus: 0, device: ctx.rng.below(32) as u8, function: ctx.rng.below(8) as u8 };
    let twin = Twin::single(df, dev.f.clone());
    install(None);
    let mut root = PciRoot::new(twin);
    let t = catch_unwind(AssertUnwindSafe(|| HypPciTransport::new(&mut root, df))).ok()?.ok()?;
    take_log();
    Some(if wrapped { Tp::S(SomeTransport::HypPci(t)) } else { Tp::H(t) })
}
const CFG_BAR: u64 = 0xfe00_0000;

fn cfg_window(ctx: &mut Ctx, window: Option<(u32, u32)>, wrapped: bool, types: &[(u64, u64)]) {
    let Some(mut tp) = cfg_transport(ctx, window, wrapped) else { ctx.tr.comment(&format!("C13 hyp: no transport for {:?}", window)); ctx.tr.note("hyp_cfg_no_transport"); return };
    // the harness's own knowledge of the region: BAR address + capability offset, capability length
    let (present, base, size) = match window { Some((o, l)) => (1u128, (CFG_BAR + o as u64) as u128, l as u128), None => (0, 0, 0) };
    for (s, a) in types {
        for off in offsets(ctx, size as u64, *s) {
            // read
            let ans = ctx.rng.next();
            set_answers(&[ans]);
            let r = catch_unwind(AssertUnwindSafe(|| match &tp { Tp::H(t) => rd_dyn(t, *s, *a, off as usize), Tp::S(t) => rd_dyn(t, *s, *a, off as usize) }));
            let res = class2(&r);
            let tr = take_log();
            let mut outs = res.to_vec(); outs.extend(&tr);
            ctx.tr.line(1361, &[wrapped as u128, ctx.release as u128, present, base, size, *s as u128, *a as u128, off as u128, ans as u128], &outs);
            let mut mi = vec![present, base, size, *s as u128, *a as u128, off as u128, 0, 0, res[0], res[1]]; mi.extend(&tr);
            ctx.tr.line(1362, &mi, &[1]);
            ctx.tr.note(match res[0] { 0 => "hyp_cfg_read_ok", 1 => "hyp_cfg_read_err", _ => "hyp_cfg_read_panic" });
            // write
            let v: u128 = (ctx.rng.next() as u128) << 64 | ctx.rng.next() as u128;
            let v = if *s >= 16 { v } else { v & ((1u128 << (8 * *s)) - 1) };
            let r = catch_unwind(AssertUnwindSafe(|| match &mut tp { Tp::H(t) => wr_dyn(t, *s, *a, off as usize, v), Tp::S(t) => wr_dyn(t, *s, *a, off as usize, v) }));
            let res = class2(&r);
            let tr = take_log();
            let mut outs = res.to_vec(); outs.extend(&tr);
            ctx.tr.line(1363, &[wrapped as u128, ctx.release as u128, present, base, size, *s as u128, *a as u128, off as u128, v], &outs);
            let mut mi = vec![present, base, size, *s as u128, *a as u128, off as u128, 1, v, res[0], res[1]]; mi.extend(&tr);
            ctx.tr.line(1362, &mi, &[1]);
            ctx.tr.note(match res[0] { 0 => "hyp_cfg_write_ok", 1 => "hyp_cfg_write_err", _ => "hyp_cfg_write_panic" });
        }
    }
}

pub fn run_config(ctx: &mut Ctx) {
    ctx.tr.scenario("c13-hyp-bounds");
    let small: Vec<(u64, u64)> = TYPES.to_vec();
    for (i, len) in [4u32, 5, 7, 8, 9, 12, 16, 20, 60, 64, 0x100, 0x1000, 0xfffc, 0x1_0000, 0x4_0000].iter().enumerate() {
        for woff in [0x2000u32, 0x2004] {
            let wrapped = (i + woff as usize / 4) % 3 == 0;
            cfg_window(ctx, Some((woff, *len)), wrapped, &small);
        }
    }
    ctx.tr.scenario("c13-hyp-missing");
    cfg_window(ctx, None, false, &small);
    cfg_window(ctx, None, true, &small);
}

// ---------------------------------------------------------------- C12: HypCam addresses, probing by HypPciTransport::new
fn cam_window(cam: Cam) -> u64 { match cam { Cam::Ecam => 0x1000_0000, Cam::MmioCam => 0x0100_0000 } }

/// HypCam::read_word / write_word for every boundary (bus, device, function, register) tuple, both mechanisms, over CAM bases
/// that are aligned to the window size and bases that are only page-aligned (0x3_9800_0000: 128 MiB-aligned ECAM; 0x1000;
/// 0xfff_f000; 0xc080_0000: MMIO CAM; the top of the address space; random 4 KiB-aligned ones).  Per request line 1150 (the
/// model predicts the hypercall), per batch of requests line 1257 MONITOR: address = base + offset exactly, inside
/// [base, base + window), distinct requests at distinct addresses.
fn cam_addrs(ctx: &mut Ctx) {
    let buses = [0u8, 1, 0x7f, 0x80, 0xff];
    let devs = [0u8, 1, 15, 16, 31, 32, 255];
    let fns = [0u8, 1, 7, 8, 255];
    let regs = [0u8, 4, 0x34, 0xfc, 1, 2, 3, 0xff];
    for cam in [Cam::Ecam, Cam::MmioCam] {
        let win = cam_window(cam);
        let top = (u64::MAX - win) + 1;   // the last base whose window fits: 2^64 - window
        let mut bases: Vec<u64> = vec![
            // aligned to the window size
            0, win, 0xe000_0000, 0x0000_0080_0000_0000, top,
            // page-aligned only
            0x3_9800_0000, 0x1000, 0xfff_f000, 0xc080_0000, 0x0800_0000, win - 0x1000, win + 0x1000, win / 2, 0x7fff_f000, 0xffff_f000,
            0x0000_7fff_ffff_f000, top - 0x1000, top - win / 2, top - win + 0x1000];
        for _ in 0..ctx.budget(6, 6) { bases.push((ctx.rng.next() & !0xfff).min(top)); }
        for _ in 0..ctx.budget(2, 6) { bases.push((ctx.rng.boundary(40) & !0xfff).min(top)); }
        let mut seen: Vec<u64> = vec![]; bases.retain(|b| if seen.contains(b) { false } else { seen.push(*b); true });
        for base in bases {
            ctx.tr.scenario(&format!("c12-hyp-cam-{}-{:#x}", if cam == Cam::Ecam { "ecam" } else { "mmio" }, base));
            install(None);
            ctx.tr.note(if base % win == 0 { "hyp_cam_base_window_aligned" } else { "hyp_cam_base_page_aligned_only" });
            let ecam = matches!(cam, Cam::Ecam) as u128;
            // batches mix all buses (an absorbed offset bit makes two BUSES collide): one batch per device value, one random
            let mut batches: Vec<Vec<(u8, u8, u8, u8)>> = devs.iter().map(|d| {
                let mut v = vec![]; for b in buses { for f in fns { for r in regs { v.push((b, *d, f, r)); } } } v }).collect();
            let n = ctx.budget(160, 2);
            batches.push((0..n).map(|_| (ctx.rng.next() as u8, ctx.rng.below(32) as u8, ctx.rng.below(8) as u8, (ctx.rng.next() as u8) & 0xfc)).collect());
            for batch in batches {
                let mut mi = vec![ecam, base as u128, batch.len() as u128];
                for (bus, dev, func, reg) in batch {
                    let df = DeviceFunction { bus, device: dev, function: func };
                    let wr = ctx.rng.chance(1, 2);
                    let data = ctx.rng.boundary(32) as u32;
                    let ans = ctx.rng.boundary(64);
                    set_answers(&[ans]);
                    let mut hc = HypCam::new(base, cam);
                    let r = catch_unwind(AssertUnwindSafe(|| if wr { hc.write_word(df, reg, data); 0u128 } else { hc.read_word(df, reg) as u128 }));
                    let res: [u128; 2] = match r { Ok(v) => [0, v], Err(_) => [2, 0] };
                    let tr = take_log();
                    let mut outs = res.to_vec(); outs.extend(&tr);
                    ctx.tr.line(1150, &[ctx.release as u128, ecam, base as u128, bus as u128, dev as u128, func as u128, reg as u128, wr as u128, data as u128, ans as u128], &outs);
                    // (is_write, address, size, data) per hypercall
                    let cnt = (tr.len() / 4) as u128;
                    let (addr, width) = if tr.len() >= 4 { (tr[1], tr[2]) } else { (0, 0) };
                    mi.extend([bus as u128, dev as u128, func as u128, reg as u128, res[0], cnt, addr, width]);
                    ctx.tr.note(if res[0] == 2 { "hyp_cam_refused" } else { "hyp_cam_addressed" });
                }
                ctx.tr.line(1257, &mi, &[1]);
            }
        }
    }
}

/// command values with decoding enabled AND bits that no flag of `Command` names (bit 7, bits 11-15)
fn probe_commands(ctx: &mut Ctx) -> Vec<u16> {
    let mut v: Vec<u16> = vec![0x0086, 0xf887, 0xffff, 0x0083, 0x0087, 0xf883, 0xf882, 0xf881, 0x0881, 0x8002, 0x0407, 0x0006, 0x0000, 0xf880, 0x0080, 0xfffc];
    for b in 0..16 { v.push((1 << b) | 3); v.push((1 << b) | 2); v.push((1 << b) | 1); }
    for _ in 0..ctx.budget(120, 10) { let c = ctx.rng.next() as u16; v.push(if ctx.rng.chance(3, 4) { c | *ctx.rng.pick(&[1u16, 2, 3]) } else { c }); }
    v
}
/// a function for the probing scenarios: the structures in 32-bit / 64-bit memory BARs (one or two), next to I/O and
/// unimplemented BARs; variants on which `new` fails after one, two or three probes
fn probe_dev(ctx: &mut Ctx, variant: u64, cmd: u16) -> Dev {
    let k = ctx.rng.range(14, 20) as u32;
    let m32 = Spec::Mem { ty: 0, pf: ctx.rng.chance(1, 2), k, m: 32, addr: 0xfe00_0000 & !((1u32 << k) - 1) };
    let m64 = Spec::Mem64 { pf: ctx.rng.chance(1, 2), k: 16, m: 64, addr: 0x0000_00f0_0000_0000 };
    let io = Spec::Io { k: 8, m: 16, addr: 0xc000 };
    let caps_on = |bar: u8| -> Vec<Cap> { vec![cap(0x40, 1, bar, 0x0000, 0x38), cap(0x58, 3, bar, 0x1000, 1), cap(0x70, 4, bar, 0x2000, 0x100), cap(0x88, 2, bar, 0x3000, 0x100)] };
    let (specs, caps): (Vec<Spec>, Vec<Cap>) = match variant % 10 {
        0 => (vec![m32], caps_on(0)),
        1 => (vec![m64], caps_on(0)),
        2 => (vec![io, m32], caps_on(1)),
        3 => { let mut c = caps_on(0); c[1].bar = 1; c[3].bar = 1; (vec![m32, m64], c) }
        // the 64-bit BAR in the last two registers
        4 => (vec![Spec::Unimpl, io, Spec::Unimpl, Spec::Unimpl, m64], caps_on(4)),
        // an I/O BAR named by the ISR structure: UnexpectedIoBar after two probes
        5 => { let mut c = caps_on(1); c[1].bar = 0; (vec![io, m32], c) }
        // an unallocated BAR named by the notification structure: BarNotAllocated after two probes
        6 => { let mut c = caps_on(0); c[3].bar = 1; (vec![m32, Spec::Mem { ty: 0, pf: false, k: 14, m: 32, addr: 0 }], c) }
        // no notification structure: the error comes after the probe for the common configuration
        7 => { let mut c = caps_on(0); c.remove(3); (vec![m32], c) }
        // no device-specific structure: three probes
        8 => { let mut c = caps_on(0); c.remove(2); (vec![m64, m32], c) }
        // the device-specific structure beyond the BAR: BarOffsetOutOfRange after four probes
        _ => { let mut c = caps_on(0); c[2].offset = 0xffff_fff0; c[2].length = 0x48; (vec![m32], c) }
    };
    let (bars, starts) = layout(&specs);
    build_dev(0x1042_1af4, cmd, ctx.rng.next() as u16 & !0x0010, bars, &starts, &[0; 6], &caps, 0, 0)
}
/// `HypPciTransport::new` leaves the command register and all six BAR registers exactly as they were and never writes a
/// sizing pattern while decoding is enabled (lines 1131 / 1132 and the C12 monitors 1251 / 1252 / 1253 of `new_case`)
fn probes(ctx: &mut Ctx) {
    ctx.tr.scenario("c12-hyp-probe-directed");
    let cmds = probe_commands(ctx);
    for (i, cmd) in cmds.iter().enumerate() {
        if i == 64 { ctx.tr.scenario("c12-hyp-probe-random"); }
        // the three commands of the brief on every variant, the others on rotating variants
        let variants: Vec<u64> = if i < 3 { (0..10).collect() } else { vec![i as u64, ctx.rng.below(10)] };
        for v in variants {
            let dev = probe_dev(ctx, v, *cmd);
            let wrapped = ctx.rng.chance(1, 4);
            if let Some(mut rig) = new_case(ctx, &dev, wrapped, true) { drop(rig.t.take()); take_log(); }
            ctx.tr.note(if cmd & 3 != 0 && cmd & 0xf880 != 0 { "hyp_probe_decode_on_unnamed_bits" } else if cmd & 3 != 0 { "hyp_probe_decode_on" } else { "hyp_probe_decode_off" });
        }
    }
}

pub fn run_c12(ctx: &mut Ctx) {
    probes(ctx);
    cam_addrs(ctx);
}
