//! Custom safe-mmio backend: every MMIO access of the real transports lands here.
//! Accesses are attributed to registered windows (by fake virtual address range), logged into the
//! global event log and served by the window's emulated device. The addresses are never dereferenced.
use crate::hal::{self, Ev};
use std::cell::RefCell;

pub trait MmioDev {
    fn read(&mut self, off: u64, width: u8) -> u64;
    fn write(&mut self, off: u64, width: u8, val: u64);
}
pub struct Window { pub id: u32, pub vbase: usize, pub size: usize, pub dev: Box<dyn MmioDev> }
thread_local! { pub static WINDOWS: RefCell<Vec<Window>> = RefCell::new(vec![]); }
/// Accesses logged since the last `clear()`. A wait loop of the code under test that never ends (e.g. a mutated
/// `Drop` polling a status register) must not grow the event log without bound: beyond LOG_CAP accesses are still
/// served but no longer logged (one ledger violation records it); the tier's time limit then reports the hang.
pub const LOG_CAP: u64 = 1_000_000;
thread_local! { static LOGGED: RefCell<u64> = RefCell::new(0); }
fn log_ev(e: Ev) {
    let n = LOGGED.with(|c| { let mut c = c.borrow_mut(); *c += 1; *c });
    if n <= LOG_CAP { hal::push(e); }
    else if n == LOG_CAP + 1 { hal::violate(format!("more than {} MMIO accesses in one case: logging stopped", LOG_CAP)); }
}

pub fn register(id: u32, vbase: usize, size: usize, dev: Box<dyn MmioDev>) {
    WINDOWS.with(|w| w.borrow_mut().push(Window { id, vbase, size, dev }));
}
pub fn clear() { WINDOWS.with(|w| w.borrow_mut().clear()); LOGGED.with(|c| *c.borrow_mut() = 0); }
pub fn with_dev<R>(id: u32, f: impl FnOnce(&mut dyn MmioDev) -> R) -> Option<R> {
    WINDOWS.with(|w| { let mut w = w.borrow_mut(); w.iter_mut().find(|x| x.id == id).map(|x| f(x.dev.as_mut())) })
}

fn access(addr: usize, width: u8, write: bool, val: u64) -> u64 {
    WINDOWS.with(|w| {
        let mut w = w.borrow_mut();
        for win in w.iter_mut() {
            if addr >= win.vbase && addr + width as usize <= win.vbase + win.size {
                let off = (addr - win.vbase) as u64;
                if write {
                    log_ev(Ev::Mmio { region: win.id, write: true, off, width, val });
                    win.dev.write(off, width, val);
                    return 0;
                } else {
                    let v = win.dev.read(off, width);
                    log_ev(Ev::Mmio { region: win.id, write: false, off, width, val: v });
                    return v;
                }
            }
        }
        hal::violate(format!("MMIO {} of width {} at {:#x} outside every mapped window", if write {"write"} else {"read"}, width, addr));
        log_ev(Ev::Mmio { region: u32::MAX, write, off: addr as u64, width, val });
        0
    })
}

pub struct Backend;
impl safe_mmio::MmioOps for Backend {
    unsafe fn read_u8(src: *const u8) -> u8 { access(src as usize, 1, false, 0) as u8 }
    unsafe fn read_u16(src: *const u16) -> u16 { access(src as usize, 2, false, 0) as u16 }
    unsafe fn read_u32(src: *const u32) -> u32 { access(src as usize, 4, false, 0) as u32 }
    unsafe fn read_u64(src: *const u64) -> u64 { access(src as usize, 8, false, 0) }
    unsafe fn write_u8(dst: *mut u8, v: u8) { access(dst as usize, 1, true, v as u64); }
    unsafe fn write_u16(dst: *mut u16, v: u16) { access(dst as usize, 2, true, v as u64); }
    unsafe fn write_u32(dst: *mut u32, v: u32) { access(dst as usize, 4, true, v as u64); }
    unsafe fn write_u64(dst: *mut u64, v: u64) { access(dst as usize, 8, true, v); }
}
safe_mmio::set_mmio_ops!(Backend);
