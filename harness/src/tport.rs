//! ModelTransport: a logging, scriptable implementation of `Transport`.
//! Every call is appended to the global ordered event log (hal::push); answers come from TState.
//! Dropping it logs TransportDrop (both real transports reset the device on drop).
use crate::hal::{self, Ev};
use std::cell::RefCell;
use std::rc::Rc;
use virtio_drivers::transport::{DeviceStatus, DeviceType, InterruptStatus, Transport};
use virtio_drivers::{Error, PhysAddr};
use zerocopy::{FromBytes, Immutable, IntoBytes};

#[derive(Clone, Copy, Default, Debug)]
pub struct QInfo { pub size: u32, pub desc: u64, pub drv: u64, pub dev: u64, pub set: bool, pub notifies: u64 }

pub struct TState {
    pub device_type: DeviceType,
    pub features: u64,
    pub driver_features: u64,
    pub max_queue_size: u32,
    pub legacy: bool,
    /// answer for queue_used(q) when the queue has not been set through this transport
    pub pretend_used: bool,
    pub status: u32,
    pub config: Vec<u8>,
    pub config_gen: u32,
    pub isr: u32,
    pub queues: Vec<QInfo>,
    /// fail config reads at or after this ordinal (None = never)
    pub fail_config_read_at: Option<usize>,
    pub config_reads: usize,
    /// called on notify (co-simulation): set by scenarios
    pub on_notify: Option<Box<dyn FnMut(u16, &mut TState)>>,
    /// scheduled config mutations: (after this many generation/config reads, new bytes, bump generation)
    pub cfg_schedule: Vec<(usize, Vec<u8>, bool)>,
    pub cfg_accesses: usize,
    /// a device whose reset completes late: after a write of 0 the next `slow_reset` reads of the status still
    /// return the value it had before (VirtIO 1.2 4.1.4.3.2 lets the driver poll for 0)
    pub slow_reset: u32,
    pub stale_status: u32,
    pub stale_left: u32,
}

impl TState {
    pub fn new(device_type: DeviceType, features: u64, nqueues: usize, max_queue_size: u32) -> Self {
        TState { device_type, features, driver_features: 0, max_queue_size, legacy: false, pretend_used: false,
            status: 0, config: vec![], config_gen: 0, isr: 0, queues: vec![QInfo::default(); nqueues],
            fail_config_read_at: None, config_reads: 0, on_notify: None, cfg_schedule: vec![], cfg_accesses: 0, slow_reset: 0, stale_status: 0, stale_left: 0 }
    }
    fn cfg_tick(&mut self) {
        self.cfg_accesses += 1;
        let n = self.cfg_accesses;
        let mut i = 0;
        while i < self.cfg_schedule.len() {
            if self.cfg_schedule[i].0 == n {
                let (_, bytes, bump) = self.cfg_schedule.remove(i);
                self.config = bytes;
                if bump { self.config_gen = self.config_gen.wrapping_add(1); }
            } else { i += 1; }
        }
    }
}

pub struct ModelTransport(pub Rc<RefCell<TState>>);

impl ModelTransport {
    pub fn new(st: TState) -> (Self, Rc<RefCell<TState>>) {
        let rc = Rc::new(RefCell::new(st));
        (ModelTransport(rc.clone()), rc)
    }
}

impl Drop for ModelTransport {
    fn drop(&mut self) {
        // only the driver-owned handle counts: scenarios keep the Rc<RefCell<TState>>, not a ModelTransport
        hal::push(Ev::TransportDrop);
        let mut s = self.0.borrow_mut();
        s.status = 0;
        for q in s.queues.iter_mut() { q.set = false; }
    }
}

fn count_nonzero(paddr: u64, len: usize) -> u64 {
    match hal::dev_read(paddr, len) { Ok(b) => b.iter().filter(|x| **x != 0).count() as u64, Err(_) => u64::MAX / 4 }
}

impl Transport for ModelTransport {
    fn device_type(&self) -> DeviceType { self.0.borrow().device_type }
    fn read_device_features(&mut self) -> u64 { hal::push(Ev::ReadFeatures); self.0.borrow().features }
    fn write_driver_features(&mut self, f: u64) { hal::push(Ev::WriteFeatures(f)); self.0.borrow_mut().driver_features = f; }
    fn max_queue_size(&mut self, q: u16) -> u32 { hal::push(Ev::MaxQueueSize(q)); self.0.borrow().max_queue_size }
    fn notify(&mut self, q: u16) {
        hal::push(Ev::Notify(q));
        let cb = { let mut s = self.0.borrow_mut(); if let Some(qi) = s.queues.get_mut(q as usize) { qi.notifies += 1; } s.on_notify.take() };
        if let Some(mut cb) = cb {
            { let mut s = self.0.borrow_mut(); cb(q, &mut s); }
            let mut s = self.0.borrow_mut();
            if s.on_notify.is_none() { s.on_notify = Some(cb); }
        }
    }
    fn get_status(&self) -> DeviceStatus {
        let mut s = self.0.borrow_mut();
        if s.stale_left > 0 { s.stale_left -= 1; return DeviceStatus::from_bits_retain(s.stale_status); }
        DeviceStatus::from_bits_retain(s.status)
    }
    fn set_status(&mut self, status: DeviceStatus) {
        hal::push(Ev::SetStatus(status.bits()));
        let mut s = self.0.borrow_mut();
        if status.bits() == 0 && s.slow_reset > 0 { s.stale_status = s.status; s.stale_left = s.slow_reset; }
        s.status = status.bits();
        if status.bits() == 0 { for q in s.queues.iter_mut() { q.set = false; } }
    }
    fn set_guest_page_size(&mut self, g: u32) { hal::push(Ev::GuestPageSize(g)); }
    fn requires_legacy_layout(&self) -> bool { self.0.borrow().legacy }
    fn queue_set(&mut self, queue: u16, size: u32, descriptors: PhysAddr, driver_area: PhysAddr, device_area: PhysAddr) {
        // how many non-zero bytes do the ring areas contain at registration time?
        let n = size as usize;
        let nonzero = count_nonzero(driver_area, 2 * (3 + n)).saturating_add(count_nonzero(device_area, 6 + 8 * n));
        hal::push(Ev::QueueSet { q: queue, size, desc: descriptors, drv: driver_area, dev: device_area, nonzero });
        let mut s = self.0.borrow_mut();
        if (queue as usize) >= s.queues.len() { s.queues.resize(queue as usize + 1, QInfo::default()); }
        let qi = &mut s.queues[queue as usize];
        qi.size = size; qi.desc = descriptors; qi.drv = driver_area; qi.dev = device_area; qi.set = true;
    }
    fn queue_unset(&mut self, queue: u16) {
        hal::push(Ev::QueueUnset(queue));
        let mut s = self.0.borrow_mut();
        if let Some(q) = s.queues.get_mut(queue as usize) { q.set = false; }
    }
    fn queue_used(&mut self, queue: u16) -> bool {
        hal::push(Ev::QueueUsed(queue));
        let s = self.0.borrow();
        s.pretend_used || s.queues.get(queue as usize).map(|q| q.set).unwrap_or(false)
    }
    fn ack_interrupt(&mut self) -> InterruptStatus {
        hal::push(Ev::AckInterrupt);
        let mut s = self.0.borrow_mut();
        let v = s.isr; s.isr = 0;
        InterruptStatus::from_bits_retain(v)
    }
    fn read_config_generation(&self) -> u32 {
        hal::push(Ev::ReadGen);
        let mut s = self.0.borrow_mut();
        s.cfg_tick();
        s.config_gen
    }
    fn read_config_space<T: FromBytes + IntoBytes>(&self, offset: usize) -> Result<T, Error> {
        let len = core::mem::size_of::<T>();
        hal::push(Ev::ReadConfig { off: offset, len });
        let mut s = self.0.borrow_mut();
        s.cfg_tick();
        let k = s.config_reads; s.config_reads += 1;
        if let Some(f) = s.fail_config_read_at { if k >= f { return Err(Error::ConfigSpaceTooSmall); } }
        match offset.checked_add(len) {
            Some(end) if end <= s.config.len() => Ok(T::read_from_bytes(&s.config[offset..end]).unwrap()),
            _ => Err(Error::ConfigSpaceTooSmall),
        }
    }
    fn write_config_space<T: IntoBytes + Immutable>(&mut self, offset: usize, value: T) -> Result<(), Error> {
        let len = core::mem::size_of::<T>();
        hal::push(Ev::WriteConfig { off: offset, len });
        let mut s = self.0.borrow_mut();
        match offset.checked_add(len) {
            Some(end) if end <= s.config.len() => { s.config[offset..end].copy_from_slice(value.as_bytes()); Ok(()) }
            _ => Err(Error::ConfigSpaceTooSmall),
        }
    }
}
