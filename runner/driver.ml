(* Correspondence runner: replays a harness trace through the extracted Coq model.
   For every line `kind ins | outs` it computes Model.step and compares with the observed outs.
   A mismatch on a monitor kind is a property violation observed on the implementation;
   any other mismatch is a divergence between model and implementation. After the first divergence
   in a scenario the remaining lines of that scenario are skipped (state is no longer in sync),
   monitor kinds excepted when they are stateless. *)
open Model

let rec pos_of_int (i : int) : positive =
  if i = 1 then XH else if i land 1 = 1 then XI (pos_of_int (i lsr 1)) else XO (pos_of_int (i lsr 1))
let n_of_int (i : int) : n = if i = 0 then N0 else Npos (pos_of_int i)
let ten = n_of_int 10
let n_of_string (s : string) : n =
  if String.length s <= 17 then n_of_int (int_of_string s)
  else begin
    let acc = ref N0 in
    String.iter (fun c -> acc := N.add (N.mul !acc ten) (n_of_int (Char.code c - 48))) s; !acc
  end
let rec int_of_pos (p : positive) : int =
  match p with XH -> 1 | XO q -> 2 * int_of_pos q | XI q -> 2 * int_of_pos q + 1
let rec pos_bits (p : positive) : int = match p with XH -> 1 | XO q | XI q -> 1 + pos_bits q
let string_of_n (x : n) : string =
  match x with
  | N0 -> "0"
  | Npos p when pos_bits p <= 61 -> string_of_int (int_of_pos p)
  | _ ->
    let buf = Buffer.create 24 in
    let rec go (v : n) (acc : char list) =
      match v with
      | N0 -> acc
      | _ -> let (q, r) = N.div_eucl v ten in
        let d = (match r with N0 -> 0 | Npos p -> int_of_pos p) in
        go q (Char.chr (48 + d) :: acc) in
    List.iter (Buffer.add_char buf) (go x []); Buffer.contents buf

let split_ws s = List.filter (fun x -> x <> "") (String.split_on_char ' ' s)
let show l = String.concat " " (List.map string_of_n l)

let () =
  let file = Sys.argv.(1) in
  let maxrep = if Array.length Sys.argv > 2 then int_of_string Sys.argv.(2) else 20 in
  let ic = open_in file in
  let st = ref MNone in
  let scen = ref "" in
  let insync = ref true in
  let lineno = ref 0 in
  let compared = ref 0 and skipped = ref 0 and mism = ref 0 and monf = ref 0 and diag = ref 0 in
  let kinds : (int, int) Hashtbl.t = Hashtbl.create 64 in
  (try
    while true do
      let l = input_line ic in
      incr lineno;
      let len = String.length l in
      if len = 0 then ()
      else if l.[0] = '#' then ()
      else if l.[0] = '@' then begin
        scen := String.trim (String.sub l 1 (len - 1)); st := MNone; insync := true end
      else begin
        let (lhs, rhs) =
          match String.index_opt l '|' with
          | Some i -> (String.sub l 0 i, String.sub l (i + 1) (len - i - 1))
          | None -> (l, "") in
        match split_ws lhs with
        | [] -> ()
        | k :: ins ->
          let kind = n_of_string k in
          let ki = int_of_string k in
          let mon = is_monitor kind in
          if (not !insync) && not mon then incr skipped
          else begin
            (* a line that is too long for the (non tail-recursive) extracted functions: it cannot come from the unchanged
               tree; it is reported as a failed line instead of taking the runner down *)
            let (st', exp, obs) =
              (try
                 let ins = List.rev (List.rev_map n_of_string ins) in
                 let obs = List.rev (List.rev_map n_of_string (split_ws rhs)) in
                 let (st', exp) = step !st kind ins in (st', exp, obs)
               with Stack_overflow -> (!st, [n_of_int 88888], [])) in
            st := st';
            incr compared;
            Hashtbl.replace kinds ki (1 + (try Hashtbl.find kinds ki with Not_found -> 0));
            if exp <> obs then begin
              if mon then begin
                incr monf;
                if !monf <= maxrep then
                  Printf.printf "MONITOR_FAIL line=%d kind=%d scenario=%s expected=[%s] observed=[%s]\n" !lineno ki !scen (show exp) (show obs)
              end else if is_diag kind then begin
                incr diag;
                if !diag <= 5 then
                  Printf.printf "DIAG line=%d kind=%d scenario=%s expected=[%s] observed=[%s]\n" !lineno ki !scen (show exp) (show obs)
              end else begin
                incr mism; insync := false;
                if !mism <= maxrep then
                  Printf.printf "MISMATCH line=%d kind=%d scenario=%s expected=[%s] observed=[%s]\n" !lineno ki !scen (show exp) (show obs)
              end
            end
          end
      end
    done
  with End_of_file -> ());
  close_in ic;
  let ks = Hashtbl.fold (fun k v acc -> (k, v) :: acc) kinds [] |> List.sort compare in
  Printf.printf "SUMMARY lines=%d compared=%d skipped=%d mismatches=%d monitor_fails=%d diag=%d kinds=%s\n"
    !lineno !compared !skipped !mism !monf !diag
    (String.concat "," (List.map (fun (k, v) -> Printf.sprintf "%d:%d" k v) ks))
